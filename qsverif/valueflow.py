"""A4 - temporal passthrough (DESIGN C07-S2): on every call-graph path from BacktestTradingSession.run to a time sink, each call
passes as its time argument the caller's own time parameter, unmodified (or one of three tabled idioms)."""
import ast

TIME_PARAMS = ('dt', 'current_dt')


def single_def(fn, name):
    """the unique expression assigned to local `name` in fn, or None (ambiguous / never / loop target)"""
    defs = []
    for n in ast.walk(fn.node):
        if isinstance(n, ast.Assign):
            for t in n.targets:
                if isinstance(t, ast.Name) and t.id == name:
                    defs.append(n.value)
                elif isinstance(t, (ast.Tuple, ast.List)) and any(isinstance(e, ast.Name) and e.id == name for e in ast.walk(t)):
                    defs.append(None)
        elif isinstance(n, (ast.AugAssign, ast.AnnAssign)) and isinstance(n.target, ast.Name) and n.target.id == name:
            defs.append(None)
        elif isinstance(n, (ast.For, ast.comprehension)) and any(isinstance(e, ast.Name) and e.id == name for e in ast.walk(n.target)):
            defs.append(('loop', n))
        elif isinstance(n, ast.NamedExpr) and isinstance(n.target, ast.Name) and n.target.id == name:
            defs.append(None)
    if len(defs) == 1:
        return defs[0]
    return None


def is_current_event(M, fn, e, depth):
    """e denotes the event the session's loop is processing: the loop variable of `for x in self.sim_engine`, or a parameter of a private step that every
    call site binds to such a value"""
    if depth > 3 or not isinstance(e, ast.Name):
        return False
    if e.id in fn.params:
        sites = [(c, n) for c, n in M.call_sites(fn.qn) if isinstance(n, ast.Call)]
        if not sites or not fn.name.startswith('_'):
            return False
        ps = fn.pos_params
        if fn.cls is not None and not fn.is_static and ps and ps[0] in ('self', 'cls'):
            ps = ps[1:]
        for c, n in sites:
            arg = None
            if e.id in ps and ps.index(e.id) < len(n.args):
                arg = n.args[ps.index(e.id)]
            for k in n.keywords:
                if k.arg == e.id:
                    arg = k.value
            if arg is None or not is_current_event(M, c, arg, depth + 1):
                return False
        return True
    d = single_def(fn, e.id)
    if isinstance(d, tuple) and isinstance(d[1], ast.For) and ast.unparse(d[1].iter) == 'self.sim_engine':
        return True
    if isinstance(d, ast.Name):
        return is_current_event(M, fn, d, depth + 1)
    return False


def classify_time_arg(M, fn, e, depth=0):
    """-> (verdict, idiom).  verdict: 'ok' | 'bad' | 'unknown'"""
    if depth > 4:
        return 'unknown', 'deep alias chain'
    if isinstance(e, ast.Name):
        if e.id in fn.params:
            if e.id in TIME_PARAMS:
                return 'ok', 'own time parameter'
            return 'bad', 'parameter %s is not the caller\'s time parameter' % e.id
        d = single_def(fn, e.id)
        if d is None:
            return 'unknown', 'local %s is not single-assigned' % e.id
        if isinstance(d, tuple):
            return 'unknown', 'loop variable %s' % e.id
        return classify_time_arg(M, fn, d, depth + 1)
    if isinstance(e, ast.Attribute):
        b = e.value
        if isinstance(b, ast.Name) and b.id == 'self' and e.attr == 'current_dt' and fn.cls is not None and fn.cls.name == 'SimulatedBroker':
            return 'ok', 'broker clock (pinned to the update time, C05-S1)'
        if isinstance(b, ast.Name) and e.attr == 'dt' and b.id in fn.params and b.id in ('txn', 'transaction'):
            return 'ok', 'time stamp of the Transaction being applied'
        if isinstance(b, ast.Name) and e.attr == 'ts':
            if is_current_event(M, fn, b, 0):
                return 'ok', 'time stamp of the current simulation event'
        if e.attr in ('start_dt', 'end_dt', 'start_date', 'end_date', 'burn_in_dt', 'ending_day', 'starting_day'):
            return 'bad', 'a fixed session date (%s), not the current time' % e.attr
        return 'unknown', 'attribute %s' % ast.unparse(e)
    if isinstance(e, ast.Constant):
        return 'bad', 'a constant'
    if isinstance(e, (ast.BinOp, ast.Call, ast.UnaryOp, ast.IfExp, ast.Subscript)):
        return 'bad', 'a computed time (%s)' % ast.unparse(e)[:60]
    return 'unknown', type(e).__name__


def time_call_sites(M, roots):
    """every (caller, call node, callee, param, arg expr) in the call-graph cone of `roots` where the callee has a time parameter"""
    reach = M.reachable(roots)
    out = []
    for qn in sorted(reach):
        fn = M.funcs.get(qn)
        if fn is None:
            continue
        env = M.local_env(fn)
        for n in ast.walk(fn.node):
            if not isinstance(n, ast.Call):
                continue
            tg, how, layer = M.resolve_any(fn, n, env)
            if layer == 3:
                continue        # name-based guess only: ambiguity never convicts
            for callee in tg:
                ps = callee.pos_params
                if callee.cls is not None and not callee.is_static and ps and ps[0] in ('self', 'cls'):
                    ps = ps[1:]
                for i, a in enumerate(n.args):
                    if i < len(ps) and ps[i] in TIME_PARAMS and not isinstance(a, ast.Starred):
                        out.append((fn, n, callee, ps[i], a))
                for k in n.keywords:
                    if k.arg in TIME_PARAMS and k.arg in callee.params:
                        out.append((fn, n, callee, k.arg, k.value))
    return out
