"""A2 - validation before mutation ("dirty raise"): can an explicit refusal be reached after protected state was written?

Decided on the per-path summaries of an entry point with every repo callee inlined, so the answer is path-sensitive:
a report names the entry, the refusing raise (function, exception class, guard) and the protected writes that precede it.
Loops: a raise in iteration k is preceded by the writes of iterations < k, i.e. by every write of the loop body.
"""
from . import terms as T
from .lib import loc_attr, summarise
from .symex import Undecided

PROTECTED = {
    'cash_balances': 'cash balance (master)', 'cash': 'cash balance (portfolio)',
    'positions': 'holding', 'buy_quantity': 'holding', 'sell_quantity': 'holding', 'avg_bought': 'holding', 'avg_sold': 'holding',
    'buy_commission': 'holding', 'sell_commission': 'holding',
    'open_orders': 'pending order', 'portfolios': 'portfolio table',
    'history': 'history entry',
}


def all_inline(caller, callee, depth):
    return depth <= 12


def _pwrites(events, protected, include_all_iterations=True):
    out = []
    for e in events:
        if e.kind == 'write' and not e.d.get('local'):
            a = loc_attr(e.loc)
            if a in protected:
                out.append((a, e.how, e.site, e.fn))
        elif e.kind == 'comp':
            # effects of the element expression of a comprehension (e.g. a draining generator consumed by sorted())
            out.extend(_pwrites(e.d.get('events') or (), protected, include_all_iterations))
        elif e.kind == 'loop':
            if e.d.get('partial') and include_all_iterations:
                # earlier iterations of the same loop ran the body to completion
                for q in e.all_paths:
                    if q.outcome in ('fall', 'continue', 'break'):
                        out.extend(('%s' % w[0], w[1] + ' (earlier iteration)', w[2], w[3]) for w in _pwrites(q.events, protected))
            for q in e.paths:
                out.extend(_pwrites(q.events, protected))
    return out


def _last_raise(events):
    r = None
    for e in events:
        if e.kind == 'raise':
            r = e
        elif e.kind == 'loop':
            for q in e.paths:
                x = _last_raise(q.events)
                if x is not None:
                    r = x
    return r


def _all_conds(path):
    cs = list(path.conds)
    return cs


def guard_of(path):
    cs = _all_conds(path)
    if not cs:
        return 'unconditional'
    c, v, site = cs[-1]
    return ('' if v else 'not ') + T.fmt(c)


def dirty_raises(ctx, entry, protected=PROTECTED, max_paths=6000):
    """-> (reports, n_raise_paths, n_paths).  report: dict(entry, fn, exc, guard, site, writes)"""
    ps = summarise(ctx, entry, policy=all_inline, max_paths=max_paths)
    reports = {}
    nraise = 0
    for p in ps:
        if p.outcome != 'raise':
            continue
        nraise += 1
        r = _last_raise(p.events)
        exc = p.state.exc
        if exc and exc[0] != 'raise':
            # an exception of a call the model does not read, passed on by a bare `raise`: nothing of the repository's own refuses here
            continue
        fn = exc[3] if exc and len(exc) > 3 else '?'
        cls = exc[1] if exc else '?'
        site = exc[2] if exc else '?'
        ws = _pwrites(p.events, protected)
        if not ws:
            key = (fn, cls, site)
            reports.setdefault(key, {'entry': entry, 'fn': fn, 'exc': cls, 'site': site, 'guard': guard_of(p), 'writes': [], 'owner': exc[4] if exc and len(exc) > 4 else None, 'implicit': bool(exc and len(exc) > 5 and exc[5] in ('table-miss', 'lookup-miss'))})
            continue
        key = (fn, cls, site)
        rep = reports.setdefault(key, {'entry': entry, 'fn': fn, 'exc': cls, 'site': site, 'guard': guard_of(p), 'writes': [], 'owner': exc[4] if exc and len(exc) > 4 else None, 'implicit': bool(exc and len(exc) > 5 and exc[5] in ('table-miss', 'lookup-miss'))})
        for w in ws:
            if w not in rep['writes']:
                rep['writes'].append(w)
    return list(reports.values()), nraise, len(ps)


def raise_signature(M, exc):
    """Stable identity of a refusing site: class owning the raise, exception class, and the leaf names its guard compares.
    Independent of line numbers, of the function name inside the class (a guard extracted into a helper keeps its identity)
    and of how the guard is spelled structurally."""
    import ast
    if not exc or len(exc) < 4:
        return ('?', '?', ())
    _, cls, site, fqn = exc[:4]
    fn = M.funcs.get(fqn)
    if fn is None:
        fn = next((g for g in M.all_funcs() if g.qn == fqn), None)
    owner = fn.cls.name if fn is not None and fn.cls is not None else (fqn.rsplit('.', 1)[0] if fn is not None else '?')
    if (fn is None or fn.cls is None) and len(exc) > 4 and exc[4]:
        owner = exc[4]
    leaves = set()
    if fn is not None:
        try:
            line = int(site.rsplit(':', 1)[1])
        except Exception:
            line = -1
        target = None
        for n in ast.walk(fn.node):
            if isinstance(n, ast.Raise) and n.lineno == line:
                target = n
        if target is not None:
            # innermost enclosing tests
            def find(node, chain):
                here = chain + [node.test] if isinstance(node, (ast.If, ast.While)) else chain
                for ch in ast.iter_child_nodes(node):
                    if ch is target:
                        return here
                    r = find(ch, here)
                    if r is not None:
                        return r
                return None
            chain = find(fn.node, []) or []
            tests = list(chain[-1:])
            skip_ids = set()
            # a guard extracted into a helper (self._ledger.predates(dt), self._is_stale(dt)): what the helper's own body reads is what the guard reads
            for t in chain[-1:]:
                for c_ in ast.walk(t):
                    if isinstance(c_, ast.Call) and isinstance(c_.func, ast.Attribute):
                        tg_ = [g_ for g_ in M.cha(c_.func.attr) if not g_.is_property] if hasattr(M, 'cha') else []
                        if len(tg_) == 1 and len(list(ast.walk(tg_[0].node))) < 120:
                            skip_ids.update(id(y_) for y_ in ast.walk(c_.func.value))        # the helper's holder (self._ledger) is not what the guard compares
                            tests.extend(r_.value for r_ in ast.walk(tg_[0].node) if isinstance(r_, ast.Return) and r_.value is not None)
                            tests.extend(i_.test for i_ in ast.walk(tg_[0].node) if isinstance(i_, ast.If))
            helper_leaves = set()
            for t in tests:
                for x in ast.walk(t):
                    # state fields read by the guard, module-level names and literal constants: stable under renaming of locals/parameters
                    if isinstance(x, ast.Attribute) and isinstance(x.value, ast.Name) and x.value.id in ('self', 'np', 'numpy', 'math', 'settings') and id(x) not in skip_ids:
                        leaves.add(x.attr)
                    elif isinstance(x, ast.Constant) and isinstance(x.value, (int, float)) and not isinstance(x.value, bool):
                        leaves.add('const:%g' % x.value)
    return (owner, cls, tuple(sorted(leaves)))
