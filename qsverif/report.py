"""Rule runner, three-valued verdicts, evidence and known-findings handling."""
import hashlib
import json
import os
import sys
import time
import traceback

from . import model as model_mod
from .symex import Undecided

VERIF = os.path.dirname(os.path.dirname(os.path.abspath(__file__)))


class Ctx:
    def __init__(self, pid, M, tier='quick', seed=0, root='/repo'):
        self.pid, self.M, self.tier, self.seed, self.root = pid, M, tier, seed, root
        self.obligations = []      # dicts: rule, instance, verdict, where, detail
        self.notes = []
        self.samples = []
        self.counters = {}
        self.paths_explored = 0

    # ---- recording
    def _rec(self, verdict, rule, instance, where=None, detail=None, key=None):
        self.obligations.append({'rule': rule, 'instance': instance, 'verdict': verdict, 'where': where, 'detail': detail,
                                 'key': key or '%s|%s' % (rule, instance)})

    def holds(self, rule, instance, where=None, detail=None):
        self._rec('HOLDS', rule, instance, where, detail)

    # rules that are ABOUT state a change introduces (memos, caches, stale values, shared tables, deferred steps): their evidence names new storage by design
    _STATE_RULES = ('|stale|', 'memo', '|cache', 'cache-', '|slot', 'lazy-generator', 'late-binding', '|discarded|', '|shared', 'C18.', '|one-shot|', '|aliased|', '|state|', '|clock', 'neg-cache', '|stateless', '|straight')

    @staticmethod
    def _unclipped(text):
        # evidence quoted at a readable length (fmt(x)[:200]) is judged on all of what it was cut from
        from .terms import FULL
        extra = [full for clipped, full in FULL.items() if clipped in text]
        return text if not extra else text + ' ' + ' '.join(extra)

    def violation(self, rule, instance, where=None, detail=None, key=None):
        # (a rule that followed every callee on the path at hand and found no unread call says so: 'READ: ...' - absence is then a finding, not a blind spot)
        read_all = isinstance(detail, str) and detail.startswith('READ: ')
        if read_all:
            detail = detail[6:]
        if isinstance(detail, str) and detail.startswith('READ!: '):
            # the claim is about an operation whose meaning does not depend on what the storage it is applied to holds (bisect_left counts strictly-earlier entries
            # of whatever list it is given): none of the "unread evidence" criteria applies
            self._rec('VIOLATION', rule, instance, where, detail[7:], key)
            return
        # A deviation is claimed only for code that was read.  Evidence that speaks of private storage the pinned tree did not have (self._accounts[...] where the
        # rule talks about self.portfolios[...]) shows a representation this rule does not relate to the fields it is stated over: left open, not reported.
        try:
            new = self.M.new_private_storage()
        except Exception:
            new = set()
        k_ = '%s|%s' % (rule, key or '')
        if new and not any(s_ in k_ for s_ in self._STATE_RULES):
            import re
            text = self._unclipped('%s %s' % (instance, detail if detail is not None else ''))
            hit = sorted((set(re.findall(r'\.(_[A-Za-z]\w*)', text)) | set(re.findall(r"'(_[A-Za-z]\w*)'", text))) & new)
            if hit:
                self._rec('UNDECIDED', rule, instance, where, 'the evidence reads storage this tree introduces (%s), which the rule does not relate to the fields it speaks about: %s'
                          % (', '.join('self.' + h_ for h_ in hit), str(detail)[:160]))
                return
        if not any(s_ in k_ for s_ in self._STATE_RULES):
            try:
                newdefs = self.M.new_definitions()
            except Exception:
                newdefs = {}
            if newdefs and not read_all:
                import re
                text = self._unclipped('%s %s' % (instance, detail if detail is not None else ''))
                if rule in ('C15.S1', 'C01.S3b'):
                    # path rules with every callee followed: functions are named as the PLACES of writes and guards; only the refusing site itself counts
                    text = str(instance).split(' [')[0]
                allnew = {n_ for ns_ in newdefs.values() for n_ in ns_ if not n_.startswith('__')}
                try:
                    # a property that keeps a field name of the pinned tree alive (start_dt now read off a helper object) is that field, not something new
                    from .model import _baseline
                    allnew -= {f_ for fs_ in (_baseline().get('fields') or {}).values() for f_ in fs_}
                except Exception:
                    pass
                # (names are looked for in the evidence proper - the detail and the bracketed path condition of the instance - not in the prose that states the clause)
                ev_text = '%s %s' % (' '.join(re.findall(r'\[(.*)\]', str(instance))), text[len(str(instance)):]) if text.startswith(str(instance)) else text
                named = sorted(n_ for n_ in allnew if len(n_) > 3 and re.search(r'(?<![A-Za-z0-9_])%s(?![A-Za-z0-9_])' % re.escape(n_), ev_text))
                # ... in the prose a name counts where it is written as code: qualified (Class.method, obj.name) or called (name(...))
                prose = str(instance)
                named += sorted(n_ for n_ in allnew if len(n_) > 3 and n_ not in named and
                                re.search(r'(?:(?<=\.)%s(?![A-Za-z0-9_])|(?<![A-Za-z0-9_])%s(?=[.(]))' % (re.escape(n_), re.escape(n_)), prose))
                if named:
                    # the evidence names a class or function this tree introduces (left as a call, or as the type of an object): not read to the end
                    self._rec('UNDECIDED', rule, instance, where, 'the evidence goes through %s, which this tree introduces and the rule does not read: %s' % (', '.join(named[:3]), str(detail)[:160]))
                    return
                if re.search(r'APPLY\(|havoc<|\((None)[,)]|islice\(None', text) and not read_all:
                    # a value applied as a function, a value the engine gave up on, a collection it could not trace: the evidence itself is unread
                    self._rec('UNDECIDED', rule, instance, where, 'the evidence contains a step the engine did not read (a value applied as a function / an untraced value): %s' % str(detail)[:160])
                    return
                if re.search(r'numpy\.fromiter\(|(?<![A-Za-z_])ARRAY\(|\.tolist\(\)|numpy\.asarray\(|numpy\.array\(|numpy\.vectorize', text) and not read_all:
                    # whole vectors computed at once by array arithmetic: the rules speak about one asset's scalar at a time and do not relate the two
                    self._rec('UNDECIDED', rule, instance, where, 'the evidence is computed by array arithmetic over all assets at once, which the rule does not read element by element: %s' % str(detail)[:160])
                    return
                site_mod = str(where).split(':')[0] if where else None
                d_ = str(detail if detail is not None else '').strip()
                absence = d_ in ('0', '[]', 'None', '{}', '()', "['[]']", '') or re.search(
                    r'no longer writes|\b0 writes|changes by 0\b|\b0 optimiser|\b0 sizer|no test |never tests|matched 0|returns without reaching|^\d+ (fee|price|broker|dequeue)|: 0 [a-z]|^0 [a-z]+|(over|iterates) \[.None.\]', d_)
                if absence and site_mod in newdefs and not read_all:
                    # something the rule looks for was NOT found, in a module whose classes/functions this tree re-arranged: "absent" cannot be told from "moved to where
                    # the rule does not look"
                    self._rec('UNDECIDED', rule, instance, where, 'nothing found where the rule looks, in a module this tree re-arranged (new: %s): %s'
                              % (', '.join(sorted(newdefs[site_mod])[:3]), d_[:120]))
                    return
        self._rec('VIOLATION', rule, instance, where, detail, key)

    def undecided(self, rule, instance, where=None, detail=None):
        self._rec('UNDECIDED', rule, instance, where, detail)

    def require(self, cond, rule, instance, where=None, detail=None, key=None):
        """cond True -> HOLDS, False -> VIOLATION, None -> UNDECIDED"""
        if cond is None:
            self.undecided(rule, instance, where, detail)
        elif cond:
            self.holds(rule, instance, where, detail)
        else:
            self.violation(rule, instance, where, detail, key)
        return bool(cond)

    def sub(self, f, *a, **kw):
        """run one rule function; a construct it cannot model makes that rule UNDECIDED without aborting the others"""
        try:
            return f(self, *a, **kw)
        except Undecided as e:
            self.undecided(getattr(f, '__name__', 'rule'), 'rule could not be evaluated on this tree', None, str(e)[:400])
            return None
        except ZeroDivisionError as e:
            # a symbolic quotient whose denominator the engine reduced to zero (a formula it mis-read, not a fact about the code)
            self.undecided(getattr(f, '__name__', 'rule'), 'rule could not be evaluated on this tree', None, 'symbolic division by zero while reading a formula: %s' % str(e)[:200])
            return None

    def note(self, text):
        self.notes.append(text)

    def sample(self, obj):
        if len(self.samples) < 40:
            self.samples.append(obj)

    def floor(self, rule, what, count, minimum):
        """Instance floor: a rule matching fewer sites than confirmed by hand is UNDECIDED, not a pass."""
        if count < minimum:
            self.undecided(rule, 'instance floor: %s' % what, None, 'matched %d sites, at least %d were confirmed by hand' % (count, minimum))
        else:
            self.holds(rule, 'instance floor: %s' % what, None, '%d >= %d' % (count, minimum))

    # ---- anchors
    def fn(self, qn):
        f = self.M.funcs.get(qn)
        if f is None and '.' in qn:
            # a method the class inherits (e.g. a helper hoisted into the base class) is the class's method all the same
            cname, mname = qn.rsplit('.', 1)
            c = self.M.cls(cname)
            f = c.lookup(mname) if c is not None else None
            if f is not None:
                import copy
                f = copy.copy(f)
                f.dyn_cls = c            # the inherited method as it runs on an instance of the subclass that was asked for
        if f is None:
            raise Undecided('anchor function %s not found' % qn)
        return f

    def cls(self, name):
        c = self.M.cls(name)
        if c is None:
            raise Undecided('anchor class %s not found' % name)
        return c


def load_known():
    p = os.path.join(VERIF, 'known_findings.json')
    if not os.path.exists(p):
        return {'findings': [], 'fixed': []}
    with open(p) as fh:
        return json.load(fh)


def run_check(pid, mod, tier, seed, root, level, explanation, trusted_base, extra_assumptions=(), selftest=None):
    t0 = time.time()
    evdir = os.environ.get('QSVERIF_EVIDENCE_DIR') or os.path.join(VERIF, 'evidence')
    os.makedirs(evdir, exist_ok=True)
    evidence_path = os.path.join(evdir, '%s.json' % pid)
    status = 0
    lines = []
    ctx = None
    err = None
    try:
        M = model_mod.build(root)
        ctx = Ctx(pid, M, tier, seed, root)
        mod.check(ctx)
    except Undecided as e:
        if ctx is not None:
            ctx.undecided('check', 'the check could not be completed on this tree', None, str(e)[:400])
        else:
            err = 'UNDECIDED: %s' % e
    except SyntaxError as e:
        err = 'source does not parse: %s' % e
    except Exception as e:          # a crash of the analysis is never a verdict about the repository
        err = 'internal error: %s\n%s' % (e, traceback.format_exc())
    known = load_known()
    kf = [k for k in known.get('findings', []) if k.get('property') == pid]
    viol, und, held, knownhits = [], [], [], []
    if ctx is not None:
        seen_keys = set()
        for o in ctx.obligations:
            if o['verdict'] in ('VIOLATION', 'UNDECIDED'):
                if (o['verdict'], o['key']) in seen_keys:
                    continue
                seen_keys.add((o['verdict'], o['key']))
            if o['verdict'] == 'VIOLATION':
                # a recorded finding is identified by rule | public entry | refusing site (owning class : exception : what its guard reads); which protected write
                # happens to come first, and how the writes are classed, varies with how the same state is stored and is not part of the identity
                ident = lambda s_: '|'.join(str(s_).split('|')[:3]) if str(s_).count('|') >= 4 else str(s_)
                hit = [k for k in kf if k['key'] == o['key'] or ident(k['key']) == ident(o['key'])]
                if hit:
                    knownhits.append((o, hit[0]))
                else:
                    viol.append(o)
            elif o['verdict'] == 'UNDECIDED':
                und.append(o)
            else:
                held.append(o)
    st_result = None
    if tier == 'thorough' and selftest is not None and err is None:
        try:
            st_result = selftest(pid, root)
        except Exception as e:
            st_result = {'error': '%s' % e, 'trace': traceback.format_exc()}
    # ---- output
    for o, k in knownhits:
        print('KNOWN-FINDING: property=%s %s [%s at %s]' % (pid, k.get('what', ''), o['key'], o['where']))
    if ctx is not None:
        for n in ctx.notes:
            print('NOTE: %s' % n)
    os.makedirs(os.path.join(evdir, 'violations'), exist_ok=True)
    for o in viol:
        dg = hashlib.sha1(o['key'].encode()).hexdigest()[:10]
        rp = os.path.join(evdir, 'violations', '%s-%s-%s.json' % (pid, o['rule'].replace('/', '_'), dg))
        with open(rp, 'w') as fh:
            json.dump({'property': pid, 'rule': o['rule'], 'instance': o['instance'], 'where': o['where'], 'detail': o['detail'],
                       'key': o['key'], 'replay': './check %s --tier %s' % (pid, tier)}, fh, indent=1, default=str)
        print('VIOLATION property=%s replay=%s' % (pid, rp))
        print('  rule=%s instance=%s at %s' % (o['rule'], o['instance'], o['where']))
        if o['detail']:
            print('  %s' % str(o['detail'])[:1500])
    for o in und:
        print('UNDECIDED property=%s rule=%s instance=%s at %s: %s' % (pid, o['rule'], o['instance'], o['where'], str(o['detail'])[:800]))
    if err:
        print('ANALYSIS-ERROR property=%s %s' % (pid, err))
    # Exit codes: 1 = positive evidence of a violation; 2 = the analysis itself failed (source does not parse, internal error);
    # 0 otherwise.  An UNDECIDED clause (a construct outside the modelled subset, an anchor that moved) is reported and counted as
    # not discharged in the evidence, but it is not an alarm: nothing was found wrong on what could be analysed.
    if viol:
        status = 1
    elif err:
        status = 2
    # obligations matched by a recorded known finding are reported separately (KNOWN-FINDING lines), not as discharged
    n_obl = len(held) + len(viol) + len(und)
    stats = ctx.M.stats() if ctx is not None else {}
    distinct = len({(o['rule'], o['instance']) for o in (ctx.obligations if ctx else [])})
    cov = {
        'obligations': n_obl,
        'discharged': len(held),
        'evaluations': n_obl,
        'distinct_nontrivial': distinct,
        'rule': 'one obligation per (rule, instance): a rule of DESIGN section 4 applied to one construct of /repo (function, call site, '
                'CFG path, decision-table valuation or formula slot); distinct = distinct (rule, instance) pairs',
        'samples': (ctx.samples if ctx and ctx.samples else [{'rule': o['rule'], 'instance': o['instance'], 'where': o['where']} for o in held[:8]]) or ['none'],
        'explanation': explanation,
        'checker_cmd': './check %s --tier %s' % (pid, tier),
        'trusted_base': list(trusted_base),
        'exhaustive': True,
        'analysed': stats,
        'paths_explored': ctx.paths_explored if ctx else 0,
        'rules': sorted({o['rule'] for o in (ctx.obligations if ctx else [])}),
        'violations_detail': [{'rule': o['rule'], 'instance': o['instance'], 'where': o['where']} for o in viol],
        'undecided': [{'rule': o['rule'], 'instance': o['instance'], 'detail': str(o['detail'])[:300]} for o in und],
        'known_findings_matched': [k['key'] for _, k in knownhits],
        'known_findings_excluded_from_obligations': len(knownhits),
        'notes': ctx.notes if ctx else [],
    }
    if st_result is not None:
        cov['selftest'] = st_result
    ev = {'property_id': pid, 'tier': tier, 'seed': int(seed), 'level': level, 'coverage': cov,
          'assumptions': list(trusted_base) + list(extra_assumptions), 'wall_s': round(time.time() - t0, 3), 'violations': len(viol)}
    if err:
        ev['coverage']['analysis_error'] = err[:2000]
    with open(evidence_path, 'w') as fh:
        json.dump(ev, fh, indent=1, default=str)
    word = {0: 'HOLDS', 1: 'VIOLATION', 2: 'ANALYSIS-ERROR'}[status]
    if status == 0 and und:
        word = 'HOLDS-ON-DECIDED-CLAUSES'
    print('%s %s tier=%s: %d obligations, %d hold, %d violations, %d known findings, %d undecided (%.2fs)' % (
        pid, word, tier, n_obl, len(held), len(viol), len(knownhits), len(und), time.time() - t0))
    if st_result is not None:
        print('selftest: %s' % json.dumps({k: v for k, v in st_result.items() if k in ('variants', 'breaking_fired', 'breaking_total', 'preserving_silent', 'preserving_total', 'stale', 'error')}))
    return status
