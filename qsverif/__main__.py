import argparse
import importlib
import json
import os
import sys

from . import report
from .props import PROPS


def main():
    ap = argparse.ArgumentParser(prog='check')
    ap.add_argument('pid', nargs='?')
    ap.add_argument('--tier', default=os.environ.get('VERIF_TIER', 'quick'), choices=['quick', 'thorough'])
    ap.add_argument('--root', default=os.environ.get('QSVERIF_ROOT', '/repo'))
    ap.add_argument('--explain')
    ap.add_argument('--selfcheck', action='store_true')
    ap.add_argument('--all', action='store_true')
    a = ap.parse_args()
    seed = int(os.environ.get('VERIF_SEED', '0') or 0)
    if a.selfcheck:
        from . import model
        M = model.build(a.root)
        print('selfcheck ok: %s' % json.dumps(M.stats()))
        for p in PROPS:
            importlib.import_module('qsverif.rules.%s' % p.lower())
        return 0
    if a.explain:
        with open(a.explain) as fh:
            v = json.load(fh)
        print(json.dumps(v, indent=1))
        a.pid = v['property']
    pids = list(PROPS) if a.all else [a.pid]
    worst = 0
    for pid in pids:
        if pid not in PROPS:
            print('unknown property %r' % pid)
            return 2
        mod = importlib.import_module('qsverif.rules.%s' % pid.lower())
        meta = PROPS[pid]
        st = None
        if a.tier == 'thorough':
            try:
                from .selftest import run_selftest as st
            except Exception:
                st = None
        rc = report.run_check(pid, mod, a.tier, seed, a.root, meta['level'], meta['explanation'], meta['trusted_base'], selftest=st)
        worst = max(worst, rc)
    return worst


if __name__ == '__main__':
    sys.exit(main())
