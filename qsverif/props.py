"""Per-property metadata used by the runner (level, explanation, trusted base)."""
TB = [
    'Python semantics of the constructs used (stable sorted, insertion-ordered dict, FIFO queue.Queue)',
    'documented contracts of pandas/numpy calls whose arguments are checked',
    'no monkey-patching or reflection in the package (checked by a zero-instance rule on every run)',
    'only code under /repo/qstrader is analysed; user strategies are out of reach',
    'the specification tables in qsverif/rules are written by hand from the property text',
    'object-insensitive fields: two objects of one class share one abstract field',
]
PROPS = {}


def P(pid, level, explanation):
    PROPS[pid] = {'level': level, 'explanation': explanation, 'trusted_base': TB}

P('C01', 'other',
  'Static rules over the resolved program (ast + per-path symbolic summaries with canonical arithmetic). Decided: S1 who-may-write '
  'Portfolio.cash / SimulatedBroker.cash_balances (package-wide, aliases and getter hand-outs included) and which public entry points move '
  'cash; S2 on every normal path each movement writes the balance exactly once by the canonical delta (+amount, -amount, '
  '-(price*quantity+commission)); S3 portfolio transfers are zero-sum and pass the amount unmodified; S4 one Transaction and one debit per '
  'fill, commission = the unmodified fee-model result; S5 history is append-only and every movement appends exactly one event whose '
  'amount/balance are round(.,2) of the true values; S6 account aggregates resolve, iterate all portfolios and sum from zero. Not decided: '
  'floating-point exactness of running sums.')

P('C15', 'proof',
  'All-paths static argument over per-path summaries with every repo callee inlined (no sampling). S1 R-VBM: for every public entry '
  'point of SimulatedBroker and Portfolio and every explicit raise reachable from it, no write to protected state (cash balances, '
  'holdings = positions table and quantity/cost/commission accumulators, pending-order queues, portfolio table, history) precedes the '
  'raise on any path; loop iterations are accounted for (a raise in iteration k follows the writes of earlier iterations). S2 decision '
  'tables: for every tabled invalid request class (negative amount, insufficient cash, unknown/duplicate portfolio, unsupported currency, '
  'order for an unknown portfolio, timestamp earlier than the clock, negative price mark) every admitted path ends in the documented '
  'exception class - no silent acceptance. S3 the refusing guard runs before any protected write. Clocks and price marks are outside the '
  'property\'s enumerated state and are not protected. Only explicit raise statements count as refusals.')

LEVEL_NOTE = ('Trusted: Python semantics of the constructs used; pandas/numpy contracts of calls whose arguments are checked; absence of '
              'reflection (checked); hand-written specification tables; only explicit raise statements are refusals; object-insensitive fields. '
              'The check decides the structural clauses named in the level text, not floating-point behaviour.')
TECHNIQUE = {
    'C01': 'static analysis: who-may-write ownership scan + per-path symbolic summaries with canonical arithmetic deltas',
    'C15': 'static analysis: path-sensitive validation-before-mutation (dirty raise) analysis + decision tables over guard orderings',
}
NOT_APPLICABLE = {}

P('C02', 'other',
  'Static rules over per-path symbolic summaries. Decided: S1 who-may-write the quantity fields, current_price and the positions table; '
  'S2 every path of Position.transact changes buy-sell by exactly the fill quantity (canonical arithmetic; the zero-quantity idiom tabled), '
  'opening a position yields net = fill quantity; S3 transact_position inserts iff the asset is not held and deletes iff the stored '
  'position\'s net quantity tests zero, on every path; S4 the holdings report iterates every position and reports net_quantity / market_value / '
  'pnl properties; S5 market_value = current_price*net, total_market_value sums it over all positions, total_equity adds cash, every fill and '
  'every accepted mark stores the given price, and the broker marks every held asset of every portfolio at the mid price of the update time. '
  'Together these are the one-step induction for the property; exactness of float sums is not decided.')
TECHNIQUE['C02'] = 'static analysis: ownership scan + per-path symbolic summaries (net-quantity delta, presence decision table, valuation formulas)'

P('C03', 'other',
  'Static rules: the P&L properties are inlined per sign case of the running position (long/short/flat x opposite side empty), branch '
  'tests decided from the case, and the resulting return expressions rewritten to rational-function normal form (no solver). Decided over '
  'the reals, per branch, for the code as written: S1 total = realised + unrealised; total = current_price*net + avg_sold*sell_q - '
  'avg_bought*buy_q - commissions; unrealised = (price - average cost incl. open-side commission) * net; readers depend on the seven '
  'accounting fields only. S2 _transact_buy/_sell keep average*quantity = sum of considerations and add quantity and commission; the '
  'dispatch hands (|q|, price, commission) to the right side; the opening fill seeds the accumulators. S3 re-marking writes only price and '
  'clock, and realised P&L / quantities do not read them. Not decided: floating-point behaviour over long sequences.')
TECHNIQUE['C03'] = 'static analysis: per-branch symbolic inlining of the P&L properties + rational-function normal form identities'

P('C04', 'proof',
  'All-paths static argument on SimulatedBroker.submit_order / update / _execute_order and SimulatedExchange (per-path symbolic summaries, '
  'private helpers inlined, no sampling of the program). S1 submitting writes only one put of the given order on its portfolio queue. S2 every '
  'dequeue and every fill is dominated by is_open_at_datetime(dt) being true at the update time; the out-of-hours path writes only clocks '
  'and marks. S3 put only in submit_order, get only in update, FIFO queue.Queue, the drain visits every portfolio and every queue until '
  'empty with no early exit, the executed batch is exactly the drained list and each element is executed exactly once against its own '
  'portfolio. S4 one Transaction per executed order with the full order quantity. S5 stable builtin sort, key = the order\'s direction, '
  'ascending. S6 is_open_at_datetime evaluated as a decision table over weekday 0..6 x time of day (boundary grid; every minute in the '
  'thorough tier) equals weekday<=4 and 14:30<=t<21:00. Known blemish recorded under C15 (a refused fill loses the drained orders).')
TECHNIQUE['C04'] = 'static analysis: guard-dominance and exactly-once path rules on symbolic summaries, who-may-call tables, exhaustive decision table of the hours predicate'

P('C05', 'other',
  'Static rules over per-path symbolic summaries of SimulatedBroker._execute_order, the data handler and the fee models. Decided: S1 the '
  'quote is looked up once for the ordered asset at the update time, the Transaction is stamped with the broker clock, which update() sets '
  'to its argument first; S2 a buy takes component [1] (ask), a sell component [0] (bid) of the handler\'s quote; the handler\'s pair is '
  '(bid getter, ask getter) or the documented (bid, bid) shortcut, accepted only while the data source builds Ask identical to Bid; mid = '
  '(bid+ask)/2; S3 consideration = round(price*quantity) with no digits, fee model called once with (asset, quantity, consideration, broker), '
  'its result is the commission unmodified; S4 PercentFeeModel = (commission_pct + tax_pct)*|consideration| on its single path (hence '
  'non-negative for non-negative rates and sign-independent), ZeroFeeModel = 0, rates are the constructor arguments. Float rounding is not decided.')
TECHNIQUE['C05'] = 'static analysis: value-flow / provenance of price, time stamp and commission through symbolic path summaries; canonical fee formulas'

P('C06', 'other',
  'Static rules over symbolic summaries of CSVDailyBarDataSource.get_bid/get_ask, the bar->bid/ask converter and the data handler (pandas '
  'semantics trusted; the arguments and the shape of the pipeline are checked). Decided: S1 the only index lookup is one get_indexer([dt], '
  'method pad/ffill) on the asset frame\'s index, the value returned is the Bid/Ask column at that row, unmodified; S2 the indexer result '
  'reaches .iloc only on paths that excluded the -1 sentinel, and a NaN path exists; S3 the bar frame is sorted first, missing cells are '
  'filled by exactly one forward fill while rows are in time order (tabled reshape idiom or an explicit sort before the fill), never by '
  'bfill/interpolate, and the result is indexed by timestamp and sorted; S4 Open rows +14:30, Close rows +21:00; S5 Bid = Ask = Price, '
  'adjusted open = adj close/close*open; S6 accessors are pure, read only the frames built once in the constructor, the class keeps identity '
  'equality (lru_cache key), the handler returns the source value unmodified at its own dt. Not decided: pandas internals.')
TECHNIQUE['C06'] = 'static analysis: API-argument and pipeline-shape rules on symbolic method chains, sentinel-guard path rule, constant tables, effect/ownership scans'

P('C07', 'other',
  'Non-interference argument over the package, decided statically: absence of any code path that can carry later market data into an '
  'earlier decision. S1 from BacktestTradingSession.run (resolved call graph incl. implicit __iter__), the only readers of the bid/ask frames '
  'reached are get_bid/get_ask, no reader of the raw bar frames or of a historical range is reachable, and market data enters only through '
  'the latest-price getters. S2 temporal passthrough: every call site in the cone that binds a time parameter passes the caller\'s own time '
  'parameter unmodified, the broker clock, the Transaction stamp or the event time (each site classified; dt+delta, end_dt or a constant is '
  'a violation). S3 the C06 point-in-time rules (pad lookup, sentinel, forward fill in time order), no backward fill/nearest/negative shift '
  'anywhere in the cone of run/get_equity_curve/get_target_allocations/data loading, no end-relative access in the data source, the exchange '
  'is closed at its own closing instant, signals are fed only at closes with the price at dt. Not decided: user-supplied alpha models, '
  'pandas internals, the bit-for-bit two-run formulation itself.')
TECHNIQUE['C07'] = 'static analysis: call-graph reachability of data readers + temporal-passthrough value-flow over all time-carrying call sites + backward-operation scan'
P('C16', 'other',
  'Static rules. S1 cadence: the body of run\'s event loop is evaluated as a complete decision table (signals configured x event type x '
  'burn-in ordering x schedule membership x print flag): signals.update(dt) exactly once iff signals and market_close; inside the collection every '
  'signal refreshes its universe before any append and every tracked asset of every signal gets exactly one append of the mid price at dt, '
  'forwarded once to every lookback buffer. S2 writer/reader key agreement: buffers keyed <asset>_<lookback> with a fresh deque(maxlen=lookback) '
  'per key; for each Signal subclass the constructor\'s window bump equals the reader\'s key offset, +1 for return-based signals, 0 for the '
  'average. S3 parameter slots of the recognised pipelines (population std x sqrt(252), warm-up guard -> 0, compounded returns - 1, mean of '
  'available prices); an unrecognised pipeline is undecided, a deviating slot is a violation. S4 new members are chosen per asset (set '
  'difference), their buffers are created empty on first observation, nothing in signals/ reaches a historical range. Not decided: numerical '
  'equality of the pandas/numpy pipelines with the definitions.')
TECHNIQUE['C16'] = 'static analysis: exhaustive decision table of the event loop, writer/reader key-offset agreement, formula-slot matching on symbolic terms'

P('C12', 'other',
  'Static rules on DailyBusinessDaySimulationEngine. S1 business_days is written once, from pd.date_range(start, end, freq=business day) '
  'over the unmodified constructor arguments. S2 __iter__ evaluated as a decision table over the four pre/post flag combinations: per day '
  'the yields are exactly [pre 00:00] open 14:30, close 21:00 [post 23:59] in that order, decided by the two flags alone, every event stamped '
  'with that day\'s year/month/day in UTC, times of day strictly increasing. S3 decision table over the ordering of end and start: earlier '
  '-> ValueError, equal and later -> accepted. Not decided: that pandas\' business-day range yields exactly the Monday-Friday dates.')
TECHNIQUE['C12'] = 'static analysis: decision tables over flags and orderings on symbolic summaries, constant tables of event times, API-argument rule'
P('C13', 'other',
  'Static rules on the four rebalance classes and the session wiring. S1 frequency slots: weekly = pd.date_range(start, end, freq=\'W-<weekday>\'), '
  'daily = business days, end of month = \'BME\' (alias \'BM\'), each over the unmodified range, unfiltered, stamped \'<date> <market time>\' UTC; '
  'buy-and-hold = start if business day else start + BusinessDay(). S2 weekday guard as a decision table over names: exactly MON..FRI '
  '(case-insensitive) accepted, anything else ValueError. S3 the three _set_market_time siblings map pre_market -> 14:30:00 else 21:00:00. S4 '
  '14:30 and 21:00 are unconditional clock events, the clock covers the business days of the same unmodified range, and the session builds '
  'clock and schedule from the same (start_dt, end_dt) through a 4-row table. Not decided: pandas calendar semantics (completeness of dates).')
TECHNIQUE['C13'] = 'static analysis: frequency/argument slot matching on symbolic terms, decision tables for guards, constant agreement between schedule and clock'

P('C14', 'other',
  'Static rules. S1 the body of BacktestTradingSession.run\'s event loop is evaluated as a complete decision table (signals configured x '
  'event type x burn-in absent/before/at/after x schedule membership x print flag, 128 valuations): per event broker.update once and first; '
  'signals.update iff signals and close; the trading system iff scheduled and not before burn-in (>= inclusive); an equity point iff close '
  'and not before burn-in; every action at the event\'s own time; the print flag changes nothing. The broker marks every held asset of every '
  'portfolio at the mid price of the update time. S2 who may trade: submit_order only from ExecutionHandler.__call__, only from '
  'QuantTradingSystem.__call__, only from run. S3 the exchange predicate at the clock\'s own instants: 00:00 closed, 14:30 open, 21:00 closed, '
  '23:59 closed. S4 a rebalance fires iff dt is a member of the schedule, written once from the rebalancer, unfiltered. S5 equity point = (dt, '
  'account total equity), allocation table re-indexed onto the equity dates with forward fill and cut at burn-in, one dated record per '
  'construction call. Not decided: the exact set of dates (C12/C13 calendar clauses).')
TECHNIQUE['C14'] = 'static analysis: exhaustive decision table of the event loop, who-may-call chain, constant-evaluated exchange predicate, output-pipeline slot rules'

P('C19', 'other',
  'Static rules. S1 DynamicUniverse.get_assets is one comprehension over all configured assets whose filter, evaluated as a decision table '
  'over {entry date is None} x ordering(dt, entry), admits an asset iff it has a date and entry <= dt (inclusive); StaticUniverse returns its '
  'configured list; both are stateless and their maps are written only by the constructors. S2 SingleSignalAlphaModel is straight-line and '
  'stateless: weights for exactly universe.get_assets(dt), each the configured signal; the construction model considers held assets union '
  'universe(dt) only. S3 the fixed-weight optimiser returns its parameter; the equal-weight optimiser gives scale/len(keys) to exactly the '
  'input keys, no filter. Composition over sessions (no fill before entry) follows from these plus C14/C09 and is not re-derived.')
TECHNIQUE['C19'] = 'static analysis: decision table of the membership filter, statelessness/effect rules, canonical-formula matching of the optimisers'
P('C09', 'other',
  'Static rules on PortfolioConstructionModel and the two order sizers. S1 asset set = sorted(held assets union universe(dt)). S2 each '
  'construction step runs exactly once per call; zero weights cover the full set; overlay = zero weights first, optimiser weights second. S3 '
  'the same full vector flows to the order sizer and into the dated target-allocation record. S4 order quantity = target - current asset by '
  'asset (canonical arithmetic), for every target asset, exactly the non-zero differences, one Order(dt, asset, qty) each, sorted by asset '
  'ascending, returned unmodified. S5 both sizers assign a target to every item of the normalised weights (no break/continue/filter, no '
  'early return except for an empty weight dict) and normalisation preserves the key set - which is what makes a held asset without weight '
  'get an explicit zero target and be liquidated. Not decided: that holdings equal the target after the fills (composition with C04/C02).')
TECHNIQUE['C09'] = 'static analysis: provenance of the weight vector through the construction steps, canonical order-difference formula, loop-completeness path rules'

P('C10', 'other',
  'Static rules on DollarWeightedCashBufferedOrderSizer. S1 formula slot, compared by canonical arithmetic: quantity = int(FLOOR((A - fee(A)) / P)) '
  'with A = equity x (1 - buffer) x w/sum(w), fee = the broker fee model called with consideration A, P = the latest ask at dt; rounding class '
  'must be FLOOR (not ROUND/CEIL/TRUNC) with nothing between the ratio and the floor. S2 guards as decision tables / dominance rules: buffer '
  'accepted iff in [0,1] (values -0.5, 0, 0.5, 1, 1.5), the negative-weight test dominates every return of the normaliser, normalisation '
  'precedes sizing on every non-empty path, the NaN-price check dominates the division and raises ValueError, ~0-sum weights come back '
  'unscaled, an empty target only for empty weights. Not decided: the inequality cost+fees <= share < cost of one more share (a numeric '
  'consequence of FLOOR for positive prices) and float rounding of the division.')
TECHNIQUE['C10'] = 'static analysis: canonical formula-slot matching on symbolic path summaries, guard decision tables and dominance rules'
P('C11', 'other',
  'Static rules on LongShortLeveragedOrderSizer. S1 weights scaled by leverage / sum(|w|), the ~0 shortcut tests the gross sum(|w|). S2 per '
  'asset: fee estimated on equity x scaled weight, price = latest ask at dt, quantity = int(t / P) where t truncates the after-cost dollars '
  'toward zero - FLOOR exactly on the branch where they are >= 0 and CEIL where < 0 (or a TRUNC-class call), both signs covered. S3 leverage '
  'accepted iff > 0 (values -1, 0, 0.5, 1, 3), NaN price refused before the division. Not decided: the gross-exposure bound and "largest '
  'affordable within one currency unit" (numeric consequences).')
TECHNIQUE['C11'] = 'static analysis: canonical formula-slot matching, sign-domain decision table of the truncation branches, guard tables'

P('C17', 'other',
  'Static rules on qstrader.statistics. S1 R-RECUR-BASE: the high-water-mark recurrence over range(1, n) has its base element assigned '
  'from the first observation before the loop (or a cumulative-maximum primitive is used) and absorbs the observation of the same index. '
  'S2 formula slots by canonical arithmetic: drawdown = (hwm - x)/hwm, maximum = max of that series, duration = longest run of the '
  'indicator "drawdown != 0" of that same series; CAGR = last^(periods/len) - 1; Sharpe = sqrt(periods) mean/std with default ddof; Sortino '
  'the same over strictly negative returns. S3 provenance: returns = pct_change of the equity column (degree-0 homogeneous, hence scale '
  'free), cumulative returns compound them, and every perf.* call in the reporters receives the series its definition names. S4 the JSON '
  'export and the tearsheet derive returns/cumulative returns by identical expressions, pass the configured periods, and keep no cache on '
  'the reporter. S5 every aggregate applies exp(sum(log(1+r)))-1 to a groupby partition of the given returns. Not decided: numerical equality '
  'with the definitions for all curves; pandas groupby semantics.')
TECHNIQUE['C17'] = 'static analysis: recurrence base-case rule, canonical formula-slot matching, provenance of the series passed to each statistic, sibling agreement of the reporters'

P('C18', 'proof',
  'Closed-world enumeration of nondeterminism sources over the whole package, each discharged mechanically (a new source anywhere is a '
  'violation until tabled): (set) every set-typed expression that is iterated, listified, returned or unpacked is under sorted(), except the '
  'tabled Signal.update_assets whose order reaches only per-asset keyed state (every loop over a signal\'s asset list is checked); (fs) '
  'directory listings are sorted or feed dicts that are only looked up by key; (random) no random/uuid/time/now/id/hash call except the '
  'tabled uuid4, whose value (order_id) is never compared, used as key, sort key or operand - only formatted or stored; (shared) no '
  'module-level binding is written at run time except the print switch, which only guards print statements; no global statement, no '
  'class-level mutable, mutable default arguments never mutated; (memo) the only memoised functions are get_bid/get_ask, pure, reading only '
  'frames written once in the constructor, keyed by instance identity (no __eq__/__hash__), and the pricing/alpha/sizing components write no '
  'attribute outside their constructors; (sort) every sort key is free of identity/randomness and the fill batch is a stable sort over FIFO '
  'queues drained in portfolio-creation order. Trusted: determinism of pandas/numpy and of dict insertion order.')
TECHNIQUE['C18'] = 'static analysis: closed-world source enumeration (sets, listdir, random/time, globals, memoisation, sorts) with taint and effect discharge rules'

P('C08', 'other',
  'Claimed only as wiring and data-source conformance; the property itself - equality of fills, cash, holdings and equity with an '
  'independent re-implementation for all markets - is numerical agreement between two programs and is NOT decided. Decided slots, each a '
  'necessary condition of one documented rule: sizers size from the session portfolio\'s total equity and the latest ask at dt; long_only '
  'selects the cash-buffered sizer with the caller\'s buffer, else the leveraged sizer with the caller\'s leverage, identically in the session '
  'and the trading system; fixed-weight optimiser; pass-through execution algorithm; every final order submitted exactly once to the session '
  'portfolio; broker built with the configured fee model and the portfolio funded with the whole initial cash; plus the rules of C10-S1, C11, '
  'C09-S2..S4, C04-S2..S6, C05-S1..S3, C14-S1/S5, the broker mark loop, the clock range, and agreement of the bar Open/Close row times with '
  'the exchange\'s open/close.')
TECHNIQUE['C08'] = 'static analysis: wiring/provenance slot table over symbolic summaries (necessary conditions only; numerical agreement not decided)'


# ---------------------------------------------------------------------------------------------------------------------------------------------
# What rounds 2 and 3 changed in the rules (appended to the level texts above; DESIGN.md 9.1 items 11-19 give the reasons).
COMMON_ADDENDUM = (' Verdict policy: a clause is VIOLATED only when the code is read and deviates; code whose shape the rule does not read (a restructuring into '
                   'generators, records, deferred callables, vectorised pipelines) makes that clause UNDECIDED (printed, exit 0), never a violation. Rules are anchored '
                   'on public entry points with the class\'s private helpers, decorators, context managers, dispatch tables, enum members and record objects read '
                   'through; logical fields kept inside sub-objects or under private names are analysed under the property names that project them.')
ADDENDA = {
    'C02': ' Round 3: total_market_value/total_equity are decided as linear sums over all positions whatever helper computes them; deferred mark callables must '
           'bind the portfolio and asset they were created for (late-binding rule).',
    'C03': ' Round 3: S2 is decided on the paths of the public Position.transact (sign domain of the fill quantity, through int/floor roundings): a buy/sell '
           'moves exactly its own side\'s three accumulators by (|q|, |q| x price, commission).',
    'C04': ' Round 3: the queue key is followed through items()/values() iteration; several execution sites in one loop are allowed as long as each drained order '
           'is executed exactly once per path; deferred fill callables must bind their order and portfolio.',
    'C06': ' Round 3: hand-rolled memo tables inside the accessors are classified (sound: keyed by every argument the entry depends on, per instance; unsound or '
           'class-level: violation; cursors: undecided); the converter\'s column/offset clauses are decided only for pipelines the rule reads.',
    'C07': ' Round 3: also includes the C18 shared-state and memoisation rules (state shared between instances or runs is data from another point in time).',
    'C08': ' Round 3: also includes the C18 shared-state and memoisation rules ("reproduces" presupposes that nothing leaks between sessions).',
    'C09': ' Round 3: S1 also requires that answers which ARE the callee\'s own list (a universe handing out its asset_list) are not changed in place; a sizer '
           'that keeps its target on the instance must empty it in every call; the update rule of C04 is included (orders fill in the portfolio they were sized against).',
    'C10': ' Round 3: two-phase sizing (fees estimated in a first loop or comprehension, priced in a second) is read as one; EAFP NaN refusal (int(x / price) under '
           'except ValueError) is recognised; the data source\'s sentinel rule (C06-S1/S2) and the handler pass-through (C06-S6) are included: an unavailable price must '
           'reach the sizer as NaN.',
    'C11': ' Round 3: truncation toward zero is decided on the sign domain of the after-cost dollars on each path (tests on x, sign(x), table dispatch); same '
           'inclusions as C10.',
    'C12': ' Round 3: stamps derived from the day itself (day + Timedelta) are exact only after normalize()/floor("D") or a replace() of every component down to '
           'the nanosecond; a partial replace is reported (the start\'s seconds survive in every event).',
    'C13': ' Round 2/3: S1-S3 are decision tables of the constructors (what ends up in self.rebalances); list copies and getattr defaults are read through in the '
           'session\'s frequency table.',
    'C14': ' Round 3: who-may-call rules are closed under private steps of the allowed caller and under the session\'s set-up closure; S4 "unfiltered" is read off what '
           'the constructor stores per frequency; the allocation table located by bisect must use bisect_right (latest rebalance at or before the date).',
    'C16': ' Round 3: S2 is decided on the constructor\'s summary with the buffer object built structurally: key offset and window (maxlen) offset relative to the '
           'lookback given, for construction and add_asset alike, whoever (signal, base class, buffer class) applies the +1; one deque object stored under many keys '
           '(dict.fromkeys) is a violation; deferred appends must not close over the loop variable.',
    'C17': ' Round 3: vectorised running maxima (np.maximum.accumulate, itertools.accumulate(max)) and Series/array wrappers are read through; the reporters\' own '
           'helper records are read through; get_results must answer with its own dict (a class- or instance-level dict filled in place is shared).',
    'C18': ' Round 3: a memoised function outside the table is analysed, not rejected: no effect, reads only arguments and construction-time state, identity keying, '
           'and either an immutable result or a mutable one that no call site (followed through functions that hand it on) mutates or stores; fields written outside '
           'constructors are state only if read back before being rewritten (write-only records and per-call re-initialised fields are not), sound per-instance memo '
           'tables are accepted, class-level tables are not.',
    'C19': ' Round 3: a sound per-instance memo in get_assets is accepted (hits removed, the miss path decided); results of value-returning builtins that are thrown '
           'away (sorted(xs) as a statement) are reported in the universe/alpha/optimiser modules (and, under their own clauses, in broker, portcon, statistics, '
           'simulation, signals and rebalance code).',
}
ADDENDA45 = {
    'C01': ' Rounds 4-5: the who-may-call rule is closed under the private steps of the allowed callers; refusals found as implicit look-up misses are not explicit '
           'refusals; record-keeping rules say READ only where every call on the path was followed.',
    'C02': ' Rounds 4-5: S3 follows the whole step when deletion hangs on a callee\'s answer; kept figures (a property that fills a slot of its object) must be dropped '
           'by every method that changes an input - a sibling that does and one that does not is a contradiction; an update path on which every call was followed and '
           'none marks a position is reported; marks may pass through the portfolio\'s own handler.',
    'C03': ' Rounds 4-5: includes C02.S3; cache-aware (a kept figure is judged by its invalidation, path by path); re-marking may write fields the pinned tree does not '
           'have; totals may range over the position keys.',
    'C04': ' Rounds 4-5: S6 follows the exchange\'s own methods and the records they hand out (enum phases with match statements); a sort by direction applied per '
           'portfolio inside the loop over the portfolios is reported; session cursors that re-seed themselves from the question are undecided.',
    'C05': ' Rounds 4-5: quote side and consideration are read through enum members carrying data, Enum[name] look-ups (one path per member), named tuples built by '
           'unpacking, round(x, None); a memoised quote must be keyed by everything it depends on.',
    'C06': ' Rounds 4-5: the instant queried is classified (tz_convert same instant, floor never later, round/ceil may look ahead); positional look-ups (searchsorted '
           'side, bisect) are decided; a bar handed out by fixed position must be established as not later than dt on that path; memo tables on helper objects '
           '(one calendar per asset) are judged with the holder factored out; an open/close frame written out column by column is judged column by column; a function '
           'defined in a loop and put away reads the loop variable when called.',
    'C07': ' Rounds 4-5: a field passed as time argument (dt=self.current_dt) is read off the paths of the method as callers see it (decorators included) and off '
           'records built on the path: it must hold the request\'s own time where the call is made.',
    'C08': ' Rounds 4-5: the buy-and-hold instant is decided as an offset in days per weekday of the start whatever arithmetic computes it; the constructor keeps the '
           'arguments it is given.',
    'C09': ' Rounds 4-5: the asset list may be handed out as a tuple; orders appended in a loop whose body branches on the two quantities are decided as a table over '
           '(target, current) in {-3,-1,0,2,5}^2; the sizers\' own state is scanned (a memo keyed by tuple(weights) holds the keys of the mapping only); array arithmetic '
           'over all assets at once is not read element by element (undecided).',
    'C10': ' Rounds 4-5: math.isclose(x, 0.0) has no absolute tolerance (reported), abs_tol=1e-8 is the numpy default; slot memos in the sizer are judged (an answer asked '
           'of the broker under a key that records none of the broker\'s state and is never dropped is stale).',
    'C11': ' Rounds 4-5: a formula written another way (magnitude sized, sign put back) is decided as a 56-point table over allocation x fee x price: a point that '
           'deviates is the witness of a violation, agreement is recorded as undecided; a validating property setter is followed from the constructor; inputs of a slot '
           'memo that sit behind a setter must be dropped by it.',
    'C12': ' Rounds 4-5: stamps built as midnight-of-the-day + timedelta, combine(date, time), memoised stamps (key must identify year and day), schedules as data; a guard '
           'on the ordering of the bounds computed from their distance (whole days, seconds) is decided at fractions of a day; "one convention refused, the other accepted" '
           'only when uniform within each convention.',
    'C13': ' Rounds 4-5: weekly instants by interval arithmetic over the path\'s own tests; process-wide schedule memos must be keyed by every field the schedule is '
           'built from (C18.shared); frequencies dispatched through enums (aliases: equal values make one member), registries and match statements are read.',
    'C14': ' Rounds 4-5: the equity point and the event-loop table are read off run() with its private steps followed, whatever they are called; cursors over the schedule '
           'are undecided; method pull-ups into the broker base class keep their identity.',
    'C15': ' Rounds 4-5: the clock rule (an accepted cash movement or fill moves the portfolio clock to its own time); wrappers that cannot be called by keyword are not '
           'paths; known findings are matched by rule, entry and refusing site.',
    'C16': ' Rounds 4-5: the event-loop table evaluates enum-driven predicates (any(...) over the members written out test by test); tables shared through a class body, '
           'any()/all() over a generator of effectful calls, and a cached copy left behind by an in-place change of its source are reported; membership by bisect_left is '
           'exclusive at the entry instant (reported).',
    'C17': ' Rounds 4-5: label-only operations (.rename, .copy) are read through; an under-water indicator taken with isclose is reported.',
    'C18': ' Rounds 4-5: memoisation by decorators of the package (closure tables) is judged like lru_cache plus "the key must tell instances apart"; process-wide memo '
           'tables are judged field by field; keys that mention an argument only through a many-to-one computation are undecided (bisect boundaries against an inclusive '
           'filter are reported); cursors that re-seed from the question are undecided; loops over a set that only file entries under the loop key are order-free; a '
           'set iterated in a new function while the tabled iteration is gone is undecided.',
    'C19': ' Rounds 4-5: every comprehension path of get_assets is judged; the equal-weight rule ignores the path of an optimiser built without a scale (scale is None); '
           'class-level literals never assigned in the class family are read off self.',
}
ADDENDA7 = {
    'C15': ' Round 7: S4 - a field with a checked (refusing) one-argument setter is stored elsewhere only after the same value went through that setter on the path '
           '(instance: Position._check_set_dt); UNDECIDED if no such setter exists.',
}
ROUND7_COMMON = (' Round 7: the hygiene scan every check runs over its modules also reports a kept cursor caught up by one conditional step or walked forward only under an '
                 'unbounded question, two positional arguments each bound to the other\'s parameter, a remembered answer reused under a key that runs over a mapping\'s keys '
                 '(or takes a collection\'s length) while the answer depends on its values, and a table entry chosen by a test on something its key leaves out; kept state that is '
                 'compared with the question before use is UNDECIDED, not a violation (DESIGN 9.1-31, 10.13).')
for _pid, _m in PROPS.items():
    _m['explanation'] = _m['explanation'] + ADDENDA.get(_pid, '') + ADDENDA45.get(_pid, '') + ADDENDA7.get(_pid, '') + ROUND7_COMMON + COMMON_ADDENDUM
