"""Per-property metadata used by the runner (level, explanation, trusted base)."""
TB = [
    'Python semantics of the constructs used (stable sorted, insertion-ordered dict, FIFO queue.Queue)',
    'documented contracts of pandas/numpy calls whose arguments are checked',
    'no monkey-patching or reflection in the package (checked by a zero-instance rule on every run)',
    'only code under /repo/qstrader is analysed; user strategies are out of reach',
    'the specification tables in qsverif/rules are written by hand from the property text',
    'object-insensitive fields: two objects of one class share one abstract field',
]
PROPS = {}


def P(pid, level, explanation):
    PROPS[pid] = {'level': level, 'explanation': explanation, 'trusted_base': TB}

P('C01', 'other',
  'Static rules over the resolved program (ast + per-path symbolic summaries with canonical arithmetic). Decided: S1 who-may-write '
  'Portfolio.cash / SimulatedBroker.cash_balances (package-wide, aliases and getter hand-outs included) and which public entry points move '
  'cash; S2 on every normal path each movement writes the balance exactly once by the canonical delta (+amount, -amount, '
  '-(price*quantity+commission)); S3 portfolio transfers are zero-sum and pass the amount unmodified; S4 one Transaction and one debit per '
  'fill, commission = the unmodified fee-model result; S5 history is append-only and every movement appends exactly one event whose '
  'amount/balance are round(.,2) of the true values; S6 account aggregates resolve, iterate all portfolios and sum from zero. Not decided: '
  'floating-point exactness of running sums.')

P('C15', 'proof',
  'All-paths static argument over per-path summaries with every repo callee inlined (no sampling). S1 R-VBM: for every public entry '
  'point of SimulatedBroker and Portfolio and every explicit raise reachable from it, no write to protected state (cash balances, '
  'holdings = positions table and quantity/cost/commission accumulators, pending-order queues, portfolio table, history) precedes the '
  'raise on any path; loop iterations are accounted for (a raise in iteration k follows the writes of earlier iterations). S2 decision '
  'tables: for every tabled invalid request class (negative amount, insufficient cash, unknown/duplicate portfolio, unsupported currency, '
  'order for an unknown portfolio, timestamp earlier than the clock, negative price mark) every admitted path ends in the documented '
  'exception class - no silent acceptance. S3 the refusing guard runs before any protected write. Clocks and price marks are outside the '
  'property\'s enumerated state and are not protected. Only explicit raise statements count as refusals.')

LEVEL_NOTE = ('Trusted: Python semantics of the constructs used; pandas/numpy contracts of calls whose arguments are checked; absence of '
              'reflection (checked); hand-written specification tables; only explicit raise statements are refusals; object-insensitive fields. '
              'The check decides the structural clauses named in the level text, not floating-point behaviour.')
TECHNIQUE = {
    'C01': 'static analysis: who-may-write ownership scan + per-path symbolic summaries with canonical arithmetic deltas',
    'C15': 'static analysis: path-sensitive validation-before-mutation (dirty raise) analysis + decision tables over guard orderings',
}
NOT_APPLICABLE = {}
