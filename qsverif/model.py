"""Resolved program model of the qstrader package, built from source text only (ast).

Nothing from /repo is imported or executed.  The model is built from a
``{relative path: source}`` dict so that self-test variants live in memory.

Layers of receiver typing (DESIGN 3.1): (1) constructor wiring, (2) numpydoc
declared parameter types, (3) class-hierarchy analysis by method name.
"""
import ast
import collections
import os
import re

PKG = 'qstrader'


def load_sources(root):
    """Read every .py file under <root>/qstrader into {relpath: source}."""
    out = {}
    base = os.path.join(root, PKG)
    for dp, dn, fn in os.walk(base):
        dn.sort()
        for f in sorted(fn):
            if f.endswith('.py'):
                p = os.path.join(dp, f)
                with open(p, encoding='utf-8') as fh:
                    out[os.path.relpath(p, root)] = fh.read()
    return out


def deco_names(node):
    out = set()
    for d in node.decorator_list:
        if isinstance(d, ast.Call):
            d = d.func
        out.add(ast.unparse(d))
    return out


class Func:
    def __init__(self, qn, node, mod, path, cls=None, parent=None):
        self.qn, self.node, self.mod, self.path, self.cls, self.parent = qn, node, mod, path, cls, parent
        self.name = node.name
        d = deco_names(node)
        self.decorators = d
        # (functools.cached_property reads like a property; that what it keeps is dropped when its inputs change is the stale-value rules' concern)
        self.is_property = 'property' in d or any(x.split('.')[-1] == 'cached_property' for x in d)
        self.is_static = 'staticmethod' in d
        self.is_classmethod = 'classmethod' in d
        self.is_abstract = 'abstractmethod' in d
        self.is_cached = any('lru_cache' in x or x.endswith('cache') for x in d)

    def __repr__(self):
        return 'Func(%s)' % self.qn

    @property
    def params(self):
        a = self.node.args
        return [x.arg for x in a.posonlyargs + a.args + a.kwonlyargs]

    @property
    def pos_params(self):
        a = self.node.args
        return [x.arg for x in a.posonlyargs + a.args]

    def defaults(self):
        """param -> default AST"""
        a = self.node.args
        pos = a.posonlyargs + a.args
        out = {}
        for p, d in zip(pos[len(pos) - len(a.defaults):], a.defaults):
            out[p.arg] = d
        for p, d in zip(a.kwonlyargs, a.kw_defaults):
            if d is not None:
                out[p.arg] = d
        return out

    def body(self):
        b = self.node.body
        if b and isinstance(b[0], ast.Expr) and isinstance(b[0].value, ast.Constant) and isinstance(b[0].value.value, str):
            return b[1:]
        return b

    def site(self, node=None):
        return '%s:%d' % (self.path, (node or self.node).lineno)


class Cls:
    def __init__(self, qn, node, mod, path):
        self.qn, self.node, self.mod, self.path = qn, node, mod, path
        self.name = node.name
        self.methods = {}
        self.bases = []
        self.base_names = []
        self.field_types = collections.defaultdict(set)
        self.elem_types = collections.defaultdict(set)
        self.class_attrs = {}

    def mro(self):
        out, seen = [], set()

        def rec(c):
            if c.qn in seen:
                return
            seen.add(c.qn)
            out.append(c)
            for b in c.bases:
                rec(b)
        rec(self)
        return out

    def lookup(self, name):
        for c in self.mro():
            if name in c.methods:
                return c.methods[name]
        return None

    def is_abstract(self):
        return any(m.is_abstract for m in self.methods.values())

    def __repr__(self):
        return 'Cls(%s)' % self.name


# Six-line override table (DESIGN 3.1): receivers that neither wiring nor docstrings type.
TYPE_OVERRIDES = {
    # (class, field) -> type names; one reason per line
    ('BacktestDataHandler', 'data_sources[]'): {'CSVDailyBarDataSource'},   # only data source class in the package
    ('SignalsCollection', 'signals[]'): {'Signal'},                         # dict of Signal objects supplied by the user
    ('SignalsCollection', 'data_handler'): {'BacktestDataHandler'},         # only data handler class in the package
    ('PortfolioConstructionModel', 'alpha_model'): {'AlphaModel'},          # user-supplied alpha model
    ('BacktestTradingSession', 'signals'): {'SignalsCollection'},           # documented type of the signals argument
    ('BacktestTradingSession', 'data_handler'): {'BacktestDataHandler'},    # _create_data_handler returns it or the user's equivalent
}

# Declared base-type spellings in numpydoc that name a class of the package.
DOC_ALIASES = {'DataHandler': 'BacktestDataHandler', 'Broker': 'SimulatedBroker', 'Exchange': 'SimulatedExchange'}


CONTAINER_METHODS = {'update', 'append', 'extend', 'get', 'pop', 'items', 'keys', 'values', 'add', 'remove', 'clear', 'copy', 'sort', 'index', 'count',
                     'put', 'insert', 'setdefault', 'discard', 'popitem', 'join', 'split', 'format', 'replace', 'strip', 'upper', 'lower', 'empty', 'qsize',
                     'get_nowait', 'put_nowait', 'union', 'difference', 'intersection', 'reverse', 'sum', 'mean', 'std', 'max', 'min', 'date', 'time'}


class Model:
    def __init__(self, sources):
        self.sources = sources
        self.mods = {}
        self.classes = {}
        self.cls_by_name = collections.defaultdict(list)
        self.funcs = {}
        self.imports = {}
        self.mod_globals = collections.defaultdict(dict)   # mod -> name -> value AST
        self._load()
        self._link()
        self._alias_decorators()
        self._env_cache = {}
        self._rt_cache = {}
        self._infer_fields()

    # ------------------------------------------------------------------ loading
    def _load(self):
        for rel in sorted(self.sources):
            src = self.sources[rel]
            modname = rel[:-3].replace('/', '.')
            if modname.endswith('.__init__'):
                modname = modname[:-9]
            tree = ast.parse(src, filename=rel)
            self.mods[modname] = (rel, tree)
            imp = {}
            for st in ast.walk(tree):
                if isinstance(st, ast.Import):
                    for a in st.names:
                        if a.asname:
                            imp[a.asname] = a.name
                        else:
                            imp[a.name.split('.')[0]] = a.name.split('.')[0]
                elif isinstance(st, ast.ImportFrom) and st.module:
                    for a in st.names:
                        imp[a.asname or a.name] = '%s.%s' % (st.module, a.name)
            self.imports[modname] = imp
            for st in tree.body:
                if isinstance(st, ast.ClassDef):
                    c = Cls('%s.%s' % (modname, st.name), st, modname, rel)
                    self.classes[c.qn] = c
                    self.cls_by_name[st.name].append(c)
                    for m in st.body:
                        if isinstance(m, ast.FunctionDef):
                            acc = [d_.attr for d_ in m.decorator_list if isinstance(d_, ast.Attribute) and d_.attr in ('setter', 'deleter')]
                            if acc:
                                # @name.setter / @name.deleter: a separate function that does not replace the property's getter under its name
                                f = Func('%s.%s@%s' % (st.name, m.name, acc[0]), m, modname, rel, cls=c)
                                c.methods['%s@%s' % (m.name, acc[0])] = f
                            else:
                                f = Func('%s.%s' % (st.name, m.name), m, modname, rel, cls=c)
                                c.methods[m.name] = f
                            self.funcs[f.qn] = f
                            self._nested(f)
                        elif isinstance(m, ast.Assign) and len(m.targets) == 1 and isinstance(m.targets[0], ast.Name):
                            c.class_attrs[m.targets[0].id] = m.value
                elif isinstance(st, ast.FunctionDef):
                    f = Func('%s.%s' % (modname, st.name), st, modname, rel)
                    self.funcs[f.qn] = f
                    self._nested(f)
                elif isinstance(st, ast.Assign):
                    for t in st.targets:
                        if isinstance(t, ast.Name):
                            self.mod_globals[modname][t.id] = st.value
                        elif isinstance(t, ast.Tuple):
                            for e in t.elts:
                                if isinstance(e, ast.Name):
                                    self.mod_globals[modname][e.id] = st.value

    def _nested(self, f):
        f.nested = {}
        for st in ast.walk(f.node):
            if isinstance(st, ast.FunctionDef) and st is not f.node:
                g = Func('%s.<locals>.%s' % (f.qn, st.name), st, f.mod, f.path, cls=None, parent=f)
                g.nested = {}
                f.nested[st.name] = g

    def _alias_decorators(self):
        """NAME = functools.lru_cache(...) at module level, then @NAME: the function is memoised just the same"""
        for fn in self.all_funcs():
            for d in fn.node.decorator_list:
                head = d.func if isinstance(d, ast.Call) else d
                if isinstance(head, ast.Name):
                    gv = self.global_value(fn.mod, head.id)
                    if gv is not None and any(k in ast.unparse(gv[1]) for k in ('lru_cache', 'functools.cache')):
                        fn.is_cached = True
                        fn.decorators = set(fn.decorators) | {'functools.lru_cache'}

    def _link(self):
        for c in self.classes.values():
            for b in c.node.bases:
                c.base_names.append(ast.unparse(b))
                if isinstance(b, ast.Name):
                    t = self.resolve_name(c.mod, b.id)
                    if isinstance(t, Cls):
                        c.bases.append(t)

    def resolve_name(self, mod, name):
        """Bare name in module scope -> Cls / Func / 'mod:<dotted>' / 'ext:<dotted>' / None."""
        q = '%s.%s' % (mod, name)
        if q in self.classes:
            return self.classes[q]
        if q in self.funcs:
            return self.funcs[q]
        tgt = self.imports.get(mod, {}).get(name)
        if tgt:
            if tgt in self.classes:
                return self.classes[tgt]
            if tgt in self.funcs:
                return self.funcs[tgt]
            if tgt in self.mods:
                return 'mod:' + tgt
            return 'ext:' + tgt
        return None

    def global_value(self, mod, name):
        """module-level assignment visible under `name` in `mod` (own global or `from m import name`): -> (defining module, value AST) or None"""
        g = self.mod_globals.get(mod, {}).get(name)
        if g is not None:
            return mod, g
        tgt = self.imports.get(mod, {}).get(name)
        if tgt and '.' in tgt:
            m2, n2 = tgt.rsplit('.', 1)
            if m2 in self.mods and n2 in self.mod_globals.get(m2, {}):
                return m2, self.mod_globals[m2][n2]
        return None

    def global_is_mutated(self, mod, name):
        """some function of the package changes the module-level container `name` of `mod` in place (element store/delete, mutator call) or rebinds it (`global`):
        its content at run time is not what the module body wrote"""
        cache = self.__dict__.setdefault('_glob_mut_cache', {})
        key = (mod, name)
        if key in cache:
            return cache[key]
        MUT = {'append', 'extend', 'insert', 'pop', 'remove', 'clear', 'update', 'setdefault', 'add', 'discard', 'popitem', 'sort', 'reverse', 'appendleft', 'popleft', '__setitem__'}
        hit = False
        for fn in self.all_funcs():
            if hit:
                break
            # the name as this function sees it
            if fn.mod == mod:
                local = name
            else:
                local = next((k_ for k_, v_ in self.imports.get(fn.mod, {}).items() if v_ == mod + '.' + name), None)
            if local is None or local in fn.params:
                continue
            declared = any(isinstance(n, ast.Global) and local in n.names for n in ast.walk(fn.node))
            rebinds_local = any(isinstance(n, ast.Name) and n.id == local and isinstance(n.ctx, ast.Store) for n in ast.walk(fn.node))
            if rebinds_local and not declared:
                continue            # a local of the same name
            if rebinds_local and declared:
                hit = True
                break
            for n in ast.walk(fn.node):
                if isinstance(n, ast.Subscript) and isinstance(n.ctx, (ast.Store, ast.Del)):
                    b = n
                    while isinstance(b, ast.Subscript):
                        b = b.value
                    if isinstance(b, ast.Name) and b.id == local:
                        hit = True
                        break
                if isinstance(n, ast.Call) and isinstance(n.func, ast.Attribute) and n.func.attr in MUT:
                    b = n.func.value
                    while isinstance(b, ast.Subscript):
                        b = b.value
                    if isinstance(b, ast.Name) and b.id == local:
                        hit = True
                        break
        cache[key] = hit
        return hit

    def module_func(self, mod):
        """pseudo-function standing for the module body (evaluation context of module-level expressions)"""
        if not hasattr(self, '_modfuncs'):
            self._modfuncs = {}
        if mod not in self._modfuncs:
            node = ast.parse('def _module_(): pass').body[0]
            f = Func(mod + '.<module>', node, mod, self.mods[mod][0] if mod in self.mods else mod)
            f.nested = {}
            self._modfuncs[mod] = f
        return self._modfuncs[mod]

    def owner_family(self, cname):
        """names of the classes that make up the component <cname>: the class, its bases, and the private helper classes (_Name) of its module - an object
        the component keeps its state in is part of the component"""
        c = self.cls(cname)
        if c is None:
            return {cname}
        out = {k.name for k in c.mro()}
        for k in self.classes.values():
            if k.mod == c.mod and k.name.startswith('_'):
                out.add(k.name)
        return out

    def projections(self):
        """Logical fields kept under another name or inside a sub-object: for a property whose getter is `return self.<f1>[.<f2>...]` the stored location IS the
        property.  -> {(f1, ..., fk): (class name, property name)} for chains that one property only projects.  (A class may move `buy_quantity` into
        `self._bought.quantity` and keep the name alive as a property: analyses keep talking about buy_quantity.)"""
        if getattr(self, '_proj', None) is not None:
            return self._proj
        found = {}
        for c in self.classes.values():
            for n in c.node.body:
                if not (isinstance(n, ast.FunctionDef) and any(isinstance(d, ast.Name) and d.id == 'property' for d in n.decorator_list)):
                    continue
                body = [s for s in n.body if not (isinstance(s, ast.Expr) and isinstance(s.value, ast.Constant))]
                if len(body) != 1 or not isinstance(body[0], ast.Return) or body[0].value is None:
                    continue
                e, chain = body[0].value, []
                while isinstance(e, ast.Attribute):
                    chain.append(e.attr)
                    e = e.value
                if not (isinstance(e, ast.Name) and e.id == 'self' and chain):
                    continue
                chain = tuple(reversed(chain))
                if len(chain) == 1 and not (chain[0].startswith('_') and chain[0].lstrip('_') == n.name):
                    continue            # a one-step alias is taken only in the conventional form  name -> _name
                found.setdefault(chain, []).append((c.name, n.name))
        self._proj = {k: v[0] for k, v in found.items() if len(v) == 1}
        return self._proj

    def ctor_only(self, m, depth=0):
        """a private helper all of whose call sites are in the constructor of its class (or in such helpers)"""
        if depth > 4 or not m.name.startswith('_'):
            return False
        sites = self.call_sites(m.qn)
        if not sites:
            return False
        for fn, n in sites:
            if fn.cls is not m.cls:
                return False
            if fn.name != '__init__' and not self.ctor_only(fn, depth + 1):
                return False
        return True

    def method_aliases(self):
        """{'Sub.m': qualified name of the definition of m that Sub inherits} for every class and every method it does not define itself"""
        if getattr(self, '_maliases', None) is not None:
            return self._maliases
        out = {}
        for c in self.classes.values():
            for k in c.mro()[1:]:
                for n, m in k.methods.items():
                    q = '%s.%s' % (c.name, n)
                    if n not in c.methods and q not in out and q not in self.funcs:
                        out[q] = m.qn
        self._maliases = out
        return out

    def new_definitions(self):
        """{module path: names of classes and functions defined there that the pinned tree did not define in that module} - what a change introduced"""
        if getattr(self, '_new_defs', None) is not None:
            return self._new_defs
        base = _baseline().get('modules') or {}
        out = {}
        for mod, (rel, tree) in self.mods.items():
            have = {n.name for n in ast.walk(tree) if isinstance(n, (ast.FunctionDef, ast.ClassDef))}
            new = have - set(base.get(rel, have if rel not in base and not base else ()))
            if new:
                out[rel] = new
        self._new_defs = out
        return out

    def new_private_storage(self):
        """names of private fields (self._x) this tree stores that the pinned tree did not have in that class - or anywhere, for classes new to the tree: the
        representation a change introduced.  The conventional backing field of a property (name -> _name) is excluded: analyses read those through."""
        if getattr(self, '_new_storage', None) is not None:
            return self._new_storage
        base = _baseline().get('fields')
        out = set()
        if base:
            everywhere = {f_ for fs in base.values() for f_ in fs}
            for c in self.classes.values():
                known = set(base.get(c.qn, ())) if c.qn in base else None
                for n in ast.walk(c.node):
                    if isinstance(n, ast.Attribute) and isinstance(n.ctx, ast.Store) and isinstance(n.value, ast.Name) and n.value.id == 'self' and n.attr.startswith('_') \
                            and not n.attr.startswith('__'):
                        if n.attr in everywhere or (known is not None and n.attr in known):
                            continue
                        if (n.attr,) in self.projections():
                            continue        # read through as the property it backs (a getter that only returns it)
                        out.add(n.attr)
        self._new_storage = out
        return out

    def class_constant(self, cls, attr):
        """(defining class, expression) when `attr` is set in the class body of cls (or the nearest base that has it), is not a method, and NO statement of the
        package stores to an attribute of that name (so that reading it off an instance finds the class-level value); else None"""
        stored = getattr(self, '_stored_attr_names', None)
        if stored is None:
            stored = {}         # attribute name -> classes whose methods store it on self; None in the set: stored on some other object (of any class)
            for fn in list(self.all_funcs()) + [self.module_func(m_) for m_ in self.mods]:
                if fn is None:
                    continue
                host = fn
                while getattr(host, 'parent', None) is not None:
                    host = host.parent
                for n in ast.walk(fn.node):
                    if isinstance(n, ast.Attribute) and isinstance(n.ctx, (ast.Store, ast.Del)):
                        on_self = isinstance(n.value, ast.Name) and n.value.id == 'self' and host.cls is not None and not host.is_static
                        stored.setdefault(n.attr, set()).add(host.cls.name if on_self else None)
                    elif isinstance(n, ast.Call) and isinstance(n.func, ast.Name) and n.func.id == 'setattr' and len(n.args) >= 2:
                        stored.setdefault(n.args[1].value if isinstance(n.args[1], ast.Constant) else '*', set()).add(None)
            self._stored_attr_names = stored
        if '*' in stored:
            return None
        if attr in stored:
            # an instance of cls is one of cls, of a base (never: it IS a cls) or of a subclass: what sibling classes store on THEIR instances does not reach it
            family = {k.name for k in cls.mro()} | {d.name for d in self.subclasses(cls)}
            if None in stored[attr] or stored[attr] & family:
                return None
        for k in cls.mro():
            if attr in k.class_attrs:
                return (k, k.class_attrs[attr]) if k.lookup(attr) is None or attr not in k.methods else None
            if attr in k.methods:
                return None
        return None

    def field_written_outside_init(self, cls, field):
        """some statement of the package other than <cls>.__init__ (and helpers only it calls) assigns, deletes or mutates in place an attribute named `field`"""
        MUT = {'append', 'extend', 'insert', 'pop', 'remove', 'clear', 'update', 'setdefault', 'add', 'discard', 'popitem', 'sort', 'reverse', 'appendleft', 'popleft'}
        # construction = the constructors of the class family plus the private helpers that only they (transitively) call
        ctor = {fn.qn for fn in self.all_funcs() if fn.name == '__init__' and fn.cls is not None and cls in fn.cls.mro() + [d for d in self.subclasses(fn.cls)]}
        changed = True
        while changed:
            changed = False
            for fn in self.funcs.values():
                if fn.qn in ctor or not fn.name.startswith('_') or fn.name.startswith('__'):
                    continue
                sites = [c for c, n in self.call_sites(fn.qn) if isinstance(n, ast.Call)]
                if sites and all(c.qn in ctor for c in sites):
                    ctor.add(fn.qn)
                    changed = True
        for fn in self.all_funcs():
            if fn.qn in ctor or (getattr(fn, 'parent', None) is not None and fn.parent.qn in ctor):
                continue
            for n in ast.walk(fn.node):
                tg = []
                if isinstance(n, ast.Assign):
                    tg = n.targets
                elif isinstance(n, (ast.AugAssign, ast.AnnAssign)):
                    tg = [n.target]
                elif isinstance(n, ast.Delete):
                    tg = n.targets
                for t in tg:
                    b = t
                    while isinstance(b, ast.Subscript):
                        b = b.value
                    if isinstance(b, ast.Attribute) and b.attr == field:
                        return True
                if isinstance(n, ast.Call) and isinstance(n.func, ast.Attribute) and n.func.attr in MUT:
                    b = n.func.value
                    while isinstance(b, ast.Subscript):
                        b = b.value
                    if isinstance(b, ast.Attribute) and b.attr == field:
                        return True
        return False

    def record_fields(self, c, known_value_class=False):
        """ordered (field, default AST or None) of a class that is pure data and NEW relative to the pinned tree: a @dataclass / typing.NamedTuple
        (fields = annotated class attributes), else None.  Classes of the pinned tree keep their tabled treatment."""
        if c.qn in _baseline().get('classes', {}) and not known_value_class:
            return None
        decos = [ast.unparse(d.func if isinstance(d, ast.Call) else d) for d in c.node.decorator_list]
        is_dc = any(d.split('.')[-1] == 'dataclass' for d in decos)
        is_nt = any(b.split('.')[-1] == 'NamedTuple' for b in c.base_names)
        if not (is_dc or is_nt) or c.lookup('__init__') is not None or c.lookup('__post_init__') is not None:
            return None
        out = []
        for k in reversed(c.mro()):
            for st in k.node.body:
                if isinstance(st, ast.AnnAssign) and isinstance(st.target, ast.Name) and 'ClassVar' not in ast.unparse(st.annotation):
                    out = [x for x in out if x[0] != st.target.id] + [(st.target.id, st.value)]
        return out

    def is_record_init(self, c):
        """a NEW class whose __init__ only stores expressions of its parameters in fields (a hand-written record)"""
        if c.qn in _baseline().get('classes', {}):
            return False
        init = c.lookup('__init__')
        if init is None or init.cls is not c:
            return False
        for st in init.body():
            if not (isinstance(st, ast.Assign) and len(st.targets) == 1 and isinstance(st.targets[0], ast.Attribute)
                    and isinstance(st.targets[0].value, ast.Name) and st.targets[0].value.id == 'self'):
                return False
            if any(isinstance(n, (ast.Call, ast.Yield, ast.Await, ast.Lambda)) for n in ast.walk(st.value)):
                return False
        return True

    def ext_name(self, mod, expr):
        """Dotted external name of an expression such as np.floor / floor / pd.Timedelta, else None."""
        parts = []
        e = expr
        while isinstance(e, ast.Attribute):
            parts.append(e.attr)
            e = e.value
        if not isinstance(e, ast.Name):
            return None
        t = self.resolve_name(mod, e.id)
        if isinstance(t, str) and t.startswith('ext:'):
            return '.'.join([t[4:]] + list(reversed(parts)))
        if t is None and not parts:
            return 'builtins.' + e.id
        return None

    def cls(self, name):
        cs = self.cls_by_name.get(name, [])
        return cs[0] if cs else None

    def subclasses(self, c):
        return [d for d in self.classes.values() if c in d.mro()]

    # -------------------------------------------------- type inference (layer 1)
    def expr_types(self, fn, e, env):
        if isinstance(e, ast.Call) and e.args and self.ext_name(fn.mod, e.func) in ('dataclasses.replace', 'copy.copy', 'copy.deepcopy'):
            return self.expr_types(fn, e.args[0], env)          # an object of the same class as the one copied
        if isinstance(e, ast.Call):
            f = e.func
            if isinstance(f, ast.Name):
                t = self.resolve_name(fn.mod, f.id)
                if isinstance(t, Cls):
                    return {t.name}
                if isinstance(t, Func):
                    return set(self.return_types(t))
                if isinstance(t, str) and t.startswith('ext:'):
                    return {t + '()'}
                if f.id == 'cls' and fn.cls:
                    return {fn.cls.name}
                if f.id in ('dict', 'list', 'set', 'sorted', 'tuple'):
                    return {'builtin:' + f.id}
                if f.id in env:     # callable object held in a local
                    out = set()
                    for rt in env[f.id]:
                        for c in self.concrete(rt):
                            m = c.lookup('__call__')
                            if m:
                                out |= self.return_types(m)
                    return out
                return set()
            if isinstance(f, ast.Attribute):
                out = set()
                if isinstance(f.value, ast.Name) and f.value.id not in env and f.value.id != 'self':
                    t = self.resolve_name(fn.mod, f.value.id)
                    if isinstance(t, Cls):
                        m = t.lookup(f.attr)
                        if m:
                            out |= self.return_types(m, cls_hint=t)
                        return out
                    if isinstance(t, str):
                        if t.startswith('mod:'):
                            q = t[4:] + '.' + f.attr
                            if q in self.funcs:
                                return set(self.return_types(self.funcs[q]))
                        return {'%s.%s()' % (t, f.attr)}
                rts = self.expr_types(fn, f.value, env)
                for rt in rts:
                    for c in self.concrete(rt):
                        m = c.lookup(f.attr)
                        if m and not m.is_abstract:
                            out |= self.return_types(m)
                    if rt == 'builtin:dict' and f.attr in ('values', 'keys', 'items'):
                        pass
                if f.attr in ('get', 'pop', 'setdefault') and isinstance(f.value, ast.Attribute):
                    for bt in self.expr_types(fn, f.value.value, env):
                        for c in self.cls_by_name.get(bt, []):
                            for k in c.mro():
                                out |= self.elem_of(k, f.value.attr)
                if f.attr in ('get', 'pop', 'setdefault') and isinstance(f.value, ast.Name):
                    out |= set(env.get('@elems:' + f.value.id, ()))
                # dict.values()/items() of a typed container field
                if f.attr in ('values',) and isinstance(f.value, ast.Name):
                    out |= {'iter:' + x for x in env.get('@elems:' + f.value.id, ())}
                if f.attr in ('values',) and isinstance(f.value, ast.Attribute):
                    for bt in self.expr_types(fn, f.value.value, env):
                        for c in self.cls_by_name.get(bt, []):
                            for k in c.mro():
                                ets = self.elem_of(k, f.value.attr)
                                if ets:
                                    out |= {'iter:' + x for x in ets}
                return out
            # callable object: self.x(...)
            out = set()
            for rt in self.expr_types(fn, f, env):
                for c in self.concrete(rt):
                    m = c.lookup('__call__')
                    if m and not m.is_abstract:
                        out |= self.return_types(m)
            return out
        if isinstance(e, ast.Name):
            if e.id == 'self' and fn.cls:
                return {fn.cls.name}
            if e.id in env:
                return set(env[e.id])
            if e.id in fn.params:
                return self.param_types(fn, e.id)
            return set()
        if isinstance(e, ast.Attribute):
            out = set()
            for rt in self.expr_types(fn, e.value, env):
                for c in self.cls_by_name.get(rt, []):
                    for k in c.mro():
                        out |= self.field_of(k, e.attr)
                    m = c.lookup(e.attr)
                    if m and m.is_property:
                        out |= self.return_types(m)
            if not out and isinstance(e.value, ast.Name) and e.value.id == 'self' and fn.cls is not None:
                # a method of a base class runs on instances of its subclasses: a field the base never assigns is typed by what the subclasses store there
                for d in self.subclasses(fn.cls):
                    if d is not fn.cls:
                        for k in d.mro():
                            out |= self.field_of(k, e.attr)
            if isinstance(e.value, ast.Name) and e.value.id == 'self' and fn.cls is not None and '_' in e.attr and not any(self.concrete(t_) for t_ in out) \
                    and not any(t_.startswith(('ext:', 'builtin:')) for t_ in out):
                # last resort, for call resolution only: a field nothing types (its value comes out of a factory table, a partial, ...) that is named after an
                # abstract base of the package (order_sizer -> OrderSizer, fee_model -> FeeModel) holds one of that base's implementations
                cname = ''.join(part[:1].upper() + part[1:] for part in e.attr.strip('_').split('_'))
                c = self.cls(cname) if cname else None
                if c is not None and len(self.subclasses(c)) > 1:
                    out.add(c.name)
            return out
        if isinstance(e, ast.Subscript):
            out = set()
            if isinstance(e.value, ast.Name):
                out |= set(env.get('@elems:' + e.value.id, ()))
            if isinstance(e.value, ast.Attribute):
                for rt in self.expr_types(fn, e.value.value, env):
                    for c in self.cls_by_name.get(rt, []):
                        for k in c.mro():
                            out |= self.elem_of(k, e.value.attr)
            return out
        if isinstance(e, ast.Dict):
            return {'builtin:dict'}
        if isinstance(e, (ast.List, ast.ListComp)):
            return {'builtin:list'}
        if isinstance(e, ast.IfExp):
            return self.expr_types(fn, e.body, env) | self.expr_types(fn, e.orelse, env)
        return set()

    def field_of(self, k, attr):
        out = set(k.field_types.get(attr, set()))
        out |= TYPE_OVERRIDES.get((k.name, attr), set())
        return out

    def elem_of(self, k, attr):
        out = set(k.elem_types.get(attr, set()))
        out |= TYPE_OVERRIDES.get((k.name, attr + '[]'), set())
        return out

    def param_types(self, fn, p):
        out = {'param:%s:%s' % (fn.qn, p)}
        # layer 2: numpydoc declared type on the function or its class
        for doc in (ast.get_docstring(fn.node) or '', ast.get_docstring(fn.cls.node) if fn.cls else ''):
            for m in re.finditer(r'^\s*%s\s*[:;]\s*`([^`]+)`' % re.escape(p), doc or '', re.M):
                tn = m.group(1).strip().split(',')[0].strip()
                tn = DOC_ALIASES.get(tn, tn)
                if tn in self.cls_by_name:
                    out.add(tn)
        return out

    def return_types(self, m, cls_hint=None):
        key = (m.qn, cls_hint.name if cls_hint else None)
        if key in self._rt_cache:
            return self._rt_cache[key]
        self._rt_cache[key] = set()
        out = set()
        env = self.local_env(m)
        for n in ast.walk(m.node):
            if isinstance(n, ast.Return) and n.value is not None:
                v = n.value
                if isinstance(v, ast.Call) and isinstance(v.func, ast.Name) and v.func.id == 'cls' and m.cls:
                    out.add((cls_hint or m.cls).name)
                else:
                    out |= self.expr_types(m, v, env)
        self._rt_cache[key] = out
        return out

    def local_env(self, fn):
        if fn.qn in self._env_cache:
            return self._env_cache[fn.qn]
        env = collections.defaultdict(set)
        self._env_cache[fn.qn] = env
        for _ in range(3):
            for n in ast.walk(fn.node):
                if isinstance(n, ast.Assign) and len(n.targets) == 1 and isinstance(n.targets[0], ast.Name):
                    env[n.targets[0].id] |= self.expr_types(fn, n.value, env)
                    # local alias of a typed container field: remember its element types
                    if isinstance(n.value, ast.Attribute):
                        for bt in self.expr_types(fn, n.value.value, env):
                            for c in self.cls_by_name.get(bt, []):
                                for k in c.mro():
                                    env['@elems:' + n.targets[0].id] |= self.elem_of(k, n.value.attr)
                elif isinstance(n, (ast.For, ast.comprehension)):
                    ts = self.expr_types(fn, n.iter, env)
                    elem = {t[5:] for t in ts if t.startswith('iter:')}
                    # "for k in self.<dictfield>": keys are untyped; "for name, x in self.<f>.items()"
                    if isinstance(n.target, ast.Name) and elem:
                        env[n.target.id] |= elem
                    if isinstance(n.iter, ast.Call) and isinstance(n.iter.func, ast.Attribute) and n.iter.func.attr == 'items' \
                            and isinstance(n.target, ast.Tuple) and len(n.target.elts) == 2 and isinstance(n.target.elts[1], ast.Name) \
                            and isinstance(n.iter.func.value, ast.Attribute):
                        for bt in self.expr_types(fn, n.iter.func.value.value, env):
                            for c in self.cls_by_name.get(bt, []):
                                for k in c.mro():
                                    env[n.target.elts[1].id] |= self.elem_of(k, n.iter.func.value.attr)
                    if isinstance(n.iter, ast.Call) and isinstance(n.iter.func, ast.Attribute) and n.iter.func.attr == 'items' \
                            and isinstance(n.target, ast.Tuple) and len(n.target.elts) == 2 and isinstance(n.target.elts[1], ast.Name) \
                            and isinstance(n.iter.func.value, ast.Name):
                        env[n.target.elts[1].id] |= set(env.get('@elems:' + n.iter.func.value.id, ()))
                    if isinstance(n.target, ast.Name) and isinstance(n.iter, ast.Attribute):
                        for bt in self.expr_types(fn, n.iter.value, env):
                            for c in self.cls_by_name.get(bt, []):
                                for k in c.mro():
                                    if (k.name, n.iter.attr + '[]') in TYPE_OVERRIDES and 'builtin:list' in self.field_of(k, n.iter.attr) | {'builtin:list'}:
                                        # iterating a list-typed field: element types
                                        if n.iter.attr == 'data_sources':
                                            env[n.target.id] |= self.elem_of(k, n.iter.attr)
        return env

    def _infer_fields(self):
        for _ in range(6):
            self._rt_cache = {}
            self._env_cache = {}
            for fn in list(self.funcs.values()):
                if not fn.cls:
                    continue
                env = self.local_env(fn)
                for n in ast.walk(fn.node):
                    if isinstance(n, ast.Assign):
                        for t in n.targets:
                            if isinstance(t, ast.Attribute) and isinstance(t.value, ast.Name) and t.value.id == 'self':
                                fn.cls.field_types[t.attr] |= self.expr_types(fn, n.value, env)
                            if isinstance(t, ast.Subscript) and isinstance(t.value, ast.Attribute) \
                                    and isinstance(t.value.value, ast.Name) and t.value.value.id == 'self':
                                fn.cls.elem_types[t.value.attr] |= self.expr_types(fn, n.value, env)
            # annotated fields of record classes (portfolio: Portfolio in a dataclass / NamedTuple body): the annotation names the type
            for c in self.classes.values():
                for m in c.node.body:
                    if isinstance(m, ast.AnnAssign) and isinstance(m.target, ast.Name):
                        an = m.annotation
                        nm = an.id if isinstance(an, ast.Name) else (an.attr if isinstance(an, ast.Attribute) else (an.value if isinstance(an, ast.Constant) and isinstance(an.value, str) else None))
                        c.field_types[m.target.id] |= set()         # (a field of the class whatever its type: `commission: float = 0.0` is not somebody's property)
                        if nm and nm in self.cls_by_name:
                            c.field_types[m.target.id] |= {nm}
            self._propagate_params()
        self._rt_cache = {}
        self._env_cache = {}

    def _propagate_params(self):
        binds = collections.defaultdict(set)
        for fn in self.funcs.values():
            env = self.local_env(fn)
            for n in ast.walk(fn.node):
                if isinstance(n, ast.Call) and isinstance(n.func, ast.Name):
                    t = self.resolve_name(fn.mod, n.func.id)
                    if isinstance(t, Cls):
                        init = t.lookup('__init__')
                        if not init:
                            continue
                        ps = init.pos_params[1:]
                        for i, a in enumerate(n.args):
                            if i < len(ps):
                                binds[(init.qn, ps[i])] |= self.expr_types(fn, a, env)
                        for kw in n.keywords:
                            if kw.arg:
                                binds[(init.qn, kw.arg)] |= self.expr_types(fn, kw.value, env)
        # defaults contribute
        for fn in self.funcs.values():
            if fn.name == '__init__':
                for p, d in fn.defaults().items():
                    binds[(fn.qn, p)] |= self.expr_types(fn, d, {})
        for c in self.classes.values():
            for d in (c.field_types, c.elem_types):
                for f, ts in list(d.items()):
                    new = set()
                    for t in ts:
                        new.add(t)
                        if t.startswith('param:'):
                            _, qn, p = t.split(':')
                            new |= binds.get((qn, p), set())
                    d[f] = new

    # ------------------------------------------------------------ call resolution
    def concrete(self, tname):
        """type name -> candidate classes: the class and its subclasses in the package."""
        out = []
        for c in self.cls_by_name.get(tname, []):
            for d in self.subclasses(c):
                if d not in out:
                    out.append(d)
        return out

    def cha(self, name):
        """Layer 3: all non-abstract definitions of method `name` in the package."""
        return [c.methods[name] for c in self.classes.values() if name in c.methods and not c.methods[name].is_abstract]

    def resolve_call(self, fn, call, env=None):
        """-> (targets: list[Func], how: str, layer: int).  layer 1 = wiring/unique, 2 = declared, 3 = CHA."""
        env = env if env is not None else self.local_env(fn)
        f = call.func
        if isinstance(f, ast.Name):
            if fn.parent is not None or getattr(fn, 'nested', None):
                host = fn if f.id in getattr(fn, 'nested', {}) else fn.parent
                if host is not None and f.id in getattr(host, 'nested', {}):
                    return [host.nested[f.id]], 'nested', 1
            t = self.resolve_name(fn.mod, f.id)
            if isinstance(t, Cls):
                init = t.lookup('__init__')
                return ([init] if init else []), 'ctor:' + t.name, 1
            if isinstance(t, Func):
                return [t], 'func', 1
            if f.id == 'cls' and fn.cls:
                init = fn.cls.lookup('__init__')
                return ([init] if init else []), 'ctor:' + fn.cls.name, 1
            if f.id in env or f.id in fn.params:
                tg = self._callable_targets(fn, f, env)
                if tg:
                    return tg, 'callable-obj', 2
                return [], 'dynamic:' + f.id, 0
            if isinstance(t, str):
                return [], t, 0
            return [], 'builtin:' + f.id, 0
        if isinstance(f, ast.Attribute):
            if isinstance(f.value, ast.Call) and isinstance(f.value.func, ast.Name) and f.value.func.id == 'super' and fn.cls:
                for b in fn.cls.mro()[1:]:
                    if f.attr in b.methods:
                        return [b.methods[f.attr]], 'super', 1
                return [], 'ext:object.' + f.attr, 0
            if isinstance(f.value, ast.Name) and f.value.id == 'cls' and fn.is_classmethod and fn.cls is not None:
                m = fn.cls.lookup(f.attr)
                return ([m] if m else []), ('static' if m else 'unresolved-attr:' + f.attr), 1
            if isinstance(f.value, ast.Name) and f.value.id != 'self' and f.value.id not in env and f.value.id not in fn.params:
                t = self.resolve_name(fn.mod, f.value.id)
                if isinstance(t, Cls):
                    m = t.lookup(f.attr)
                    return ([m] if m else []), ('static' if m else 'unresolved-attr:' + f.attr), 1
                if isinstance(t, str) and t.startswith('mod:'):
                    q = t[4:] + '.' + f.attr
                    if q in self.funcs:
                        return [self.funcs[q]], 'modfunc', 1
                    return [], 'unresolved-attr:' + f.attr, 0
                if isinstance(t, str) and t.startswith('ext:'):
                    return [], 'ext:%s.%s' % (t[4:], f.attr), 0
            rts = self.expr_types(fn, f.value, env)
            targets, seen, repo_typed = [], set(), False
            class_attr_hit = False
            declared_only = True
            for rt in sorted(rts):
                cs = self.concrete(rt)
                if cs:
                    repo_typed = True
                for c in cs:
                    m = c.lookup(f.attr)
                    if m is None:
                        # NAME = functools.partialmethod(method, ...) / NAME = other_method in the class body
                        for k in c.mro():
                            pm = k.class_attrs.get(f.attr)
                            if pm is not None:
                                class_attr_hit = True
                                tgt = pm.args[0] if isinstance(pm, ast.Call) and pm.args and ast.unparse(pm.func).split('.')[-1] in ('partialmethod', 'partial') else pm
                                if isinstance(tgt, ast.Name):
                                    m = c.lookup(tgt.id)
                                break
                    if m and not m.is_abstract and m.qn not in seen:
                        seen.add(m.qn)
                        targets.append(m)
            if targets:
                return targets, 'typed', (1 if len(targets) == 1 else 2)
            if class_attr_hit:
                return [], 'class-attr:' + f.attr, 0
            if repo_typed:
                return [], 'unresolved-attr:%s on %s' % (f.attr, sorted(t for t in rts if self.concrete(t))), 0
            ext = sorted(t for t in rts if t.startswith(('ext:', 'builtin:')))
            if ext:
                return [], 'ext-typed:%s.%s' % (ext[0], f.attr), 0
            # layer 3
            ch = self.cha(f.attr) if f.attr not in CONTAINER_METHODS else []
            recv = f.value
            while isinstance(recv, ast.Subscript):
                recv = recv.value           # an element of a table held by self (self.portfolios[pid].method()): same rule as the field itself
            if ch and isinstance(recv, ast.Attribute) and isinstance(recv.value, ast.Name) and recv.value.id == 'self':
                return ch, 'cha', 3
            return [], 'untyped-attr:' + f.attr, 0
        tg = self._callable_targets(fn, f, env)
        if tg:
            return tg, 'callable-obj', 2
        return [], 'unresolved-expr', 0

    def _callable_targets(self, fn, fexpr, env):
        rts = self.expr_types(fn, fexpr, env)
        targets, seen = [], set()
        for rt in sorted(rts):
            for c in self.concrete(rt):
                m = c.lookup('__call__')
                if m and not m.is_abstract and m.qn not in seen:
                    seen.add(m.qn)
                    targets.append(m)
        return targets

    def resolve_any(self, fn, call, env=None):
        """resolve_call, falling back to callable-object resolution for self.x(...)."""
        tg, how, layer = self.resolve_call(fn, call, env)
        if not tg and isinstance(call.func, ast.Attribute) and how.startswith(('unresolved', 'untyped', 'ext-typed')):
            t2 = self._callable_targets(fn, call.func, env if env is not None else self.local_env(fn))
            if t2:
                return t2, 'callable-obj', 2
        return tg, how, layer

    def property_targets(self, fn, attr_node, env=None):
        """Attribute read that is a @property of a repo class -> list[Func]."""
        env = env if env is not None else self.local_env(fn)
        out, seen = [], set()
        rts = self.expr_types(fn, attr_node.value, env)
        for rt in sorted(rts):
            for c in self.concrete(rt):
                m = c.lookup(attr_node.attr)
                if m and m.is_property and m.qn not in seen:
                    seen.add(m.qn)
                    out.append(m)
        if not out and not any(self.concrete(rt) for rt in rts):
            # untyped receiver: a property name defined by exactly one class of the package and by no field
            cands = [c.methods[attr_node.attr] for c in self.classes.values() if attr_node.attr in c.methods and c.methods[attr_node.attr].is_property]
            is_field = any(attr_node.attr in c.field_types for c in self.classes.values())
            if len(cands) == 1 and not is_field:
                out = cands
        return out

    # ------------------------------------------------------------------ call graph
    def all_funcs(self):
        for f in self.funcs.values():
            yield f
            for g in getattr(f, 'nested', {}).values():
                yield g

    def call_graph(self):
        if getattr(self, '_cg', None) is not None:
            return self._cg
        cg = collections.defaultdict(set)
        sites = collections.defaultdict(list)   # callee qn -> [(caller Func, call node)]
        stats = collections.Counter()
        unresolved = []
        for fn in self.funcs.values():
            env = self.local_env(fn)
            for n in ast.walk(fn.node):
                if isinstance(n, ast.Call):
                    tg, how, layer = self.resolve_any(fn, n, env)
                    stats[how.split(':')[0]] += 1
                    for t in tg:
                        cg[fn.qn].add(t.qn)
                        sites[t.qn].append((fn, n))
                    if how.startswith('unresolved-attr'):
                        unresolved.append((fn, n, how))
                elif isinstance(n, ast.Attribute) and isinstance(n.ctx, ast.Load):
                    for t in self.property_targets(fn, n, env):
                        cg[fn.qn].add(t.qn)
                        sites[t.qn].append((fn, n))
                # implicit protocol calls on repo-typed objects
                proto = None
                if isinstance(n, (ast.For, ast.comprehension)):
                    proto = (n.iter, '__iter__')
                elif isinstance(n, ast.Subscript) and isinstance(n.ctx, ast.Load):
                    proto = (n.value, '__getitem__')
                elif isinstance(n, ast.Compare) and any(isinstance(o, (ast.In, ast.NotIn)) for o in n.ops):
                    proto = (n.comparators[-1], '__contains__')
                if proto is not None:
                    for rt in sorted(self.expr_types(fn, proto[0], env)):
                        for c in self.concrete(rt):
                            m = c.lookup(proto[1])
                            if m and not m.is_abstract:
                                cg[fn.qn].add(m.qn)
                                sites[m.qn].append((fn, n))
        # first-class functions and reflective dispatch (may-call over-approximation, for reachability only):
        #   a function whose NAME is used as a value (stored in a table, passed as an argument) may be called by whoever can see that value;
        #   operator.methodcaller('m', ...) / getattr(x, 'm') may call any method named m.
        reflect = []           # (fn, param name or None, constant name or None)
        computed = []          # (fn, expression building the name, call node)
        for fn in self.funcs.values():
            call_funcs = {id(n.func) for n in ast.walk(fn.node) if isinstance(n, ast.Call)}
            for n in ast.walk(fn.node):
                if isinstance(n, ast.Name) and isinstance(n.ctx, ast.Load) and id(n) not in call_funcs and n.id not in fn.params:
                    t = self.resolve_name(fn.mod, n.id)
                    if isinstance(t, Func):
                        cg[fn.qn].add(t.qn)
                        sites[t.qn].append((fn, n))
                    gv = self.global_value(fn.mod, n.id) if not isinstance(t, (Func, Cls)) else None
                    if gv is not None:
                        for m_ in ast.walk(gv[1]):
                            if isinstance(m_, ast.Call) and m_.args and isinstance(m_.args[0], ast.Constant) and isinstance(m_.args[0].value, str) and \
                                    (self.ext_name(gv[0], m_.func) or '') in ('operator.attrgetter', 'operator.methodcaller'):
                                for a_ in m_.args:
                                    if isinstance(a_, ast.Constant) and isinstance(a_.value, str):
                                        for t2 in self.cha(a_.value.split('.')[-1]):
                                            cg[fn.qn].add(t2.qn)
                                            sites[t2.qn].append((fn, n))
                            if isinstance(m_, ast.Name):
                                t2 = self.resolve_name(gv[0], m_.id)
                                if isinstance(t2, Func):
                                    cg[fn.qn].add(t2.qn)
                                    sites[t2.qn].append((fn, n))
                                elif isinstance(t2, Cls) and t2.lookup('__init__') is not None:
                                    cg[fn.qn].add(t2.lookup('__init__').qn)
                if isinstance(n, ast.Call) and n.args:
                    nm = self.ext_name(fn.mod, n.func)
                    if nm == 'functools.partial' and isinstance(n.args[0], (ast.Attribute, ast.Name)):
                        # partial(obj.method, a, ...) / partial(callable_object, a, ...): whoever applies it calls what a direct call would
                        fake = ast.copy_location(ast.Call(func=n.args[0], args=list(n.args[1:]), keywords=list(n.keywords)), n)
                        try:
                            tg_, _, _ = self.resolve_any(fn, fake, self.local_env(fn))
                        except Exception:
                            tg_ = []
                        for t_ in tg_:
                            cg[fn.qn].add(t_.qn)
                            sites[t_.qn].append((fn, n))
                    a0 = None
                    if nm in ('operator.methodcaller', 'operator.attrgetter'):
                        a0 = n.args[0]
                    elif nm == 'builtins.getattr' and len(n.args) >= 2:
                        a0 = n.args[1]
                    if a0 is not None:
                        if isinstance(a0, ast.Constant) and isinstance(a0.value, str):
                            reflect.append((fn, None, a0.value, n))
                        elif isinstance(a0, ast.Name) and a0.id in fn.params:
                            reflect.append((fn, a0.id, None, n))
                        else:
                            computed.append((fn, a0, n))
                            # a name computed locally (getter = TABLE[side]): every string the defining expressions can yield
                            exprs = [a0]
                            if isinstance(a0, ast.Name):
                                exprs = [s_.value for s_ in ast.walk(fn.node) if isinstance(s_, ast.Assign) and any(isinstance(t_, ast.Name) and t_.id == a0.id for t_ in s_.targets)]
                            for ex in exprs:
                                pool = [ex]
                                for x_ in ast.walk(ex):
                                    if isinstance(x_, ast.Name):
                                        gv_ = self.global_value(fn.mod, x_.id)
                                        if gv_ is not None:
                                            pool.append(gv_[1])
                                for pe in pool:
                                    for x_ in ast.walk(pe):
                                        if isinstance(x_, ast.Constant) and isinstance(x_.value, str) and x_.value.isidentifier():
                                            reflect.append((fn, None, x_.value, n))
        def strings_passed(fn, pname, depth=0):
            """string constants that call sites bind to parameter pname of fn (through callers that merely pass their own parameter on)"""
            got = []
            if depth > 4:
                return got
            for caller, cn in sites.get(fn.qn, []):
                if isinstance(cn, ast.Call):
                    ps_ = fn.pos_params
                    if fn.cls is not None and not fn.is_static and ps_ and ps_[0] in ('self', 'cls'):
                        ps_ = ps_[1:]
                    bound = [a for i_, a in enumerate(cn.args) if i_ < len(ps_) and ps_[i_] == pname] + [k.value for k in cn.keywords if k.arg == pname]
                    for a in bound:
                        if isinstance(a, ast.Constant) and isinstance(a.value, str):
                            got.append(a.value)
                        elif isinstance(a, ast.Name) and a.id in caller.params:
                            got.extend(strings_passed(caller, a.id, depth + 1))
            return got
        def str_values(fn, ex, depth=0):
            """the strings expression ex of fn can denote: constants, parameters (what the call sites pass), and '%'/+/f-string/format/case changes of those"""
            if depth > 6:
                return None
            if isinstance(ex, ast.Constant) and isinstance(ex.value, str):
                return {ex.value}
            if isinstance(ex, ast.Name):
                if ex.id in fn.params:
                    return set(strings_passed(fn, ex.id)) or None
                vals = [s_.value for s_ in ast.walk(fn.node) if isinstance(s_, ast.Assign) and any(isinstance(t_, ast.Name) and t_.id == ex.id for t_ in s_.targets)]
                got = [str_values(fn, v_, depth + 1) for v_ in vals]
                return set().union(*got) if got and all(g_ is not None for g_ in got) else None
            if isinstance(ex, ast.BinOp) and isinstance(ex.op, ast.Add):
                a, b = str_values(fn, ex.left, depth + 1), str_values(fn, ex.right, depth + 1)
                return {x + y for x in a for y in b} if a is not None and b is not None and len(a) * len(b) <= 64 else None
            if isinstance(ex, ast.BinOp) and isinstance(ex.op, ast.Mod) and isinstance(ex.left, ast.Constant) and isinstance(ex.left.value, str):
                parts = list(ex.right.elts) if isinstance(ex.right, ast.Tuple) else [ex.right]
                vs = [str_values(fn, p_, depth + 1) for p_ in parts]
                if any(v_ is None for v_ in vs) or ex.left.value.count('%s') != len(parts) or ex.left.value.count('%') != len(parts):
                    return None
                outs = {ex.left.value}
                for v_ in vs:
                    outs = {o_.replace('%s', x_, 1) for o_ in outs for x_ in v_}
                    if len(outs) > 64:
                        return None
                return outs
            if isinstance(ex, ast.JoinedStr):
                outs = {''}
                for p_ in ex.values:
                    v_ = {p_.value} if isinstance(p_, ast.Constant) else (str_values(fn, p_.value, depth + 1) if isinstance(p_, ast.FormattedValue) and p_.format_spec is None and p_.conversion == -1 else None)
                    if v_ is None:
                        return None
                    outs = {o_ + x_ for o_ in outs for x_ in v_}
                    if len(outs) > 64:
                        return None
                return outs
            if isinstance(ex, ast.Call) and isinstance(ex.func, ast.Attribute) and not ex.keywords:
                if ex.func.attr in ('lower', 'upper', 'strip') and not ex.args:
                    b = str_values(fn, ex.func.value, depth + 1)
                    return {getattr(x_, ex.func.attr)() for x_ in b} if b is not None else None
                if ex.func.attr == 'format' and isinstance(ex.func.value, ast.Constant) and isinstance(ex.func.value.value, str):
                    vs = [str_values(fn, p_, depth + 1) for p_ in ex.args]
                    tmpl = ex.func.value.value
                    if any(v_ is None for v_ in vs) or tmpl.count('{}') != len(vs) or tmpl.count('{') != len(vs):
                        return None
                    outs = {tmpl}
                    for v_ in vs:
                        outs = {o_.replace('{}', x_, 1) for o_ in outs for x_ in v_}
                    return outs
            return None
        for fn, ex, n in computed:
            for nm_ in sorted(str_values(fn, ex) or ()):
                reflect.append((fn, None, nm_, n))
        for fn, pname, const, n in reflect:
            names = [const] if const else []
            if pname:
                names.extend(strings_passed(fn, pname))
            for nm_ in names:
                for t in self.cha(nm_):
                    cg[fn.qn].add(t.qn)
                    sites[t.qn].append((fn, n))
        self._cg, self._sites, self._cg_stats, self._unresolved = cg, sites, stats, unresolved
        return cg

    def call_sites(self, qn):
        self.call_graph()
        return self._sites.get(qn, [])

    def reachable(self, roots):
        cg = self.call_graph()
        seen, todo = set(), list(roots)
        while todo:
            q = todo.pop()
            if q in seen:
                continue
            seen.add(q)
            todo.extend(cg.get(q, ()))
        return seen

    def stats(self):
        self.call_graph()
        return {'modules': len(self.mods), 'classes': len(self.classes), 'functions': len(self.funcs),
                'call_sites': sum(self._cg_stats.values()), 'resolution': dict(self._cg_stats),
                'unresolved_repo_calls': len(self._unresolved)}


def _baseline():
    p = os.path.join(os.path.dirname(os.path.abspath(__file__)), 'baseline_names.json')
    try:
        import json
        with open(p) as fh:
            return json.load(fh)
    except Exception:
        return {'classes': {}, 'modfuncs': {}}


def fingerprint(fnode):
    """identifiers a function body mentions (attribute names, called names, string constants), docstring excluded"""
    ids = set()
    body = fnode.body
    if body and isinstance(body[0], ast.Expr) and isinstance(body[0].value, ast.Constant) and isinstance(body[0].value.value, str):
        body = body[1:]
    for st in body:
        for n in ast.walk(st):
            if isinstance(n, ast.Attribute):
                ids.add('.' + n.attr)
            elif isinstance(n, ast.Name) and n.id not in ('self', 'cls'):
                ids.add(n.id)
            elif isinstance(n, ast.Constant) and isinstance(n.value, str) and len(n.value) < 40:
                ids.add("'" + n.value)
    return sorted(ids)


def _similar(a, b):
    a, b = set(a), set(b)
    return len(a & b) / float(len(a | b) or 1)


def rename_normalise(sources):
    """Undo pure renames of methods against the symbol table of the pinned tree (baseline_names.json): when a class lost exactly the
    method `old` and gained exactly one method `new` with the same parameter list (or the pairing by parameter lists is unique), `new` is
    renamed back to `old` everywhere in the package before the model is built.  The table is used for nothing else; a name that is not a
    unique pure rename is left alone (and the rule anchored on the old name becomes UNDECIDED).  -> (sources, {new: old})"""
    base = _baseline()
    trees = {}
    cur = {}
    decorated, bases_of, defined_by = {}, {}, {}
    for rel, src in sources.items():
        try:
            t = ast.parse(src, filename=rel)
        except SyntaxError:
            return sources, {}
        trees[rel] = t
        mod = rel[:-3].replace('/', '.')
        for st in t.body:
            if isinstance(st, ast.ClassDef):
                cur['%s.%s' % (mod, st.name)] = {m.name: [a.arg for a in m.args.posonlyargs + m.args.args + m.args.kwonlyargs] for m in st.body if isinstance(m, ast.FunctionDef)}
                decorated['%s.%s' % (mod, st.name)] = {m.name for m in st.body if isinstance(m, ast.FunctionDef) and any(
                    ast.unparse(d_).split('.')[-1] in ('property', 'setter', 'deleter', 'cached_property', 'staticmethod', 'classmethod') for d_ in m.decorator_list)}
                bases_of['%s.%s' % (mod, st.name)] = [ast.unparse(b_).split('.')[-1] for b_ in st.bases]
                defined_by.setdefault(st.name, set()).update(m.name for m in st.body if isinstance(m, ast.FunctionDef))
    all_names = set()
    for t in trees.values():
        for n in ast.walk(t):
            if isinstance(n, ast.FunctionDef):
                all_names.add(n.name)
    ren = {}
    prints = base.get('prints', {})
    cur_prints = {}
    for rel, t in trees.items():
        mod = rel[:-3].replace('/', '.')
        for st in t.body:
            if isinstance(st, ast.ClassDef):
                for m in st.body:
                    if isinstance(m, ast.FunctionDef):
                        cur_prints['%s.%s.%s' % (mod, st.name, m.name)] = fingerprint(m)
    votes = collections.defaultdict(set)        # new name -> old names proposed for it (per class)
    for cq, meths in base.get('classes', {}).items():
        if cq not in cur:
            continue
        missing = [m for m in meths if m not in cur[cq]]
        extra = [m for m in cur[cq] if m not in meths]
        if not missing or not extra:
            continue
        for old in missing:
            # a method the class now INHERITS (hoisted into a base class of the tree) was not renamed; a property / static method is not a renamed plain method
            inherited = False
            todo_, seen_ = list(bases_of.get(cq, [])), set()
            while todo_:
                b_ = todo_.pop()
                if b_ in seen_:
                    continue
                seen_.add(b_)
                if old in defined_by.get(b_, ()):
                    inherited = True
                todo_.extend(x_ for q_, bs_ in bases_of.items() if q_.rsplit('.', 1)[-1] == b_ for x_ in bs_)
            if inherited:
                continue
            extra = [e for e in extra if e not in decorated.get(cq, ())]
            cands = [e for e in extra if cur[cq][e] == meths[old] and e not in ren]
            if len(missing) == 1 and len(extra) == 1:
                cands = [e for e in extra if len(cur[cq][e]) == len(meths[old])]
            if len(cands) > 1 and prints.get('%s.%s' % (cq, old)):
                # several renamed siblings with one signature (e.g. the buy/sell twins): pair by what the bodies mention when that is decisive
                fp_old = [x for x in prints['%s.%s' % (cq, old)] if x.lstrip('.') not in missing]
                scored = sorted(((_similar(fp_old, [x for x in cur_prints.get('%s.%s' % (cq, e), []) if x.lstrip('.') not in extra]), e) for e in cands), reverse=True)
                rivals = [_similar([x for x in prints.get('%s.%s' % (cq, o2), []) if x.lstrip('.') not in missing],
                                   [x for x in cur_prints.get('%s.%s' % (cq, scored[0][1]), []) if x.lstrip('.') not in extra]) for o2 in missing if o2 != old]
                if scored[0][0] >= 0.6 and scored[0][0] > scored[1][0] + 0.1 and all(scored[0][0] > x + 0.1 for x in rivals):
                    cands = [scored[0][1]]
            if len(cands) > 1:
                # several renamed siblings with one signature (e.g. the buy/sell twins): pair by name similarity when it is decisive
                import difflib
                scored = sorted(((difflib.SequenceMatcher(None, old, e).ratio(), e) for e in cands), reverse=True)
                others = [difflib.SequenceMatcher(None, o2, scored[0][1]).ratio() for o2 in missing if o2 != old]
                if scored[0][0] > scored[1][0] + 0.1 and all(scored[0][0] > x + 0.1 for x in others):
                    cands = [scored[0][1]]
            if len(cands) == 1:
                votes[cands[0]].add(old)
    for new, olds in votes.items():
        # one new name stands for one old name everywhere it appears (the same helper renamed alike in sibling classes is fine);
        # every class defining the new name must have lost the old one
        if len(olds) == 1:
            old = next(iter(olds))
            holders = [cq for cq, ms in cur.items() if new in ms]
            if all(cq in base.get('classes', {}) and old in base['classes'][cq] and old not in cur[cq] for cq in holders):
                ren[new] = old
    if not ren:
        return sources, {}
    out = {}
    for rel, t in trees.items():
        changed = False
        for n in ast.walk(t):
            if isinstance(n, ast.FunctionDef) and n.name in ren:
                n.name = ren[n.name]
                changed = True
            elif isinstance(n, ast.Attribute) and n.attr in ren:
                n.attr = ren[n.attr]
                changed = True
        out[rel] = ast.unparse(t) if changed else sources[rel]
    return out, ren


def build(root='/repo'):
    src, ren = rename_normalise(load_sources(root))
    m = Model(src)
    m.renamed = ren
    return m


if __name__ == '__main__':
    import sys
    M = build(sys.argv[1] if len(sys.argv) > 1 else '/repo')
    print(M.stats())
    for c in sorted(M.classes.values(), key=lambda c: c.qn):
        ft = {k: sorted(x for x in v if not x.startswith('param:')) for k, v in c.field_types.items()}
        ft = {k: v for k, v in ft.items() if v}
        et = {k: sorted(x for x in v if not x.startswith('param:')) for k, v in c.elem_types.items() if v}
        if ft or et:
            print(c.name, '<-', [b.name for b in c.bases])
            for k, v in ft.items():
                print('    .%s : %s' % (k, v))
            for k, v in et.items():
                print('    .%s[] : %s' % (k, v))
    for fn, n, how in M._unresolved:
        print('UNRESOLVED', fn.site(n), fn.qn, ast.unparse(n.func), how)
    cg = M.call_graph()
    r = M.reachable(['BacktestTradingSession.run'])
    print(len(r), 'reachable from run:', sorted(r))
