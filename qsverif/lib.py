"""Shared analyses on top of the model: ownership scans (A1), helpers over path summaries (A3/A5)."""
import ast
import collections

from . import terms as T
from .terms import fmt
from .symex import SymEx, MUTATORS, Undecided, default_policy

WRITE_MUT = MUTATORS | {'get'}     # 'get' only counts on queue-typed receivers (see is_queue_get)


def chain(e):
    """attribute/subscript chain of an expression as a list of names ('[]' for subscripts)"""
    parts = []
    while True:
        if isinstance(e, ast.Attribute):
            parts.append(e.attr)
            e = e.value
        elif isinstance(e, ast.Subscript):
            parts.append('[]')
            e = e.value
        elif isinstance(e, ast.Name):
            parts.append(e.id)
            break
        elif isinstance(e, ast.Call):
            parts.append('()')
            e = e.func
        else:
            parts.append('?')
            break
    return list(reversed(parts))


def mentions_attr(e, attr):
    """expression denotes <x>.attr or <x>.attr[...]... (the container or an element of it)"""
    while isinstance(e, ast.Subscript):
        e = e.value
    return isinstance(e, ast.Attribute) and e.attr == attr


def field_aliases(fn, attr, getters=()):
    """locals of `fn` bound to <x>.attr / <x>.attr[...] or to the result of a getter that hands out the field"""
    al = set()
    for n in ast.walk(fn.node):
        if isinstance(n, ast.Assign) and len(n.targets) == 1 and isinstance(n.targets[0], ast.Name):
            v = n.value
            if mentions_attr(v, attr):
                al.add(n.targets[0].id)
            elif isinstance(v, ast.Call) and isinstance(v.func, ast.Attribute) and v.func.attr in getters:
                al.add(n.targets[0].id)
            elif isinstance(v, ast.Name) and v.id in al:
                al.add(n.targets[0].id)
    return al


class Write:
    def __init__(self, fn, node, how, target):
        self.fn, self.node, self.how, self.target = fn, node, how, target

    @property
    def where(self):
        return self.fn.site(self.node)

    def __repr__(self):
        return 'Write(%s %s %s)' % (self.fn.qn, self.how, self.where)


def writers_of_attr(M, attr, getters=(), elements=True, owner=None):
    """Every site in the package that may write `<expr>.attr`: rebinding, augmented assignment, element store/delete,
    mutator call on it (directly, through a local alias, or through a getter that hands out the reference).  Name-based,
    package-wide (DESIGN C01-S1)."""
    out = []
    # where the logical field is kept when a property projects it: <x>.f1.f2 (write of the leaf) and <x>.f1 (the whole sub-object replaced)
    chains = [ch for ch, (cn_, pn_) in M.projections().items() if pn_ == attr]

    def stored_as(base):
        for ch in chains:
            e_, ok = base, True
            for fld in reversed(ch):
                if isinstance(e_, ast.Attribute) and e_.attr == fld:
                    e_ = e_.value
                else:
                    ok = False
                    break
            if ok:
                return True
            if len(ch) >= 2 and isinstance(base, ast.Attribute) and base.attr == ch[0]:
                return True
        return False
    for fn in M.all_funcs():
        if fn.parent is not None:
            continue
        if fn.qn.endswith('.%s@setter' % attr) or fn.qn.endswith('.%s@deleter' % attr):
            continue            # the property's own setter is how an assignment `x.attr = v` is carried out; the assignments themselves are the writers
        al = field_aliases(fn, attr, getters)
        foreign_self = owner is not None and fn.cls is not None and not any(k.name == owner for k in fn.cls.mro())

        def is_tgt(e, direct_only=False):
            base = e
            sub = False
            while isinstance(base, ast.Subscript):
                base = base.value
                sub = True
            if chains and stored_as(base):
                return 'elem' if sub else 'field'
            if isinstance(base, ast.Attribute) and base.attr == attr:
                if foreign_self and isinstance(base.value, ast.Name) and base.value.id == 'self':
                    return None         # another class's own field of the same name
                return 'elem' if sub else 'field'
            if isinstance(base, ast.Name) and base.id in al and sub:
                return 'elem-alias'
            if isinstance(base, ast.Call) and isinstance(base.func, ast.Attribute) and base.func.attr in getters and sub:
                return 'elem-getter'
            return None
        for n in ast.walk(fn.node):
            tgts = []
            if isinstance(n, ast.Assign):
                tgts = [(t, 'assign') for t in n.targets]
            elif isinstance(n, ast.AugAssign):
                tgts = [(n.target, 'aug')]
            elif isinstance(n, ast.AnnAssign) and n.value is not None:
                tgts = [(n.target, 'assign')]
            elif isinstance(n, ast.Delete):
                tgts = [(t, 'del') for t in n.targets]
            elif isinstance(n, (ast.For, ast.comprehension)):
                tgts = [(n.target, 'assign')]
            elif isinstance(n, ast.With):
                tgts = [(i.optional_vars, 'assign') for i in n.items if i.optional_vars is not None]
            flat = []
            for t, how in tgts:
                if isinstance(t, (ast.Tuple, ast.List)):
                    flat.extend((e, how) for e in ast.walk(t) if isinstance(e, (ast.Attribute, ast.Subscript)))
                else:
                    flat.append((t, how))
            for t, how in flat:
                k = is_tgt(t)
                if k and (elements or k == 'field'):
                    out.append(Write(fn, n, '%s:%s' % (how, k), t))
            if isinstance(n, ast.Call) and isinstance(n.func, ast.Attribute) and n.func.attr in MUTATORS:
                r = n.func.value
                k = is_tgt(r)
                if k is None and isinstance(r, ast.Name) and r.id in al:
                    k = 'alias'
                if k is None and isinstance(r, ast.Call) and isinstance(r.func, ast.Attribute) and r.func.attr in getters:
                    k = 'getter'
                if k and (elements or k in ('field', 'alias', 'getter')):
                    out.append(Write(fn, n, 'mut:%s:%s' % (n.func.attr, k), r))
            # setattr / __dict__ / vars() reflection on the attribute name
            if isinstance(n, ast.Call) and isinstance(n.func, ast.Name) and n.func.id in ('setattr', 'delattr') and len(n.args) >= 2 \
                    and isinstance(n.args[1], ast.Constant) and n.args[1].value == attr:
                out.append(Write(fn, n, 'reflect:' + n.func.id, n.args[0]))
    return out


def reflection_sites(M):
    """setattr/exec/eval/__dict__/vars/globals use anywhere in the package (closed-world premise of the name-based scans)."""
    out = []
    for fn in M.all_funcs():
        for n in ast.walk(fn.node):
            if isinstance(n, ast.Call) and isinstance(n.func, ast.Name) and n.func.id in ('setattr', 'delattr', 'exec', 'eval', 'vars', 'globals', 'locals', '__import__', 'getattr'):
                out.append((fn, n, n.func.id))
            if isinstance(n, ast.Attribute) and n.attr in ('__dict__', '__setattr__', '__class__') and n.attr != '__class__':
                out.append((fn, n, n.attr))
    return out


def calls_named(M, name):
    """every call site `<expr>.name(...)` or `name(...)` in the package: (Func, Call node)"""
    out = []
    for fn in M.all_funcs():
        if fn.parent is not None:
            continue
        for n in ast.walk(fn.node):
            if isinstance(n, ast.Call):
                f = n.func
                if (isinstance(f, ast.Attribute) and f.attr == name) or (isinstance(f, ast.Name) and f.id == name):
                    out.append((fn, n))
    return out


def reads_of_attr(M, attr):
    out = []
    for fn in M.all_funcs():
        if fn.parent is not None:
            continue
        for n in ast.walk(fn.node):
            if isinstance(n, ast.Attribute) and n.attr == attr and isinstance(n.ctx, ast.Load):
                out.append((fn, n))
    return out


def parent_map(node):
    pm = {}
    for p in ast.walk(node):
        for c in ast.iter_child_nodes(p):
            pm[c] = p
    return pm


# ---------------------------------------------------------------------- path helpers
def summarise(ctx, qn, policy=default_policy, oracle=None, args=None, self_term=None, **kw):
    fn = ctx.fn(qn) if isinstance(qn, str) else qn
    sx = SymEx(ctx.M, policy=policy, oracle=oracle, **kw)
    dyn = None
    if isinstance(qn, str) and '.' in qn and fn.cls is not None and qn.rsplit('.', 1)[0] != fn.cls.name:
        dyn = ctx.M.cls(qn.rsplit('.', 1)[0])          # 'Sub.method' where Sub inherits the method: it runs on a Sub
    ps = sx.run_entry(fn, args=args, self_term=self_term if self_term is not None else (('var', 'self') if dyn is not None else None), dyn=dyn)
    ctx.paths_explored += len(ps)
    return ps


def set_memos(ctx, fn, ps):
    """A set kept on the object that remembers FACTS about keys (`self.S.add(K)` ... `if K in self.S: skip`): the fact is established under the tests in force where
    the key is added.  When those tests read a parameter of fn that is not part of K (the price at THIS dt was NaN), a fact about one call is applied to all
    later calls with the same key.  -> [(field, key, missing parameters, site, condition text)] for such additions; [] when every remembered fact depends on the
    key alone (or the set is never consulted)."""
    params = [p_ for p_ in fn.params if p_ not in ('self', 'cls')]
    consulted = set()
    adds = []
    for p in ps:
        for e, loops, conds in nested_events(p):
            if e.kind == 'write' and e.how == 'mut:add' and self_chain(e.loc) is not None and e.value is not None and len(e.value[2]) == 2:
                adds.append((e, e.value[2][1], list(conds)))
        for c, v_, _ in list(p.conds) + [c_ for e, loops, conds in nested_events(p) for c_ in conds]:
            if c[0] == 'cmp' and c[1] == 'in' and self_chain(c[3]) is not None:
                consulted.add(c[3][2])
    out = []
    for e, K, conds in adds:
        fld = e.loc[2]
        if fld not in consulted:
            continue
        kvars = {s_[1] for s_ in T.subterms(K) if s_[0] == 'var'}
        missing = set()
        text = []
        for c, v_, _ in conds:
            if c[0] == 'cmp' and c[1] == 'in' and c[3] == e.loc:
                continue
            m_ = {s_[1] for s_ in T.subterms(c) if s_[0] == 'var' and s_[1] in params} - kvars
            if m_:
                missing |= m_
                text.append(('' if v_ else 'not ') + fmt(c)[:70])
        if missing:
            out.append((fld, K, sorted(missing), e.site, ' & '.join(text)[:160]))
    return out


def self_chain(t):
    """field names of an attribute chain rooted at self: self.a.b -> ['a', 'b']; None for anything else"""
    names = []
    while t[0] == 'attr':
        names.append(t[2])
        t = t[1]
    return list(reversed(names)) if t == V('self') and names else None


def holder_chain(t):
    """like self_chain, also through objects picked out of a table kept in a field: self.a[k].b -> ['a', 'b']"""
    names = []
    while t[0] in ('attr', 'sub'):
        if t[0] == 'attr':
            names.append(t[2])
        t = t[1]
    return list(reversed(names)) if t == V('self') and names else None


def volatile_calls(ctx, t, kvars=()):
    """Questions put to a collaborator (self.x.m(...), self.x.y.m(...)) inside term t whose arguments carry none of the given variables and whose answer changes
    while the collaborator lives: every definition of m in the package reads - itself or through the methods it calls, three levels deep - a field that is
    assigned or changed in place outside constructors.  -> [(rendered call, 'Class.field')]"""
    M = ctx.M
    self_ = V('self')
    out = []

    def mutable_reads(g, depth, seen):
        if g.qn in seen or depth > 3:
            return None
        seen.add(g.qn)
        for n in ast.walk(g.node):
            if isinstance(n, ast.Attribute) and isinstance(n.value, ast.Name) and n.value.id == 'self' and isinstance(n.ctx, ast.Load) and g.cls is not None:
                if g.cls.lookup(n.attr) is None and M.field_written_outside_init(g.cls, n.attr):
                    return '%s.%s' % (g.cls.name, n.attr)
        for n in ast.walk(g.node):
            if isinstance(n, ast.Call) and isinstance(n.func, ast.Attribute):
                tg = M.cha(n.func.attr)
                if 1 <= len(tg) <= 3:
                    for h in tg:
                        r = mutable_reads(h, depth + 1, seen)
                        if r:
                            return r
            elif isinstance(n, ast.Attribute) and isinstance(n.ctx, ast.Load):
                for h in [h_ for c_ in M.classes.values() for nm_, h_ in c_.methods.items() if nm_ == n.attr and h_.is_property]:
                    r = mutable_reads(h, depth + 1, seen)
                    if r:
                        return r
        return None
    for s_ in T.subterms(t):
        if s_[0] != 'call' or s_[1][0] not in ('meth', 'fn') or not s_[2]:
            continue
        recv = s_[2][0]
        if self_chain(recv) is None or recv == self_:
            continue
        if any(z[0] == 'var' and z[1] in kvars for a_ in list(s_[2][1:]) + [v_ for _, v_ in s_[3]] for z in T.subterms(a_)):
            continue
        if s_[1][0] == 'fn':
            tg = [M.funcs.get(q_) for q_ in s_[1][1].split('|')]
            if any(g is None or g.cls is None for g in tg):
                continue
        else:
            tg = [g for g in M.cha(s_[1][1])]
        if not tg:
            continue
        why = [mutable_reads(g, 0, set()) for g in tg]
        if all(why):
            out.append((fmt(s_)[:80], why[0]))
    return out


def slot_memos(ctx, fn, ps):
    """One-slot memoisation inside fn: the object remembers the last question and its answer in fields of its own (two fields, or one field holding a tuple),
        hit:  `self.T == g(params)` [and ...] -> return self.R (or a copy)        miss:  self.T = g(params) ; self.R = v ; return v (or a copy)
    -> [dict(tag=..., result=..., key=g, verdict=('sound',) | ('unsound', why) | ('other', why), hits=[paths])].  Sound means: the remembered question is a SNAPSHOT
    of everything the answer depends on (an immutable or private copy - a live view or the caller's own mutable object compares equal to itself for ever), the
    answer reads no other state that changes after construction, and nobody else writes the slot."""
    self_ = V('self')
    params = [p_ for p_ in fn.params if p_ not in ('self', 'cls')]

    def slot_locs(t):
        out_ = []
        for s_ in T.subterms(t):
            if s_[0] == 'sub' and s_[1][0] == 'attr' and s_[1][1] == self_ and s_[2][0] == 'num':
                out_.append(s_)
        inner = {s_[1] for s_ in out_}
        for s_ in T.subterms(t):
            if s_[0] == 'attr' and s_[1] == self_ and s_ not in inner:
                out_.append(s_)
        return out_

    def uncopy(t):
        while t[0] == 'call' and t[1] in (('ext', 'COPY'), ('ext', 'DICT'), ('ext', 'LIST'), ('ext', 'TUPLE')) and len(t[2]) == 1 and not t[3]:
            t = t[2][0]
        return t
    # what each path stores into slots
    stores = []
    for p in ps:
        st = {}
        for w in heap_writes(p):
            if w.how == 'assign' and w.loc[0] == 'attr' and w.loc[1] == self_ and w.value is not None:
                st[w.loc] = w.value
                if w.value[0] == 'tuple':
                    for i, t_ in enumerate(w.value[1]):
                        st[('sub', w.loc, T.num(i))] = t_
        if st:
            stores.append((p, st))
    stored_locs = {l_ for _, st in stores for l_ in st}
    groups = {}
    for p in ps:
        if p.outcome != 'return' or p.value is None or heap_writes(p):
            continue
        res = [l_ for l_ in slot_locs(p.value) if l_ in stored_locs]
        if not res or uncopy(p.value) not in res:
            continue
        pins = []
        for c, val, _ in p.conds:
            if c[0] == 'cmp' and c[1] in ('==', '!=') and val is (c[1] == '=='):
                for a_, b_ in ((c[2], c[3]), (c[3], c[2])):
                    if a_ in stored_locs and a_ not in res:
                        pins.append((a_, b_))
        if pins:
            groups.setdefault((tuple(res), tuple(l_ for l_, _ in pins)), []).append((p, pins))
    out = []
    for (res, tags), hs in groups.items():
        pins = hs[0][1]
        key = pins[0][1] if len(pins) == 1 else ('tuple', tuple(g_ for _, g_ in pins))
        rel = [(p, st) for p, st in stores if any(l_ in st for l_ in res + tags)]
        verdict = None
        rname = fmt(res[0])
        if not rel or any(not all(l_ in st for l_ in res + tags) for _, st in rel):
            verdict = ('other', 'the remembered question and answer are not always stored together')
        elif any(not T.teq(uncopy(st[l_]), uncopy(g_)) for _, st in rel for l_, g_ in pins):
            verdict = ('other', 'the question remembered is not the question compared')
        elif any(p.outcome == 'return' and p.value is not None and not T.teq(uncopy(p.value), uncopy(st[res[0]])) for p, st in rel):
            verdict = ('other', 'the answer remembered is not the answer handed out by the computing path')
        else:
            kvars = {s_[1] for _, g_ in pins for s_ in T.subterms(g_) if s_[0] == 'var'}
            kfields = {s_[2] for _, g_ in pins for s_ in T.subterms(g_) if s_[0] == 'attr' and s_[1] == self_}
            roots = {(l_[1] if l_[0] == 'sub' else l_)[2] for l_ in res + tags}
            deps, fields = set(), set()
            for p, st in rel:
                for t in [st[res[0]]] + [c for c, _, _ in p.conds]:
                    deps |= {s_[1] for s_ in T.subterms(t) if s_[0] == 'var' and s_[1] in params}
                    fields |= {s_[2] for s_ in T.subterms(t) if s_[0] == 'attr' and s_[1] == self_ and s_[2] not in roots}
            missing = sorted(deps - kvars)
            mutable = sorted(f_ for f_ in fields - kfields if fn.cls is not None and ctx.M.field_written_outside_init(fn.cls, f_))
            foreign = sorted({w.fn.qn for f_ in roots for w in writers_of_attr(ctx.M, f_, owner=fn.cls.name if fn.cls else None)
                              if w.fn.qn != fn.qn and w.fn.name != '__init__' and not ctx.M.ctor_only(w.fn)})
            # an input of the answer that the class lets its owner re-assign (a property setter, a method of the class): whoever assigns it must drop the slot
            stale_w = []
            maintained = []
            if fn.cls is not None:
                def _assigns(g_, names_):
                    return any(isinstance(t_, ast.Attribute) and isinstance(t_.value, ast.Name) and t_.value.id == 'self' and t_.attr in names_
                               for n_ in ast.walk(g_.node) for t_ in ((n_.targets if isinstance(n_, ast.Assign) else [n_.target] if isinstance(n_, (ast.AugAssign, ast.AnnAssign)) else [])))
                def _drops(g_):
                    if _assigns(g_, roots):
                        return True
                    return any(isinstance(n_, ast.Call) and isinstance(n_.func, ast.Attribute) and isinstance(n_.func.value, ast.Name) and n_.func.value.id == 'self'
                               and fn.cls.lookup(n_.func.attr) is not None and _assigns(fn.cls.lookup(n_.func.attr), roots) for n_ in ast.walk(g_.node))
                for f_ in mutable:
                    ws_ = [w for w in writers_of_attr(ctx.M, f_, owner=fn.cls.name) if w.fn.name != '__init__' and not ctx.M.ctor_only(w.fn)]
                    own_ = [m_ for m_ in fn.cls.methods.values() if m_.name != '__init__' and not ctx.M.ctor_only(m_) and m_.qn != fn.qn and _assigns(m_, {f_})]
                    if not own_ or any(w.fn.qn not in {m_.qn for m_ in own_} for w in ws_):
                        continue        # changed from elsewhere (or in place): not an argument about this class alone
                    if all(_drops(m_) for m_ in own_):
                        maintained.append(f_)
                    else:
                        stale_w.append((next(m_.qn for m_ in own_ if not _drops(m_)), f_))
                mutable = [f_ for f_ in mutable if f_ not in maintained]
            if fn.cls is not None:
                # ... and an input behind a property setter is one the class invites its owner to re-assign
                for f_ in sorted(fields - kfields):
                    sg_ = fn.cls.lookup(f_ + '@setter')
                    if sg_ is not None and f_ not in mutable and not any(f_ == x_[1] for x_ in stale_w):
                        if not _drops(sg_):
                            stale_w.append((sg_.qn, f_))
                        else:
                            maintained.append(f_)
                if maintained and not mutable:
                    foreign = [q_ for q_ in foreign if not any(q_ == m_.qn and _drops(m_) and not any(isinstance(n_, ast.Attribute) and n_.attr in roots and isinstance(n_.ctx, ast.Load) for n_ in ast.walk(m_.node))
                                                              for m_ in fn.cls.methods.values())]
            snaps = [(_snapshot(st[l_], fn), st[l_]) for _, st in rel for l_, _ in pins]
            vol = [v_ for _, st in rel for v_ in volatile_calls(ctx, st[res[0]], kvars)] if not foreign else []
            if missing:
                verdict = ('unsound', 'the remembered question %s leaves out %s, which the answer depends on' % (fmt(key)[:60], ', '.join(missing)))
            elif any(s_ is False for s_, _ in snaps):
                bad_ = next(t_ for s_, t_ in snaps if s_ is False)
                verdict = ('unsound', 'the remembered question %s is not a copy: it is the caller\'s own object (or a live view of it), which always equals itself - '
                                      'once the caller changes that object in place the old answer is handed out for the new content' % fmt(bad_)[:60])
            elif vol:
                verdict = ('unsound', 'the answer is asked of a collaborator, %s, whose reply follows %s as it changes; the remembered question %s records none of that and no '
                                      'other method ever drops the slot: the first reply is handed out for as long as the question compares equal' % (vol[0][0], vol[0][1], fmt(key)[:40]))
            elif stale_w:
                verdict = ('unsound', '%s assigns self.%s, which the remembered answer was computed from, and leaves the slot as it is: the same question is then answered '
                                      'with the figure for the old %s' % (stale_w[0][0], stale_w[0][1], stale_w[0][1]))
            elif mutable:
                verdict = ('other', 'the answer reads %s, which is rewritten after construction' % mutable)
            elif foreign:
                verdict = ('other', '%s also write(s) the slot' % ', '.join(foreign[:2]))
            elif any(s_ is None for s_, _ in snaps):
                bad_ = next(t_ for s_, t_ in snaps if s_ is None)
                verdict = ('other', 'whether the remembered question %s can change after it was stored is not decided' % fmt(bad_)[:60])
            else:
                verdict = ('sound',)
        out.append({'tag': ', '.join(fmt(l_) for l_ in tags), 'result': rname.replace('self.', '', 1), 'result_locs': list(res), 'key': key, 'verdict': verdict,
                    'hits': [p for p, _ in hs]})
    return out


def read_marker(ctx, p):
    """'READ: ' when everything the path did was read to the end - no value applied as a function, no call of a function this tree introduces left un-followed,
    no havoc in its conditions - so that NOT finding a step on it is a finding; '' otherwise (see report.Ctx.violation)"""
    try:
        new = {n_ for ns_ in ctx.M.new_definitions().values() for n_ in ns_}
    except Exception:
        new = set()
    for e in p.flat_events():
        if e.kind == 'call':
            if any(c in ('ext:APPLY',) for c in e.callee):
                return ''
            if any(part_ in new for c in e.callee for part_ in c.split('.')):
                return ''
            # a method call the typing did not resolve although the package defines a method of that name: what it did is unknown
            from .model import CONTAINER_METHODS
            if any(c.startswith('meth:') and c[5:] not in CONTAINER_METHODS and ctx.M.cha(c[5:]) for c in e.callee):
                return ''
    try:
        new_store = ctx.M.new_private_storage()
    except Exception:
        new_store = set()
    for c, v, _ in p.conds:
        if new_store and any(s_[0] == 'attr' and s_[2] in new_store for s_ in T.subterms(c)):
            return ''           # the path is selected by storage this tree introduces (a kept figure, a flag): what it stands for is not established here
        if any(s_[0] in ('havoc',) or (s_[0] == 'call' and s_[1][0] == 'fn' and s_[1][1].split('.')[-1].split('|')[0] in new) for s_ in T.subterms(c)):
            return ''
    return 'READ: '

def ctor_keeps_argument(ctx, rule, cname, p, fld, what, key):
    """after construction (accepting path p of the constructor) the logical field `fld` holds the constructor argument of that name, unmodified: written as
    such - or kept somewhere else (a helper object, a table of settings) and read back through a property of that name, in which case the property is asked"""
    w = heap_writes(p, fld)
    if w and w[-1].value == V(fld) and all(x.value == V(fld) or (x.value is not None and x.value[0] in ('const', 'num', 'str')) for x in w):
        # (a placeholder written first - None by a helper object's own constructor - and then the argument: what the field holds after construction is the argument)
        ctx.holds(rule, what, w[-1].site)
        return True
    cls = ctx.cls(cname)
    getter = cls.lookup(fld) if cls is not None else None
    if not w and getter is not None and getter.is_property:
        try:
            from .symex import State
            init = cls.lookup('__init__')
            ips = [q for q in SymEx(ctx.M, policy=default_policy).run(init, dyn=cls) if q.outcome in ('fall', 'return')]
            vals = set()
            for ip in ips[:4]:
                st_ = State()
                st_.heap = dict(ip.heap)
                vals |= {q.value for q in SymEx(ctx.M, policy=default_policy).run(getter, self_term=V('self'), state=st_, dyn=cls) if q.outcome == 'return'}
        except Undecided:
            vals = set()
        if vals == {V(fld)}:
            ctx.holds(rule, what + ' (read back through the property)', getter.site())
            return True
        if len(vals) == 1 and not any(s_[0] in ('attr', 'sub', 'call', 'havoc', 'lc') for v_ in vals for s_ in T.subterms(v_)):
            ctx.violation(rule, what, getter.site(), 'after construction the property answers %s' % fmt(next(iter(vals)))[:80], key=key)
            return False
        ctx.undecided(rule, what, getter.site(), 'kept outside a field of that name: %s' % sorted(fmt(v_)[:60] for v_ in vals)[:2])
        return None
    ctx.violation(rule, what, w[0].site if w else None, [fmt(x.value)[:80] for x in w] if w else 'never written by the constructor', key=key)
    return False

def at_construction(M, w, attr, depth=0):
    """the writer site w of logical field `attr` runs only while objects are constructed: it sits in a constructor, in a private helper only constructors call,
    or in a storage step (a method of a helper object such as set_x) every call site of which is a constructor, such a helper, or the property setter of `attr`
    itself - the setter is how an assignment `obj.attr = v` is carried out, and the assignments are listed as writers in their own right"""
    fn = w if not hasattr(w, 'fn') else w.fn
    if fn.name == '__init__' or M.ctor_only(fn):
        return True
    if depth > 4 or fn.qn.endswith('@setter'):
        return fn.qn.endswith('.%s@setter' % attr)
    sites = M.call_sites(fn.qn)
    if not sites:
        return False
    return all(c.name == '__init__' or c.qn.endswith('.%s@setter' % attr) or at_construction(M, c, attr, depth + 1) for c, n in sites)


def uncopy(t):
    """the container a term denotes up to copying: dict(x), list(x), x.copy(), copy.copy(x) hold what x holds"""
    while t is not None and t[0] == 'call' and t[1] in (('ext', 'COPY'), ('ext', 'DICT'), ('ext', 'LIST')) and len(t[2]) == 1 and not t[3]:
        t = t[2][0]
    return t


def _snapshot(t, fn):
    """True: the value is immutable once made (tuple(...)/frozenset(...)/str/number, a tuple of such); False: it aliases something the caller can change in place
    (a dict view, a parameter the function itself treats as a dict/list); None: unknown"""
    if t[0] in ('num', 'str', 'const'):
        return True
    if t[0] == 'call' and t[1][0] == 'ext' and t[1][1] in ('TUPLE', 'FROZENSET', 'builtins.frozenset', 'builtins.str', 'builtins.hash', 'builtins.repr', 'LEN', 'SUM', 'builtins.id'):
        inner = t[2][0] if t[2] else None
        if t[1][1] in ('TUPLE', 'FROZENSET', 'builtins.frozenset') and inner is not None:
            # a tuple of the items is a snapshot of keys and values as long as those are themselves immutable (numbers, strings): taken as such
            return True
        return True
    if t[0] == 'tuple':
        rs = [_snapshot(x, fn) for x in t[1]]
        return False if any(r is False for r in rs) else (True if all(r is True for r in rs) else None)
    if t[0] == 'call' and t[1][0] == 'meth' and t[1][1] in ('items', 'keys', 'values') and len(t[2]) == 1:
        return False
    if t[0] == 'var':
        # the parameter itself: a container when the function iterates it, subscripts it or calls container methods on it
        for n in ast.walk(fn.node):
            if isinstance(n, ast.Attribute) and isinstance(n.value, ast.Name) and n.value.id == t[1] and n.attr in ('items', 'keys', 'values', 'append', 'get', 'update', 'pop', 'setdefault'):
                return False
            if isinstance(n, ast.Subscript) and isinstance(n.value, ast.Name) and n.value.id == t[1]:
                return False
            if isinstance(n, (ast.For, ast.comprehension)) and isinstance(n.iter, ast.Name) and n.iter.id == t[1]:
                return False
            if isinstance(n, ast.Call) and isinstance(n.func, ast.Name) and n.func.id in ('dict', 'list', 'set', 'sorted', 'len') and len(n.args) == 1 \
                    and isinstance(n.args[0], ast.Name) and n.args[0].id == t[1]:
                return False        # copied or measured as a container
        import re
        doc = ast.get_docstring(fn.node) or ''
        m_ = re.search(r'^\s*%s\s*[:;]\s*`([^`]+)`' % re.escape(t[1]), doc, re.M)
        if m_ and re.match(r'\s*(dict|list|set|collections\.|pd\.(DataFrame|Series)|np\.ndarray|deque)', m_.group(1)):
            return False            # documented as a mutable container
        return None
    if t[0] == 'call' and t[1] in (('ext', 'COPY'), ('ext', 'DICT'), ('ext', 'LIST'), ('ext', 'SORTED')):
        return True     # a copy made here and kept privately
    if t[0] == 'attr' and t[1] == V('self'):
        return True     # a setting of the object itself, compared afresh with its current value at every call
    return None


def _access_atoms(t, params):
    """maximal access paths (x, x.a, x.a.b, x[const]) rooted at a parameter or at the element of an enclosing loop that term t reads"""
    out = set()

    def rooted(z):
        while z[0] == 'attr' or (z[0] == 'sub' and z[2][0] in ('str', 'num')):
            z = z[1]
        return (z[0] == 'var' and z[1] in params) or z[0] == 'elem'

    def walk(z, top=True):
        if not isinstance(z, tuple) or not z or not isinstance(z[0], str):
            if isinstance(z, (tuple, list)):
                for y in z:
                    walk(y)
            return
        if (z[0] in ('attr', 'var', 'elem') or (z[0] == 'sub' and z[2][0] in ('str', 'num'))) and rooted(z):
            out.add(z)
            return
        for y in z[1:]:
            if isinstance(y, (tuple, list)):
                walk(y)
    walk(t)
    return out


_DATE_PARTS = {'month', 'day', 'dayofyear', 'day_of_year', 'dayofweek', 'day_of_week', 'weekday', 'week', 'quarter', 'is_month_end', 'is_month_start'}


_INJECTIVE_METHS = {'isoformat', 'timestamp', 'toordinal', 'to_pydatetime', 'to_datetime64', 'tz_convert', 'astimezone', 'items', 'keys', 'values', 'copy', 'encode', 'hex'}
_INJECTIVE_EXTS = {'TUPLE', 'STR', 'REPR', 'FROZENSET', 'LIST', 'SORTED', 'ID', 'pandas.Timestamp', 'builtins.id', 'builtins.repr', 'builtins.str', 'builtins.tuple', 'builtins.frozenset'}


def _injective_atoms(K, params):
    """access paths that the key carries WHOLE: as the key itself, as a component of a tuple key, or wrapped in a conversion that loses nothing (str, tuple,
    isoformat, ...).  An argument that only goes into the key through a many-to-one computation (a bisection, a floor, a hash bucket, an arithmetic
    expression) is not carried: many values of it share one key."""
    out = set()

    def walk(z):
        if not isinstance(z, tuple) or not z:
            return
        a_ = _access_atoms(z, params)
        if z in a_:
            out.add(z)
            return
        if z[0] == 'tuple':
            for y in z[1]:
                walk(y)
        elif z[0] == 'call' and ((z[1][0] == 'meth' and z[1][1] in _INJECTIVE_METHS) or (z[1][0] == 'ext' and z[1][1] in _INJECTIVE_EXTS)):
            for y in z[2]:
                walk(y)
    walk(K)
    return out


def _determined(a, katoms):
    """the key atoms pin down what access path a denotes: the path itself or the object it is read from is in the key, or - calendar dates - the key holds the
    year together with month+day or the day of the year (a day of the year WITHOUT the year is the same in every year)"""
    z = a
    while True:
        if z in katoms:
            return True
        if z[0] in ('attr', 'sub'):
            z = z[1]
        else:
            break
    if a[0] == 'attr' and a[2] in _DATE_PARTS:
        have = {k_[2] for k_ in katoms if k_[0] == 'attr' and k_[1] == a[1]}
        if 'year' in have and ({'month', 'day'} <= have or have & {'dayofyear', 'day_of_year'}):
            return True
    return False


def _generation_tag(ctx, fn, ps, table, missing):
    """A memo whose key leaves out parameter P is still sound when the object remembers, in a tag field F, the P its entries were computed for, and empties the
    table whenever it is asked about another P:  `if self.F != P: self.F = P; self.M.clear()`  before the table is consulted.
    -> True (every path that consults or fills the table does so with self.F == P), a reason string (some path does not), None (no such tag field)."""
    self_ = V('self')
    for P in missing:
        tags = {w.loc[2] for p in ps for w in heap_writes(p) if w.how == 'assign' and w.loc[0] == 'attr' and w.loc[1] == self_ and w.value == V(P)}
        if len(tags) != 1:
            return None
        F = next(iter(tags))
        tagt = ('attr', self_, F)
        for p in ps:
            eq = any(c[0] == 'cmp' and c[1] in ('==', '!=') and {c[2], c[3]} == {tagt, V(P)} and (val is (c[1] == '==')) for c, val, _ in p.conds)
            ws = list(heap_writes(p))
            store_at = [i for i, w in enumerate(ws) if w.loc[0] == 'sub' and w.loc[1] == table]
            reset_at = [i for i, w in enumerate(ws) if w.loc == table and (w.how == 'mut:clear' or (w.how == 'assign' and w.value in (('dict', ()),)))]
            retag = any(w.loc == tagt and w.value == V(P) for w in ws)
            reset = retag and reset_at and (not store_at or reset_at[0] < store_at[0])
            consults = bool(store_at) or any(s_[0] == 'sub' and s_[1] == table for s_ in T.subterms(p.value or T.ZERO))
            if eq or not consults:
                continue
            if reset:
                continue        # emptied first: whatever is found afterwards was put there for this P (a "hit" right after the reset cannot happen)
            return 'on path [%s] the table is %s although self.%s may hold another %s than the one asked about' % (
                cond_str(p)[:90], 'filled' if store_at else 'answered from', F, P)
        # nobody else moves the tag without emptying the table
        if fn.cls is not None:
            for g in ctx.M.all_funcs():
                if g.path != fn.path or g.name == '__init__' or ctx.M.ctor_only(g):
                    continue
                sets_tag = any(isinstance(n, ast.Attribute) and isinstance(n.ctx, ast.Store) and n.attr == F for n in ast.walk(g.node))
                empties = any((isinstance(n, ast.Attribute) and isinstance(n.ctx, ast.Store) and n.attr == table[2]) or
                              (isinstance(n, ast.Call) and isinstance(n.func, ast.Attribute) and n.func.attr == 'clear' and isinstance(n.func.value, ast.Attribute) and n.func.value.attr == table[2])
                              for n in ast.walk(g.node))
                if sets_tag and not empties:
                    return '%s moves self.%s without emptying self.%s' % (g.qn, F, table[2])
    return True


def _table_is_read(M, m):
    """some expression of the package reads attribute m other than to store an element into it or to empty it"""
    cache = M.__dict__.setdefault('_table_read_cache', {})
    if m not in cache:
        read = False
        for g in list(M.all_funcs()) + [M.module_func(mod_) for mod_ in M.mods]:
            if g is None or read:
                continue
            skip = set()
            for n in ast.walk(g.node):
                if isinstance(n, ast.Subscript) and isinstance(n.ctx, (ast.Store, ast.Del)):
                    skip.add(id(n.value))
                elif isinstance(n, ast.Call) and isinstance(n.func, ast.Attribute) and n.func.attr == 'clear':
                    skip.add(id(n.func.value))
            for n in ast.walk(g.node):
                if isinstance(n, ast.Attribute) and n.attr == m and isinstance(n.ctx, ast.Load) and id(n) not in skip:
                    read = True
                    break
        cache[m] = read
    return cache[m]


def memo_tables(ctx, fn, ps):
    """Hand-rolled memoisation inside fn (paths ps): a dict field M of self with  hit: `K in self.M` -> return self.M[K]   miss: self.M[K] = V ; return V.
    -> {M: ('sound', K) | ('unsound', K, missing parameters) | ('other', reason)}.  Sound means: the stored value depends on parameters of fn only through
    the key (and on state nobody writes after construction), so that answering from the table equals recomputing."""
    out = {}
    params = [p_ for p_ in fn.params if p_ not in ('self', 'cls')]
    writes = {}
    tables = {}
    for i, p in enumerate(ps):
        for w in heap_writes(p):
            # the table is a field of the object, or of a helper object the object keeps in a field (self._weighting.weight_by_count)
            if w.loc[0] == 'sub' and w.how == 'assign' and w.loc[1][0] == 'attr' and holder_chain(w.loc[1]) is not None:
                writes.setdefault(w.loc[1][2], []).append((i, w))
                tables[w.loc[1][2]] = w.loc[1]
            elif w.loc[0] == 'sub' and w.how == 'assign' and w.loc[1][0] == 'attr' and w.loc[1][1][0] == 'mod':
                # a table of the module: one for the whole process, so the object asking is an input like any parameter
                writes.setdefault(w.loc[1][2], []).append((i, w))
                tables[w.loc[1][2]] = w.loc[1]
    for m, ws in writes.items():
        table = tables[m]
        module_level = table[1][0] == 'mod'
        if module_level:
            if not any(s_ == table for p in ps for t_ in ([c_ for c_, _, _ in p.conds] + ([p.value] if p.value is not None else [])) for s_ in T.subterms(t_)):
                continue
            if fn.cls is not None and not fn.is_static and 'self' not in params:
                params = params + ['self']
        elif not _table_is_read(ctx.M, m):
            continue        # entries are filed and nothing in the package ever looks one up: a record, not a memo
        holders = set(holder_chain(table)[:-1]) if not module_level else set()
        # the object the table belongs to, when it is not self (self._calendars[asset]): what selects it is not an input of the entries - another object, another table
        H_ = table[1]
        unhold = (lambda t_: T.replace(t_, lambda z: ('var', '@holder') if z == H_ else None)) if H_ != V('self') else (lambda t_: t_)
        owner = ctx.M.funcs.get(ws[0][1].fn) or next((g_ for g_ in ctx.M.all_funcs() if g_.qn == ws[0][1].fn), None)
        owner_cls = owner.cls if owner is not None and owner.cls is not None else fn.cls
        inplace = [w for p in ps for w in heap_writes(p) if w.loc[0] in ('sub', 'attr') and any(s_ == table for s_ in T.subterms(w.loc[1]))
                   and not (w.loc[0] == 'sub' and w.loc[1] == table)]
        if inplace:
            out[m] = ('other', 'entries are updated in place (a cursor, not a memo)')
            continue
        keys = {w.loc[2] for _, w in ws}
        # an entry computed from the entry an earlier call left under the same key (a position walked forward from where it was) is a cursor: what it holds
        # depends on the calls made so far by design, and whether the answers still equal a fresh lookup depends on how the code rewinds it
        walked = False
        for i, w in ws:
            reads_ = [w.value]
            if any(s_ == table for t_ in reads_ if t_ is not None for s_ in T.subterms(t_)):
                walked = True
        if walked:
            # ... provided the code rewinds it at all: a table nobody ever empties, pops from or rebinds after construction has no rewinding to get right
            def _resets(g):
                for n in ast.walk(g.node):
                    if isinstance(n, ast.Call) and isinstance(n.func, ast.Attribute) and n.func.attr in ('clear', 'pop', 'popitem') and isinstance(n.func.value, ast.Attribute) \
                            and n.func.value.attr == m:
                        return True
                    if isinstance(n, ast.Attribute) and n.attr == m and isinstance(n.ctx, (ast.Store, ast.Del)):
                        return True
                    if isinstance(n, ast.Delete) and any(isinstance(t_, ast.Subscript) and isinstance(t_.value, ast.Attribute) and t_.value.attr == m for t_ in n.targets):
                        return True
                return False
            walked = any(_resets(g) for g in ctx.M.all_funcs() if g.path == fn.path and g.name != '__init__' and not ctx.M.ctor_only(g))
        if walked:
            out[m] = ('other', 'entries are advanced from their previous value (a cursor, not a memo)')
            continue
        # several keys of one shape (the same tuple with other constants: one memo serving four fixed times of day) are judged entry by entry
        shapes = {T.tkey(T.replace(k_, lambda z: T.ZERO if z[0] in ('num', 'str', 'const') else None)) for k_ in keys}
        if len(keys) != 1 and (len(shapes) != 1 or len(keys) > 12):
            out[m] = ('other', 'several key shapes')
            continue
        K = sorted(keys, key=fmt)[0]
        verdict = None
        for i, w in ws:
            p = ps[i]
            Kw = w.loc[2]
            kparams = {s_[1] for s_ in T.subterms(Kw) if s_[0] == 'var'}
            if module_level:
                kparams = kparams - {'self'} | ({'self'} if any(k_ == V('self') for k_ in (Kw[1] if Kw[0] == 'tuple' else (Kw,))) else set())
            kparams = {s_[1] for s_ in T.subterms(T.replace(Kw, lambda z: ('str', '<class>') if (z[0] == 'call' and z[1] == ('ext', 'TYPE') and len(z[2]) == 1) else None)) if s_[0] == 'var'} \
                if not module_level else kparams
            # (type(x) / x.__class__ in a key records the class of x, nothing of its content)
            Kw_atoms = T.replace(Kw, lambda z: ('str', '<class>') if (z[0] == 'call' and z[1] == ('ext', 'TYPE') and len(z[2]) == 1) or (z[0] == 'attr' and z[2] == '__class__') else None)
            katoms = _access_atoms(Kw_atoms, params)
            wv_ = unhold(w.value) if w.value is not None else w.value
            deps = {s_[1] for s_ in T.subterms(wv_) if s_[0] == 'var' and s_[1] in params}
            for c, v_, _ in p.conds:
                if c[0] == 'cmp' and c[1] == 'in' and c[3] == table:
                    continue
                if any(s_ == ('sub', table, Kw) for s_ in T.subterms(c)):
                    continue        # the look-up of the entry itself (EAFP form)
                deps |= {s_[1] for s_ in T.subterms(unhold(c)) if s_[0] == 'var' and s_[1] in params}
            if module_level:
                deps.discard('self')        # (which of the object's fields the entry reads is judged field by field below)
            missing = sorted(deps - kparams)
            if not missing:
                # finer than whole parameters: the value reads x.year, x.month, x.day while the key holds x.dayofyear only - which parts of an object (a parameter,
                # the element of the loop the memo is filled in) the key pins down
                def root_(z):
                    while z[0] in ('attr', 'sub'):
                        z = z[1]
                    return z
                kroots = {root_(k_) for k_ in katoms}
                # (elements of loops the key does not speak about - the sources tried in turn for one answer - are not what the entry is "for")
                read_ = set(_access_atoms(wv_, params))
                if module_level:
                    # one table for every object: the fields that select the formula (path conditions) are inputs as well
                    for c, v_, _ in p.conds:
                        if not any(s_ == table for s_ in T.subterms(c)):
                            read_ |= {a_ for a_ in _access_atoms(c, params) if root_(a_) == V('self')}
                missing = sorted({fmt(a_) for a_ in read_ if (root_(a_)[0] == 'var' or root_(a_) in kroots) and not _determined(a_, katoms)})
            # (the helper objects the table hangs from are not inputs: replacing one of them replaces the table with it)
            fields = {s_[2] for s_ in T.subterms(w.value) if s_[0] == 'attr' and (self_chain(s_) is not None or (H_ != V('self') and s_[1] == H_)) and s_[2] != m and s_[2] not in holders}
            mutable = sorted(f_ for f_ in fields if owner_cls is not None and ctx.M.field_written_outside_init(owner_cls, f_))
            if module_level:
                mutable = [f_ for f_ in mutable if not _determined(('attr', V('self'), f_), katoms)]        # (a field whose current value is part of the key cannot go stale)
            if not missing:
                # tuple(d) / sorted(d) / frozenset(d) of a MAPPING holds its keys only: an entry computed from d.items() / d.values() / d[k] then depends on values
                # the key does not record
                def _keys_only(K_):
                    out_ = set()
                    for s_ in T.subterms(K_):
                        if s_[0] == 'call' and s_[1][0] == 'ext' and s_[1][1] in ('TUPLE', 'LIST', 'SORTED', 'FROZENSET', 'SET') and len(s_[2]) == 1 and s_[2][0][0] == 'var' \
                                and s_[2][0][1] in params:
                            out_.add(s_[2][0])
                    return out_
                ko_ = _keys_only(Kw)
                whole_ = {s_ for s_ in T.subterms(T.replace(Kw, lambda z: T.ZERO if (z[0] == 'call' and z[1][0] == 'ext' and z[1][1] in ('TUPLE', 'LIST', 'SORTED', 'FROZENSET', 'SET')
                                                                                       and len(z[2]) == 1 and z[2][0] in ko_) else None)) if s_ in ko_}
                as_map_ = {s_[2][0] for s_ in T.subterms(wv_) if s_[0] == 'call' and s_[1] in (('meth', 'items'), ('meth', 'values')) and len(s_[2]) == 1 and s_[2][0] in ko_}
                as_map_ |= {s_[1] for s_ in T.subterms(wv_) if s_[0] == 'sub' and s_[1] in ko_}
                lost_ = sorted(fmt(v_) for v_ in (ko_ - whole_) & as_map_)
                if lost_:
                    missing = ['%s.values() (the key holds the keys of the mapping only)' % v_ for v_ in lost_]
            if not missing:
                # the key mentions everything the entry reads - but does it CARRY it?  An argument that enters the key only through a many-to-one computation
                # (bisect(self._instants, dt), dt.floor('D'), x // n) leaves many arguments under one key: equal entries for all of them is an argument about values
                inj_ = _injective_atoms(Kw, params)
                lossy_ = sorted({fmt(a_) for a_ in _access_atoms(wv_, params) if (a_[0] == 'var' or (a_[0] in ('attr', 'sub') and a_[1][0] == 'var')) and _determined(a_, katoms)
                                 and not _determined(a_, inj_) and not (a_[0] == 'var' and a_[1] == 'self')})
                if lossy_ and not module_level:
                    # one recognisable case: the key is the position of the argument in a sorted list.  bisect_left(L, p) is constant on (l_k-1, l_k] - p == l_k still
                    # belongs to the interval BEFORE l_k - while an entry computed with the inclusive test `x <= p` changes AT l_k: the first query of that interval
                    # fixes the entry for p == l_k too (and the other way round for bisect_right with a strict test)
                    for s_ in T.subterms(Kw):
                        if s_[0] == 'call' and s_[1][0] == 'ext' and s_[1][1].split('.')[-1] in ('bisect_left', 'bisect_right', 'bisect') and len(s_[2]) == 2 and s_[2][1][0] == 'var':
                            pv_ = s_[2][1]
                            left_ = s_[1][1].endswith('bisect_left')
                            incl_ = [c_ for c_ in T.subterms(wv_) if c_[0] == 'cmp' and c_[1] == '<=' and c_[3] == pv_]
                            strict_ = [c_ for c_ in T.subterms(wv_) if c_[0] == 'cmp' and c_[1] == '<' and c_[3] == pv_]
                            if (left_ and incl_ and not strict_) or (not left_ and strict_ and not incl_):
                                verdict = ('unsound', Kw, ['%s at the boundary' % fmt(pv_)], '%s is constant on intervals closed on the %s while the entry, computed with `%s`, changes '
                                           'exactly at the other end: a query inside an interval fixes the entry that a query on its boundary is then handed'
                                           % (s_[1][1], 'right' if left_ else 'left', fmt((incl_ or strict_)[0])[:50]))
                                break
                    if verdict is None:
                        # another: the time of day of an instant says nothing about its date and vice versa.  A key made of dt.time()/hour/minute only, with an entry
                        # that reads dt.weekday()/date()/day..., files Saturday's answer under the same key as Monday's.
                        TIME_ = {'time', 'timetz', 'hour', 'minute', 'second', 'microsecond', 'nanosecond'}
                        DATE_ = {'date', 'weekday', 'isoweekday', 'dayofweek', 'day_of_week', 'day_name', 'year', 'month', 'day', 'dayofyear', 'day_of_year', 'normalize', 'toordinal',
                                 'week', 'weekofyear', 'quarter', 'is_month_end', 'is_month_start'}

                        def parts_(t_, pv_):
                            out_ = set()
                            for s_ in T.subterms(t_):
                                if s_[0] == 'call' and s_[1][0] == 'meth' and len(s_[2]) == 1 and s_[2][0] == pv_:
                                    out_.add(s_[1][1])
                                elif s_[0] == 'attr' and s_[1] == pv_:
                                    out_.add(s_[2])
                            return out_
                        for pn_ in sorted(kparams):
                            pv_ = V(pn_)
                            if any(z_ == pv_ for z_ in _injective_atoms(Kw, params)):
                                continue
                            kp_ = parts_(Kw, pv_)
                            # (tests made BEFORE the table is consulted guard hit and miss alike - "not on a weekend" - and are not inputs of the entry)
                            first_ = next((i_ for i_, (c_, _, _) in enumerate(p.conds) if any(z_ == table for z_ in T.subterms(c_))), len(p.conds))
                            vp_ = parts_(wv_, pv_) | {x_ for c_, _, _ in p.conds[first_:] if not any(z_ == table for z_ in T.subterms(c_)) for x_ in parts_(c_, pv_)}
                            bare_ = any(z_ == pv_ for z_ in T.subterms(T.replace(Kw, lambda y_: T.ZERO if (y_[0] == 'call' and y_[1][0] == 'meth' and len(y_[2]) == 1 and y_[2][0] == pv_)
                                                                                 or (y_[0] == 'attr' and y_[1] == pv_) else None)))
                            if kp_ and not bare_ and ((kp_ <= TIME_ and vp_ & DATE_) or (kp_ <= DATE_ and vp_ & TIME_ and not (kp_ & {'normalize'}))):
                                lost_part = sorted((vp_ & DATE_) if kp_ <= TIME_ else (vp_ & TIME_))
                                verdict = ('unsound', Kw, ['%s.%s' % (pn_, x_) for x_ in lost_part], 'the key holds only the %s of %s (%s), which says nothing about its %s'
                                           % ('time of day' if kp_ <= TIME_ else 'date', pn_, ', '.join(sorted(kp_)), 'date' if kp_ <= TIME_ else 'time of day'))
                                break
                    if verdict is not None:
                        break
                    verdict = ('other', 'the key %s is a many-to-one function of %s: that every %s filed under one key gives the same entry is an argument about values, not made here'
                               % (fmt(Kw)[:60], ', '.join(lossy_), '/'.join(lossy_)))
                    break
            if missing:
                pin = _generation_tag(ctx, fn, ps, table, missing)
                if pin is True:
                    missing = []
                elif pin is not None:
                    verdict = ('unsound', Kw, missing, pin)
                    break
            if missing:
                verdict = ('unsound', Kw, missing)
                break
            if mutable:
                # ... unless whoever rewrites it drops the table in the same step (clears or rebinds it, or replaces the helper object it hangs from)
                undropped = []
                for f_ in mutable:
                    for g in ctx.M.all_funcs():
                        if g.parent is not None or g.name == '__init__' or ctx.M.ctor_only(g):
                            continue
                        if owner_cls is not None and owner_cls.name.startswith('_') and g.path != owner_cls.path:
                            continue        # objects of a module-private class are handled by their own module: `frame.index = ...` elsewhere is somebody else's attribute
                        fam_ = ctx.M.owner_family(owner_cls.name) if owner_cls is not None else set()
                        stores_ = [n_ for n_ in ast.walk(g.node) if isinstance(n_, ast.Attribute) and isinstance(n_.ctx, (ast.Store, ast.Del)) and n_.attr == f_]
                        # (self.<f> = ... in a method of an unrelated class is that class's own field of the same name)
                        stores_ = [n_ for n_ in stores_ if not (isinstance(n_.value, ast.Name) and n_.value.id == 'self' and g.cls is not None and g.cls.name not in fam_)]
                        if not stores_:
                            continue
                        drops = any((isinstance(n_, ast.Attribute) and isinstance(n_.ctx, (ast.Store, ast.Del)) and n_.attr in ({m} | holders)) or
                                    (isinstance(n_, ast.Call) and isinstance(n_.func, ast.Attribute) and n_.func.attr == 'clear' and isinstance(n_.func.value, ast.Attribute)
                                     and n_.func.value.attr == m) for n_ in ast.walk(g.node))
                        if not drops:
                            undropped.append('%s writes %s' % (g.qn, f_))
                if undropped:
                    verdict = ('unsound', Kw, mutable, '%s and leaves the remembered entries, computed from the old value, in place' % '; '.join(sorted(set(undropped))[:2]))
                    break
        if verdict is None:
            # hit paths: a membership test on the same key, the table entry returned, nothing written
            hits = [p for p in ps if any(c[0] == 'cmp' and c[1] == 'in' and c[3] == table and v_ for c, v_, _ in p.conds)]
            bad = [p for p in hits if p.outcome == 'return' and any(s_[0] == 'sub' and s_[1] == table and s_[2] not in keys for s_ in T.subterms(p.value or T.ZERO))]
            verdict = ('other', 'a hit reads the table under another key') if bad else ('sound', K)
        out[m] = verdict
    return out


PURE_BUILTINS = {'sorted', 'reversed', 'list', 'tuple', 'set', 'frozenset', 'dict', 'sum', 'min', 'max', 'abs', 'round', 'len', 'zip', 'map', 'filter', 'enumerate', 'any', 'all'}
PURE_STR_METHODS = {'strip', 'lstrip', 'rstrip', 'upper', 'lower', 'replace', 'format', 'title', 'join', 'split'}
# methods that hand back a NEW object and leave the receiver alone (named tuples, strings, timestamps, pandas objects without inplace=True)
PURE_METHODS = PURE_STR_METHODS | {'_replace', '_asdict', 'copy', 'ffill', 'bfill', 'pad', 'backfill', 'fillna', 'dropna', 'sort_values', 'sort_index', 'reset_index', 'set_index',
                                   'rename', 'astype', 'normalize', 'tz_convert', 'tz_localize', 'reindex', 'drop', 'drop_duplicates', 'assign', 'shift', 'cumsum', 'cumprod',
                                   'pct_change', 'to_numpy', 'tolist', 'union', 'intersection', 'difference'}


def discarded_results(ctx, rule, prefixes, what):
    """A statement that calls a function which only RETURNS its result (sorted(xs), reversed(xs), s.strip(), ...) and throws the result away does nothing:
    whoever wrote it meant the in-place form (xs.sort()) or forgot the assignment - the data keeps its old order/content."""
    n = 0
    for fn in ctx.M.all_funcs():
        if not any(fn.path.startswith(p_) for p_ in prefixes):
            continue
        for s_ in ast.walk(fn.node):
            if isinstance(s_, ast.Expr) and isinstance(s_.value, ast.Call):
                f_ = s_.value.func
                n += 1
                if isinstance(f_, ast.Name) and f_.id in PURE_BUILTINS and ctx.M.resolve_name(fn.mod, f_.id) is None:
                    ctx.violation(rule, what, fn.site(s_), 'the result of %s(...) is discarded in %s: %s returns a new object and leaves its argument as it was' % (f_.id, fn.qn, f_.id),
                                  key='%s|discarded|%s|%s' % (rule, fn.qn, f_.id))
                elif isinstance(f_, ast.Attribute) and f_.attr in PURE_METHODS and not any(k_.arg == 'inplace' for k_ in s_.value.keywords) \
                        and not any(ctx.M.cls(t_) is not None and ctx.M.cls(t_).lookup(f_.attr) is not None for t_ in ctx.M.expr_types(fn, f_.value, ctx.M.local_env(fn))):
                    ctx.violation(rule, what, fn.site(s_), 'the result of .%s(...) is discarded in %s: it returns a new object and leaves %s as it was' % (
                        f_.attr, fn.qn, ast.unparse(f_.value)[:40]), key='%s|discarded|%s|%s' % (rule, fn.qn, f_.attr))
    ctx.holds(rule, what + ' (no discarded result of a value-returning builtin among %d call statements)' % n, None)
    # a generator expression is evaluated when it is CONSUMED.  Put away in the object's state (appended to a list held in a field, assigned to a field, kept inside a
    # tuple or record that is) it reads the objects it ranges over at whatever later time somebody iterates it - and only once.
    CONSUMERS = {'sum', 'tuple', 'list', 'set', 'frozenset', 'dict', 'sorted', 'min', 'max', 'any', 'all', 'next', 'len', 'join', 'array', 'asarray', 'fromiter', 'Series', 'DataFrame',
                 'Counter', 'deque', 'OrderedDict', 'extend', 'update', 'union', 'intersection', 'difference', 'fsum', 'prod', 'mean', 'median', 'reduce', 'Index', 'concat'}
    LAZY_WRAPPERS = {'zip', 'map', 'filter', 'enumerate', 'chain', 'islice', 'reversed', 'iter', 'starmap', 'takewhile', 'dropwhile', 'accumulate'}
    for fn in ctx.M.all_funcs():
        if fn.parent is not None or not any(fn.path.startswith(p_) for p_ in prefixes):
            continue
        pm = None
        for g in ast.walk(fn.node):
            if not isinstance(g, ast.GeneratorExp):
                continue
            if not any(isinstance(x_, (ast.Attribute, ast.Call, ast.Subscript)) for x_ in ast.walk(g.elt)):
                continue
            pm = pm or {c_: p_ for p_ in ast.walk(fn.node) for c_ in ast.iter_child_nodes(p_)}
            node, stored = g, None
            for _ in range(6):
                par = pm.get(node)
                if isinstance(par, (ast.Tuple, ast.List, ast.Set, ast.Dict, ast.keyword, ast.Starred)):
                    node = par
                    continue
                if isinstance(par, ast.Call) and node is not par.func:
                    nm = par.func.attr if isinstance(par.func, ast.Attribute) else (par.func.id if isinstance(par.func, ast.Name) else '')
                    if nm in LAZY_WRAPPERS:
                        node = par
                        continue
                    if nm in ('append', 'add', 'insert', 'appendleft', 'setdefault', 'put') and isinstance(par.func, ast.Attribute):
                        b_ = par.func.value
                        while isinstance(b_, (ast.Subscript, ast.Attribute)) and not (isinstance(b_, ast.Attribute) and isinstance(b_.value, ast.Name) and b_.value.id == 'self'):
                            b_ = b_.value
                        if isinstance(b_, ast.Attribute):
                            stored = 'put into self.%s by .%s(...)' % (b_.attr, nm)
                    break
                if isinstance(par, (ast.Assign, ast.AnnAssign)) and node is par.value:
                    for t_ in (par.targets if isinstance(par, ast.Assign) else [par.target]):
                        b_ = t_
                        while isinstance(b_, ast.Subscript):
                            b_ = b_.value
                        if isinstance(b_, ast.Attribute) and isinstance(b_.value, ast.Name) and b_.value.id == 'self':
                            stored = 'assigned to self.%s' % b_.attr
                    break
                break
            if stored:
                ctx.violation(rule, what, fn.site(g), 'the generator expression `%s` is %s unevaluated in %s: it reads %s only when somebody iterates it later (and can be iterated once)'
                              % (ast.unparse(g)[:70], stored, fn.qn, ast.unparse(g.generators[0].iter)[:40]), key='%s|lazy-generator|%s' % (rule, fn.qn))
    # the other classic: a callable created per iteration that reads the loop variable when it is finally CALLED.  Collected into a list (or built by an eager
    # comprehension) and applied after the loop, every one of them sees the last element.
    stale_derived_values(ctx, rule, prefixes, what)
    kept_figures(ctx, rule, prefixes, what)
    from .rules.c16 import late_bound_in
    fns = [fn for fn in ctx.M.all_funcs() if fn.parent is None and any(fn.path.startswith(p_) for p_ in prefixes)]
    # parallel lists walked in step: zip(assets, costs) pairs by POSITION.  costs = [f(a) for a in assets if keep(a)] is shorter than assets and, from the first element
    # filtered out on, every cost is paired with the wrong asset (zip stops at the shorter list without a word)
    for fn in fns:
        comps_ = {}
        for n_ in ast.walk(fn.node):
            if isinstance(n_, ast.Assign) and len(n_.targets) == 1 and isinstance(n_.targets[0], ast.Name) and isinstance(n_.value, (ast.ListComp, ast.GeneratorExp)) \
                    and len(n_.value.generators) == 1:
                comps_.setdefault(n_.targets[0].id, []).append(n_.value.generators[0])
        for n_ in ast.walk(fn.node):
            if isinstance(n_, ast.Call) and isinstance(n_.func, ast.Name) and n_.func.id == 'zip' and len(n_.args) >= 2 and all(isinstance(a_, ast.Name) for a_ in n_.args):
                names_ = [a_.id for a_ in n_.args]
                for a_ in names_:
                    gens_ = comps_.get(a_, [])
                    if len(gens_) == 1 and gens_[0].ifs:
                        src_names = {x_.id for x_ in ast.walk(gens_[0].iter) if isinstance(x_, ast.Name)}
                        others_ = [b_ for b_ in names_ if b_ != a_ and b_ in src_names]
                        if others_:
                            ctx.violation(rule, what, fn.site(n_), 'READ!: `%s` pairs %s with %s by position, but %s was built from %s with the filter `if %s`: it is shorter, and from the first '
                                          'element filtered out on every pair is misaligned' % (ast.unparse(n_)[:70], a_, ', '.join(others_), a_, ', '.join(others_),
                                                                                               ast.unparse(gens_[0].ifs[0])[:50]), key='%s|misaligned-zip|%s' % (rule, fn.qn))
                            break
    # partial(f, arg=Queue()) evaluates Queue() ONCE, when the partial is made: kept as a factory (in a field, a module name) and called for every new object, it hands
    # each of them the same queue / list / dict
    MUT_CTORS = {'Queue', 'LifoQueue', 'PriorityQueue', 'SimpleQueue', 'deque', 'list', 'dict', 'set', 'OrderedDict', 'defaultdict', 'Counter', 'bytearray'}
    for fn in fns:
        for n_ in ast.walk(fn.node):
            if isinstance(n_, ast.Assign) and isinstance(n_.value, ast.Call) and ast.unparse(n_.value.func).split('.')[-1] == 'partial' \
                    and any(isinstance(t_, ast.Attribute) for t_ in n_.targets):
                bound_ = list(n_.value.args[1:]) + [k_.value for k_ in n_.value.keywords]
                shared_ = [a_ for a_ in bound_ if isinstance(a_, (ast.List, ast.Dict, ast.Set)) or
                           (isinstance(a_, ast.Call) and ast.unparse(a_.func).split('.')[-1] in MUT_CTORS and not a_.args and not a_.keywords)]
                if shared_:
                    ctx.violation(rule, what, fn.site(n_), 'READ!: `%s` builds %s once, when the partial is made: every object the factory %s creates afterwards is handed that same object'
                                  % (ast.unparse(n_.value)[:80], ast.unparse(shared_[0])[:30], ast.unparse(n_.targets[0])[:40]), key='%s|shared-argument|%s' % (rule, fn.qn))
    # any(x.step() for x in xs) / all(...) over a GENERATOR stops at the first answer that settles it: where step() changes its object, the objects after that one are
    # never stepped.  (Over a list - any([x.step() for x in xs]) - every step runs before any() looks.)
    from .symex import _writes_self
    for fn in fns:
        for n_ in ast.walk(fn.node):
            if isinstance(n_, ast.Call) and isinstance(n_.func, ast.Name) and n_.func.id in ('any', 'all') and len(n_.args) == 1 and isinstance(n_.args[0], ast.GeneratorExp):
                for c_ in ast.walk(n_.args[0].elt):
                    if isinstance(c_, ast.Call) and isinstance(c_.func, ast.Attribute):
                        tg_ = [g_ for g_ in ctx.M.cha(c_.func.attr) if not g_.is_property]
                        if tg_ and all(_writes_self(g_) for g_ in tg_):
                            ctx.violation(rule, what, fn.site(n_), 'READ: %s(...) over a generator stops at the first element that settles the answer, and %s, which changes its object, is then '
                                          'never called on the remaining ones (`%s` in %s)' % (n_.func.id, c_.func.attr, ast.unparse(n_)[:80], fn.qn),
                                          key='%s|short-circuit|%s' % (rule, fn.qn))
                            break
    single_step_cursors(ctx, rule, fns, what)
    swapped_arguments(ctx, rule, fns, what)
    keys_only_memo_keys(ctx, rule, fns, what)
    branch_selected_memo_values(ctx, rule, fns, what)
    for site_, names_, src_ in late_bound_in(fns, with_yield=False):
        ctx.violation(rule, what, site_, 'the deferred step `%s` reads the loop variable%s %s at call time, i.e. after the loop has moved on: every collected callable works on the last element'
                      % (src_[:70], 's' if len(names_) > 1 else '', ', '.join(names_)), key='%s|late-binding|%s' % (rule, site_.split(':')[0]))


def _unconstrained_question(M, fn, seen=None):
    """True when nothing bounds how far the question put to `fn` moves between two calls: fn is public API, or a caller hands its own parameter straight through and is
    itself unconstrained, or a call site sits under a condition inside a loop (iterations are skipped) - returns a short reason, else None."""
    seen = seen or set()
    if fn.qn in seen:
        return None
    seen.add(fn.qn)
    name = fn.qn.split('.')[-1]
    if not name.startswith('_'):
        return '%s is public: any instant may follow any other' % fn.qn
    for caller, call in calls_named(M, name):
        if caller is fn:
            continue
        pm = parent_map(caller.node)
        n_, cond = call, None
        while n_ in pm:
            par = pm[n_]
            if isinstance(par, ast.If) and n_ is not par.test:
                cond = cond or 'if %s' % ast.unparse(par.test)[:50]
            elif isinstance(par, ast.IfExp) and n_ is not par.test:
                cond = cond or 'if %s' % ast.unparse(par.test)[:50]
            elif isinstance(par, ast.BoolOp) and n_ is not par.values[0]:
                cond = cond or 'after `%s %s`' % (ast.unparse(par.values[0])[:40], 'and' if isinstance(par.op, ast.And) else 'or')
            if isinstance(par, (ast.For, ast.While)) and n_ in par.body:
                # ... or an earlier statement of the loop body leaves the iteration (if ...: continue)
                for st_ in par.body[:par.body.index(n_)]:
                    if isinstance(st_, ast.If) and any(isinstance(x_, ast.Continue) for x_ in ast.walk(st_)):
                        cond = cond or 'unless `%s` (continue)' % ast.unparse(st_.test)[:50]
                if cond is not None:
                    return 'the call in %s is made only %s inside its loop, so events go by without a call' % (caller.qn, cond)
            n_ = par
        r_ = _unconstrained_question(M, caller, seen)
        if r_ is not None and any(isinstance(a_, ast.Name) and a_.id in {x_.arg for x_ in caller.node.args.args} for a_ in call.args):
            return 'reached from %s with its own argument; %s' % (caller.qn, r_)
    return None


def single_step_cursors(ctx, rule, fns, what):
    """A cursor kept between calls (self._cursor into a sorted list, self._session drawn from a generator) and brought up to date with ONE conditional step -
    `if seq[cursor] < dt: cursor += 1` - is right only while no two entries go by between consecutive questions.  Where nothing bounds the question (public method, a
    call that is skipped under a condition) the catch-up has to be a loop (`while`): after a longer gap the cursor rests on an entry that has already gone by."""
    n = 0
    ORD = (ast.Lt, ast.LtE, ast.Gt, ast.GtE)
    for fn in fns:
        if not isinstance(fn.node, (ast.FunctionDef,)) or not fn.node.args.args or fn.node.args.args[0].arg != 'self':
            continue
        params = {a_.arg for a_ in fn.node.args.args[1:]}
        if not params:
            continue
        # locals that stand for a field: c = self.X ... self.X = c
        alias = {}
        for s_ in ast.walk(fn.node):
            if isinstance(s_, ast.Assign) and len(s_.targets) == 1:
                t_, v_ = s_.targets[0], s_.value
                if isinstance(t_, ast.Name) and isinstance(v_, ast.Attribute) and isinstance(v_.value, ast.Name) and v_.value.id == 'self':
                    alias.setdefault(t_.id, [None, None])[0] = v_.attr
                if isinstance(v_, ast.Name) and isinstance(t_, ast.Attribute) and isinstance(t_.value, ast.Name) and t_.value.id == 'self':
                    alias.setdefault(v_.id, [None, None])[1] = t_.attr
        persisted = {k_: v_[0] for k_, v_ in alias.items() if v_[0] is not None and v_[0] == v_[1]}

        def cursor_of(t_):
            if isinstance(t_, ast.Name) and t_.id in persisted:
                return t_.id, 'self.' + persisted[t_.id]
            if isinstance(t_, ast.Attribute) and isinstance(t_.value, ast.Name) and t_.value.id == 'self':
                return 'self.' + t_.attr, 'self.' + t_.attr
            return None
        pm = parent_map(fn.node)
        for s_ in ast.walk(fn.node):
            if not isinstance(s_, ast.If) or s_.orelse:
                continue
            n_, looped = s_, False
            while n_ in pm:
                n_ = pm[n_]
                if isinstance(n_, (ast.For, ast.While, ast.AsyncFor)):
                    looped = True
            if looped:
                continue
            adv = None
            for b_ in s_.body:
                if isinstance(b_, ast.AugAssign) and isinstance(b_.op, ast.Add) and isinstance(b_.value, ast.Constant) and b_.value.value == 1:
                    adv = cursor_of(b_.target) and (cursor_of(b_.target), 'index')
                elif isinstance(b_, ast.Assign) and len(b_.targets) == 1 and isinstance(b_.value, ast.Call) and isinstance(b_.value.func, ast.Name) and b_.value.func.id == 'next' \
                        and b_.value.args and cursor_of(b_.value.args[0]) and cursor_of(b_.targets[0]) and cursor_of(b_.targets[0])[1].startswith('self.'):
                    adv = (cursor_of(b_.targets[0]), 'drawn')
                if adv:
                    break
            if not adv:
                continue
            (cname, fld), kind = adv
            n += 1
            hit = None
            for c_ in ast.walk(s_.test):
                if not isinstance(c_, ast.Compare) or len(c_.ops) != 1 or not isinstance(c_.ops[0], ORD):
                    continue
                sides = [c_.left, c_.comparators[0]]
                for a_, b_ in (sides, sides[::-1]):
                    if kind == 'index':
                        through = any(isinstance(x_, ast.Subscript) and ast.unparse(x_.slice) == cname for x_ in ast.walk(a_))
                    else:
                        through = any(isinstance(x_, ast.Attribute) and ast.unparse(x_.value) == cname for x_ in ast.walk(a_))
                    asks = any(isinstance(x_, ast.Name) and x_.id in params for x_ in ast.walk(b_)) and not any(isinstance(x_, ast.Subscript) and ast.unparse(x_.slice) == cname for x_ in ast.walk(b_))
                    if through and asks:
                        hit = c_
            if hit is None:
                continue
            why = _unconstrained_question(ctx.M, fn)
            if why is None:
                ctx.note('%s: %s advances the kept cursor %s by one conditional step (`if %s`); every caller puts its questions unconditionally, left to the rules about the loop'
                         % (rule, fn.qn, fld, ast.unparse(s_.test)[:60]))
                continue
            ctx.violation(rule, what, fn.site(s_), 'READ!: %s brings the cursor %s, which is kept between calls, up to date with a single step (`if %s: %s`) where a loop is needed: %s, '
                          'and after a gap of two or more entries the cursor rests on an entry that has already gone by (`while` catches up)'
                          % (fn.qn, fld, ast.unparse(s_.test)[:70], ast.unparse(s_.body[0])[:40], why), key='%s|single-step-cursor|%s' % (rule, fn.qn))
    # ... and the mirror image: a cursor that is only ever walked FORWARD (`while seq[self._cursor] <= dt: self._cursor += 1`) answers a question earlier than a previous one
    # from where it stands - unless some statement puts it back when the question moves backwards (`if dt < self._last_dt: self._cursor = 0`)
    for fn in fns:
        if not isinstance(fn.node, (ast.FunctionDef,)) or not fn.node.args.args or fn.node.args.args[0].arg != 'self' or fn.cls is None:
            continue
        params = {a_.arg for a_ in fn.node.args.args[1:]}
        for w_ in ast.walk(fn.node):
            if not isinstance(w_, ast.While):
                continue
            adv = [b_ for b_ in ast.walk(w_) if isinstance(b_, ast.AugAssign) and isinstance(b_.op, ast.Add) and isinstance(b_.target, ast.Attribute)
                   and isinstance(b_.target.value, ast.Name) and b_.target.value.id == 'self']
            if len(adv) != 1:
                continue
            fld = adv[0].target.attr
            cur = 'self.' + fld
            asks = None
            for c_ in ast.walk(w_.test):
                if isinstance(c_, ast.Compare) and len(c_.ops) == 1 and isinstance(c_.ops[0], ORD):
                    sides = [c_.left, c_.comparators[0]]
                    for a_, b_ in (sides, sides[::-1]):
                        if any(isinstance(x_, ast.Subscript) and ast.unparse(x_.slice) == cur for x_ in ast.walk(a_)) and \
                                any(isinstance(x_, ast.Name) and x_.id in params for x_ in ast.walk(b_)) and not any(isinstance(x_, ast.Attribute) for x_ in ast.walk(b_)):
                            asks = [x_.id for x_ in ast.walk(b_) if isinstance(x_, ast.Name) and x_.id in params][0]
            if asks is None:
                continue
            n += 1
            # every store into the cursor, anywhere in the class, other than the advance itself and the constructor
            rewound = False
            stores = 0
            for m in fn.cls.methods.values():
                for i_ in ast.walk(m.node):
                    if isinstance(i_, ast.Assign) and any(isinstance(t_, ast.Attribute) and t_.attr == fld and isinstance(t_.value, ast.Name) and t_.value.id == 'self' for t_ in i_.targets):
                        stores += m.name != '__init__'
                    if isinstance(i_, ast.If):
                        mps = {a_.arg for a_ in m.node.args.args[1:]}
                        tests_q = any(isinstance(x_, ast.Name) and x_.id in mps for x_ in ast.walk(i_.test)) and any(isinstance(x_, ast.Attribute) and isinstance(x_.value, ast.Name) and x_.value.id == 'self' for x_ in ast.walk(i_.test)) \
                            and any(isinstance(x_, ast.Compare) and any(isinstance(o_, ORD) for o_ in x_.ops) for x_ in ast.walk(i_.test))
                        if tests_q:
                            for b_ in i_.body + i_.orelse:
                                for k in ast.walk(b_):
                                    if isinstance(k, ast.Assign) and any(isinstance(t_, ast.Attribute) and t_.attr == fld for t_ in k.targets):
                                        rewound = True
                                    if isinstance(k, ast.Call) and isinstance(k.func, ast.Attribute) and isinstance(k.func.value, ast.Name) and k.func.value.id == 'self':
                                        h_ = fn.cls.methods.get(k.func.attr)
                                        if h_ is not None and any(isinstance(a2_, ast.Assign) and any(isinstance(t_, ast.Attribute) and t_.attr == fld for t_ in a2_.targets) for a2_ in ast.walk(h_.node)):
                                            rewound = True
            if rewound:
                continue
            why = _unconstrained_question(ctx.M, fn)
            if why is None:
                continue
            ctx.violation(rule, what, fn.site(w_), 'READ!: %s walks the cursor %s, which is kept between calls, forward while `%s` and nothing in %s puts it back when `%s` is earlier than '
                          'a previous question (no store into %s under a comparison of the question with kept state): %s, and an earlier question is answered from where the later one left the cursor'
                          % (fn.qn, cur, ast.unparse(w_.test)[:70], fn.cls.name, asks, cur, why), key='%s|forward-only-cursor|%s' % (rule, fn.qn))
    ctx.holds(rule, what + ' (no kept cursor caught up by a single conditional step, or walked forward only, under an unbounded question; %d advances looked at)' % n, None)


def validated_against_question(M, fn, fields, depth=2):
    """True when fn (or a method of its own object that it calls, to `depth`) compares something read from the kept fields `fields` with one of its own parameters
    (`cached[0].equals(returns)`, `dt < self._last_dt`, `len(assets) != len(cache)`): kept state whose use is checked against the question is not, by its presence alone,
    dependence on history - whether the check is sufficient is a separate question.  `x is None` tests do not count."""
    fields = set(fields)
    seen = set()

    def scan(g, d):
        if g is None or g.qn in seen:
            return False
        seen.add(g.qn)
        params = {a_.arg for a_ in g.node.args.args if a_.arg != 'self'} | {a_.arg for a_ in g.node.args.kwonlyargs}
        alias = set()
        params_derived = set(params)
        for _ in range(3):
            for s_ in ast.walk(g.node):
                if isinstance(s_, ast.Assign):
                    names_ = {t_.id for t_ in s_.targets if isinstance(t_, ast.Name)} | {e_.id for t_ in s_.targets if isinstance(t_, ast.Tuple) for e_ in t_.elts if isinstance(e_, ast.Name)}
                    if not names_:
                        continue
                    if any((isinstance(x_, ast.Attribute) and isinstance(x_.value, ast.Name) and x_.value.id == 'self' and x_.attr in fields) or
                           (isinstance(x_, ast.Name) and x_.id in alias) for x_ in ast.walk(s_.value)):
                        alias |= names_
                    elif any(isinstance(x_, ast.Name) and x_.id in params_derived for x_ in ast.walk(s_.value)):
                        params_derived |= names_

        def kept(e_):
            return any((isinstance(x_, ast.Attribute) and isinstance(x_.value, ast.Name) and x_.value.id == 'self' and x_.attr in fields) or
                       (isinstance(x_, ast.Name) and x_.id in alias) for x_ in ast.walk(e_))

        def asked(e_):
            return any(isinstance(x_, ast.Name) and x_.id in params_derived and x_.id not in alias for x_ in ast.walk(e_))
        for c_ in ast.walk(g.node):
            if isinstance(c_, ast.Compare):
                sides = [c_.left] + list(c_.comparators)
                if any(isinstance(x_, ast.Constant) and x_.value is None for x_ in sides):
                    continue
                if any(isinstance(o_, (ast.In, ast.NotIn)) for o_ in c_.ops):
                    # `key in table` is the look-up itself, not a comparison of what was kept with the question
                    continue
                if any(kept(a_) for a_ in sides) and any(asked(b_) and not kept(b_) for b_ in sides):
                    return True
            if isinstance(c_, ast.Call) and isinstance(c_.func, ast.Attribute) and c_.func.attr in ('equals', 'array_equal', 'identical') and c_.args:
                if (kept(c_.func.value) and asked(c_.args[0])) or (asked(c_.func.value) and kept(c_.args[0])):
                    return True
        if d > 0 and g.cls is not None:
            for c_ in ast.walk(g.node):
                if isinstance(c_, ast.Call) and isinstance(c_.func, ast.Attribute) and isinstance(c_.func.value, ast.Name) and c_.func.value.id == 'self':
                    h = g.cls.lookup(c_.func.attr) if hasattr(g.cls, 'lookup') else None
                    if h is not None and not getattr(h, 'is_property', False) and scan(h, d - 1):
                        return True
        return False
    return scan(fn, depth)


def _conditionally_dropped_by_caller(M, c, fn, D):
    """Some method of class c calls fn (self.fn(...)) and, in the same body, resets self.D (to None / del) inside an `if` whose test reads one of that method's own
    parameters: a selective invalidation, right or wrong by what the condition lets through."""
    name = fn.qn.split('.')[-1]
    for m in c.methods.values():
        if m is fn:
            continue
        calls = any(isinstance(k, ast.Call) and isinstance(k.func, ast.Attribute) and k.func.attr == name and isinstance(k.func.value, ast.Name) and k.func.value.id == 'self'
                    for k in ast.walk(m.node))
        if not calls:
            continue
        params = {a_.arg for a_ in m.node.args.args if a_.arg != 'self'}
        for i_ in ast.walk(m.node):
            if isinstance(i_, ast.If) and any(isinstance(x_, ast.Name) and x_.id in params for x_ in ast.walk(i_.test)):
                for b_ in i_.body:
                    for k in ast.walk(b_):
                        if isinstance(k, ast.Assign) and any(isinstance(t_, ast.Attribute) and t_.attr == D and isinstance(t_.value, ast.Name) and t_.value.id == 'self' for t_ in k.targets) \
                                and isinstance(k.value, ast.Constant) and k.value.value is None:
                            return True
                        if isinstance(k, ast.Delete) and any(isinstance(t_, ast.Attribute) and t_.attr == D for t_ in k.targets):
                            return True
    return False


def _stored_without(fn, table, missing):
    """Every `self.<table>[k] = v` of fn's class sits in a method other than fn whose parameters include none of `missing` (plain parameter names of fn)."""
    own = {a_.arg for a_ in fn.node.args.args}
    missing = [str(x_) for x_ in missing]
    if not missing or not all(x_ in own for x_ in missing):
        return False
    sites = []
    for m in fn.cls.methods.values():
        for k in ast.walk(m.node):
            if isinstance(k, ast.Assign) and any(isinstance(t_, ast.Subscript) and isinstance(t_.value, ast.Attribute) and t_.value.attr == table and
                                                 isinstance(t_.value.value, ast.Name) and t_.value.value.id == 'self' for t_ in k.targets):
                sites.append(m)
    return bool(sites) and all(m is not fn and not ({a_.arg for a_ in m.node.args.args} & set(missing)) for m in sites)


def swapped_arguments(ctx, rule, fns, what):
    """Positional arguments are bound by POSITION: f(self.pre_market, self.post_market) against def f(post_market, pre_market) hands each flag to the other's parameter.
    Reported only for an exact swap - two arguments each named (variable or attribute name) exactly like the OTHER one's parameter - at a call every resolved target of
    which shows the same swap."""
    n = 0

    def nm(e_):
        if isinstance(e_, ast.Name):
            return e_.id.lstrip('_')
        if isinstance(e_, ast.Attribute):
            return e_.attr.lstrip('_')
        return None
    for fn in fns:
        env = None
        for call in ast.walk(fn.node):
            if not isinstance(call, ast.Call) or len(call.args) < 2 or any(isinstance(a_, ast.Starred) for a_ in call.args):
                continue
            names = [nm(a_) for a_ in call.args]
            if sum(1 for x_ in names if x_) < 2:
                continue
            try:
                env = env if env is not None else ctx.M.local_env(fn)
                tgts, _how, _layer = ctx.M.resolve_call(fn, call, env)
            except Exception:
                continue
            tgts = [t_ for t_ in (tgts or []) if hasattr(t_, 'node') and isinstance(t_.node, (ast.FunctionDef,))]
            if not tgts:
                continue
            n += 1
            found = None
            for t_ in tgts:
                ps_ = [a_.arg for a_ in t_.node.args.args]
                bound = isinstance(call.func, ast.Attribute) or t_.name == '__init__'
                if ps_ and ps_[0] in ('self', 'cls') and (bound or t_.cls is not None):
                    ps_ = ps_[1:]
                ps_ = [x_.lstrip('_') for x_ in ps_]
                sw = None
                for i_ in range(min(len(names), len(ps_))):
                    for j_ in range(i_ + 1, min(len(names), len(ps_))):
                        if names[i_] and names[j_] and names[i_] != names[j_] and names[i_] == ps_[j_] and names[j_] == ps_[i_]:
                            sw = (i_, j_, ps_[i_], ps_[j_], t_.qn)
                if sw is None:
                    found = None
                    break
                found = sw
            if found:
                i_, j_, pi_, pj_, qn_ = found
                ctx.violation(rule, what, fn.site(call), 'READ!: `%s` in %s passes %s and %s by position to %s, whose parameters at those positions are (%s, %s): each value is bound to the '
                              'other one\'s parameter' % (ast.unparse(call)[:80], fn.qn, ast.unparse(call.args[i_])[:30], ast.unparse(call.args[j_])[:30], qn_, pi_, pj_),
                              key='%s|swapped-arguments|%s|%s' % (rule, fn.qn, qn_))
    ctx.holds(rule, what + ' (no call binds two positional arguments to each other\'s parameter; %d resolved calls with named arguments looked at)' % n, None)


def _reads_dict_values(cls, m, pname, depth=2, seen=None):
    """m reads the VALUES of its parameter pname as a mapping (pname.values() / .items() / pname[k] / .get(k)), itself or by handing it whole to another method of the object."""
    seen = seen if seen is not None else set()
    if m is None or (m.qn, pname) in seen:
        return False
    seen.add((m.qn, pname))
    for k in ast.walk(m.node):
        if isinstance(k, ast.Call) and isinstance(k.func, ast.Attribute) and k.func.attr in ('values', 'items', 'get') and isinstance(k.func.value, ast.Name) and k.func.value.id == pname:
            return True
        if isinstance(k, ast.Subscript) and isinstance(k.value, ast.Name) and k.value.id == pname and isinstance(k.ctx, ast.Load):
            return True
    if depth > 0 and cls is not None:
        for k in ast.walk(m.node):
            if isinstance(k, ast.Call) and isinstance(k.func, ast.Attribute) and isinstance(k.func.value, ast.Name) and k.func.value.id == 'self':
                h = cls.methods.get(k.func.attr)
                if h is None:
                    continue
                hp = [a_.arg for a_ in h.node.args.args][1:]
                for i_, a_ in enumerate(k.args):
                    if isinstance(a_, ast.Name) and a_.id == pname and i_ < len(hp) and _reads_dict_values(cls, h, hp[i_], depth - 1, seen):
                        return True
    return False


def keys_only_memo_keys(ctx, rule, fns, what):
    """Iterating a mapping yields its KEYS: tuple(sorted(weights)) names the assets and forgets the weights.  A remembered answer that is reused when such a key equals the
    stored one (key == self._last_key, key in self._table), in a method whose answer is computed from the mapping's values, is handed out again for different values."""
    n = 0
    WRAP = {'tuple', 'sorted', 'frozenset', 'list', 'set'}
    for fn in fns:
        if not isinstance(fn.node, ast.FunctionDef) or fn.cls is None or not fn.node.args.args or fn.node.args.args[0].arg != 'self':
            continue
        params = {a_.arg for a_ in fn.node.args.args[1:]}
        for asg in ast.walk(fn.node):
            if not (isinstance(asg, ast.Assign) and len(asg.targets) == 1 and isinstance(asg.targets[0], ast.Name)):
                continue
            K = asg.targets[0].id
            bare = None
            for c_ in ast.walk(asg.value):
                if isinstance(c_, ast.Call) and isinstance(c_.func, ast.Name) and c_.func.id in WRAP and len(c_.args) >= 1 and isinstance(c_.args[0], ast.Name) and c_.args[0].id in params:
                    bare = c_.args[0].id
            if bare is None:
                continue
            if any(isinstance(c_, ast.Attribute) and c_.attr in ('items', 'values') and isinstance(c_.value, ast.Name) and c_.value.id == bare for c_ in ast.walk(asg.value)):
                continue
            # the key is compared with kept state / looked up in a kept table
            used = None
            for c_ in ast.walk(fn.node):
                if isinstance(c_, ast.Compare) and len(c_.ops) == 1 and isinstance(c_.ops[0], (ast.Eq, ast.NotEq, ast.In, ast.NotIn)):
                    sides = [c_.left, c_.comparators[0]]
                    if any(isinstance(x_, ast.Name) and x_.id == K for x_ in sides) and \
                            any(isinstance(x_, ast.Attribute) and isinstance(x_.value, ast.Name) and x_.value.id == 'self' for x_ in sides):
                        used = c_
            if used is None:
                continue
            n += 1
            if not _reads_dict_values(fn.cls, fn, bare):
                continue
            ctx.violation(rule, what, fn.site(asg), 'READ!: %s reuses a remembered answer when `%s`, but `%s = %s` runs over the KEYS of the mapping %s only, while the answer is computed from its values '
                          '(%s.values()/.items()/[...] is read): the same keys with other values are handed the earlier answer' % (fn.qn, ast.unparse(used)[:60], K, ast.unparse(asg.value)[:60], bare, bare),
                          key='%s|keys-only-key|%s' % (rule, fn.qn))
    # the same for a key that takes only the LENGTH of a collection handed in (a parameter, a local - not the object's own append-only log), while the remembered answer
    # is built from its elements: another collection of the same length is handed the earlier answer
    for fn in fns:
        if not isinstance(fn.node, ast.FunctionDef) or fn.cls is None or not fn.node.args.args or fn.node.args.args[0].arg != 'self':
            continue
        for asg in ast.walk(fn.node):
            if not (isinstance(asg, ast.Assign) and len(asg.targets) == 1 and isinstance(asg.targets[0], ast.Name)):
                continue
            K = asg.targets[0].id
            lens = [c_.args[0].id for c_ in ast.walk(asg.value) if isinstance(c_, ast.Call) and isinstance(c_.func, ast.Name) and c_.func.id == 'len' and len(c_.args) == 1 and isinstance(c_.args[0], ast.Name)]
            if not lens or not isinstance(asg.value, ast.Tuple):
                continue
            inside_len = {id(c_.args[0]) for c_ in ast.walk(asg.value) if isinstance(c_, ast.Call) and isinstance(c_.func, ast.Name) and c_.func.id == 'len' and c_.args}
            used = None
            for c_ in ast.walk(fn.node):
                if isinstance(c_, ast.Compare) and len(c_.ops) == 1 and isinstance(c_.ops[0], (ast.Eq, ast.NotEq, ast.In, ast.NotIn)):
                    sides = [c_.left, c_.comparators[0]]
                    if any(isinstance(x_, ast.Name) and x_.id == K for x_ in sides) and \
                            any(isinstance(x_, ast.Attribute) and isinstance(x_.value, ast.Name) and x_.value.id == 'self' for x_ in sides):
                        used = c_
            if used is None:
                continue
            for X in lens:
                if any(isinstance(x_, ast.Name) and x_.id == X and id(x_) not in inside_len for x_ in ast.walk(asg.value)):
                    continue
                n += 1
                kept = [a_ for a_ in ast.walk(fn.node) if isinstance(a_, ast.Assign) and a_ is not asg and
                        any(isinstance(t_, ast.Attribute) and isinstance(t_.value, ast.Name) and t_.value.id == 'self' for t_ in a_.targets) and
                        any(isinstance(x_, ast.Name) and x_.id == X and not (isinstance(pm_.get(x_), ast.Call) and getattr(pm_.get(x_).func, 'id', '') == 'len')
                            for pm_ in [parent_map(a_.value)] for x_ in ast.walk(a_.value))]
                if kept:
                    ctx.violation(rule, what, fn.site(asg), 'READ!: %s reuses a remembered answer when `%s`, but `%s = %s` takes only the length of %s, while what is remembered is built from its '
                                  'elements (`%s`): another %s of the same length is handed the earlier answer' % (fn.qn, ast.unparse(used)[:60], K, ast.unparse(asg.value)[:70], X,
                                                                                                                     ast.unparse(kept[0])[:70], X), key='%s|length-only-key|%s' % (rule, fn.qn))
    ctx.holds(rule, what + ' (no remembered answer reused under a key that runs over the keys of a mapping, or takes only the length of a collection, whose content the answer depends on; %d such keys looked at)' % n, None)


def branch_selected_memo_values(ctx, rule, fns, what):
    """T[key] = v; ... return T[key]: where v is CHOSEN by a test on something the key does not carry (`price = bid_ask[1] if order.direction > 0 else bid_ask[0]`, filed under
    order.asset), the entry filed for one answer of the test is handed out for the other."""
    n = 0
    for fn in fns:
        if not isinstance(fn.node, ast.FunctionDef):
            continue
        params = {a_.arg for a_ in fn.node.args.args} - {'self', 'cls'}
        if not params:
            continue
        local_asg = {}
        for a_ in ast.walk(fn.node):
            if isinstance(a_, ast.Assign) and len(a_.targets) == 1 and isinstance(a_.targets[0], ast.Name):
                local_asg.setdefault(a_.targets[0].id, []).append(a_)
        for st in ast.walk(fn.node):
            if not (isinstance(st, ast.Assign) and len(st.targets) == 1 and isinstance(st.targets[0], ast.Subscript)):
                continue
            tbl = st.targets[0].value
            if not (isinstance(tbl, ast.Name) or (isinstance(tbl, ast.Attribute) and isinstance(tbl.value, ast.Name) and tbl.value.id == 'self')):
                continue
            ttxt = ast.unparse(tbl)
            key = st.targets[0].slice
            ktxt = ast.unparse(key)
            if isinstance(key, ast.Name) and len(local_asg.get(key.id, [])) == 1:
                ktxt = ast.unparse(local_asg[key.id][0].value)
            # the same table is answered from under the same key in this function
            hit = any((isinstance(r_, ast.Subscript) and isinstance(r_.ctx, ast.Load) and ast.unparse(r_.value) == ttxt and ast.unparse(r_.slice) == ast.unparse(key)) or
                      (isinstance(r_, ast.Compare) and len(r_.ops) == 1 and isinstance(r_.ops[0], (ast.In, ast.NotIn)) and ast.unparse(r_.comparators[0]) == ttxt and ast.unparse(r_.left) == ast.unparse(key))
                      for r_ in ast.walk(fn.node))
            if not hit:
                continue
            n += 1
            tests = []
            if isinstance(st.value, ast.IfExp):
                tests.append(st.value.test)
            elif isinstance(st.value, ast.Name):
                v = st.value.id
                for a_ in local_asg.get(v, []):
                    if isinstance(a_.value, ast.IfExp):
                        tests.append(a_.value.test)
                for i_ in ast.walk(fn.node):
                    if isinstance(i_, ast.If) and i_.orelse and any(a_ in i_.body for a_ in local_asg.get(v, [])) and any(a_ in i_.orelse for a_ in local_asg.get(v, [])):
                        tests.append(i_.test)
            for t_ in tests:
                atoms = []
                for x_ in ast.walk(t_):
                    if isinstance(x_, ast.Attribute):
                        b_ = x_
                        while isinstance(b_, ast.Attribute):
                            b_ = b_.value
                        if isinstance(b_, ast.Name) and b_.id in params:
                            atoms.append(ast.unparse(x_))
                    elif isinstance(x_, ast.Name) and x_.id in params:
                        atoms.append(x_.id)
                atoms = [a_ for a_ in atoms if not any(a_ != o_ and o_.startswith(a_ + '.') for o_ in atoms)]
                left = [a_ for a_ in atoms if a_ not in ktxt]
                if left:
                    ctx.violation(rule, what, fn.site(st), 'READ!: %s files `%s` under the key `%s` and answers later questions from there, but the value filed was chosen by the test `%s`, '
                                  'which reads %s - not part of the key: an entry filed for one outcome of the test is handed out for the other'
                                  % (fn.qn, ast.unparse(st.value)[:50], ktxt[:50], ast.unparse(t_)[:50], ', '.join(sorted(set(left)))), key='%s|branch-selected-entry|%s' % (rule, fn.qn))
                    break
    ctx.holds(rule, what + ' (no table entry chosen by a test on something its key leaves out; %d filed-and-answered tables looked at)' % n, None)


def unread_atoms(M, got, expected=None, fn=None):
    """Parts of a computed term that were not reduced to the stored fields a formula rule speaks about: calls of package functions left un-inlined, callables
    applied opaquely, and attributes that are *properties* of some package class (a stored derived figure, a projection the engine could not see through).
    A formula that differs from the expected one only through such parts has not been read; one that differs in plain fields and arithmetic has, and deviates."""
    exp_sub = set()
    if expected is not None:
        for e_ in (expected if isinstance(expected, (list, set)) else [expected]):
            exp_sub |= {T.tkey(s_) for s_ in T.subterms(e_)}
    props = getattr(M, '_prop_names', None)
    if props is None:
        props = {n_ for c_ in M.classes.values() for n_, m_ in c_.methods.items() if m_.is_property}
        # a name that is a plain stored field of some class as well (Transaction.direction next to the property Position.direction) is read as that field on
        # a receiver of unknown class - by the engine and by the expected formulas alike
        props -= {n_ for c_ in M.classes.values() for n_ in c_.field_types}
        M._prop_names = props
    out = []
    for s_ in (T.subterms(got) if isinstance(got, tuple) else ()):
        if T.tkey(s_) in exp_sub:
            continue
        if s_[0] == 'call' and (s_[1][0] == 'fn' or s_[1] == ('ext', 'APPLY')):
            out.append(s_)
        elif s_[0] == 'lambda':
            out.append(s_)
        elif s_[0] == 'attr' and s_[2] in props:
            if fn is not None and s_[1][0] == 'var':
                # x.name where the classes x can be are known (annotation, constructor call, naming convention): a property only if it is one THERE
                # (were it one, the engine would have read it through)
                cs_ = [M.cls(t_) for t_ in M.expr_types(fn, ast.Name(id=s_[1][1], ctx=ast.Load()), M.local_env(fn))]
                cs_ = [c_ for c_ in cs_ if c_ is not None]
                if cs_ and not any(c_.lookup(s_[2]) is not None and c_.lookup(s_[2]).is_property for c_ in cs_):
                    continue
            out.append(s_)
    return out


def unread_calls(t):
    """calls to functions of the package that a term still contains un-inlined (the engine could not, or was told not to, read them through): a formula holding one
    has not been read completely"""
    return [s_ for s_ in T.subterms(t) if s_[0] == 'call' and s_[1][0] == 'fn'] if isinstance(t, tuple) else []


def derived_fields(M, c):
    """{D: (deps, refreshers)} for class c: D is a field whose stored value is COMPUTED from other fields of the same object - `self.D = f(self.A, self.B)` in
    the constructor or in a method the constructor calls (a recalculate() step), or a table `self.D[...] = f(self.A)` filled lazily by a method.  deps = the fields
    read; refreshers = names of the methods of c that (re)assign D as a whole."""
    def self_loads(e):
        return {n.attr for n in ast.walk(e) if isinstance(n, ast.Attribute) and isinstance(n.ctx, ast.Load) and isinstance(n.value, ast.Name) and n.value.id == 'self'}
    out = {}
    meths = {n: m for n, m in c.methods.items() if '@' not in n or n.endswith('@setter')}
    assigned_in = {}
    for name, m in meths.items():
        # parameters stored unchanged in a field stand for that field:  self.A = a ; self.D = f(a)
        stored_param = {}
        for s in ast.walk(m.node):
            if isinstance(s, ast.Assign) and isinstance(s.value, ast.Name) and s.value.id in m.params:
                for t in s.targets:
                    if isinstance(t, ast.Attribute) and isinstance(t.value, ast.Name) and t.value.id == 'self':
                        stored_param.setdefault(s.value.id, t.attr)
        for s in ast.walk(m.node):
            tgts = s.targets if isinstance(s, ast.Assign) else ([s.target] if isinstance(s, (ast.AnnAssign, ast.AugAssign)) and getattr(s, 'value', None) is not None else [])
            for t in tgts:
                whole = isinstance(t, ast.Attribute) and isinstance(t.value, ast.Name) and t.value.id == 'self'
                elem = isinstance(t, ast.Subscript) and isinstance(t.value, ast.Attribute) and isinstance(t.value.value, ast.Name) and t.value.value.id == 'self'
                if not (whole or elem):
                    continue
                fld = t.attr if whole else t.value.attr
                if whole and (isinstance(s, ast.AugAssign) or fld in self_loads(s.value)):
                    # a running figure updated from its own previous value (avg = (avg*qty + ...)/(qty + ...)) is state in its own right, not a function
                    # of the other fields that whoever writes those could recompute
                    if whole:
                        assigned_in.setdefault(fld, set()).add(name)
                    continue
                deps = self_loads(s.value) - {fld}
                if not isinstance(s.value, ast.Name):
                    deps |= {stored_param[n.id] for n in ast.walk(s.value) if isinstance(n, ast.Name) and isinstance(n.ctx, ast.Load) and n.id in stored_param} - {fld}
                # a plain copy of a parameter or a constant derives nothing; a method call on self counts through what it reads (one level)
                for call in ast.walk(s.value):
                    if isinstance(call, ast.Call) and isinstance(call.func, ast.Attribute) and isinstance(call.func.value, ast.Name) and call.func.value.id == 'self' \
                            and call.func.attr in meths:
                        deps |= self_loads(meths[call.func.attr].node) - {fld}
                deps = {d for d in deps if d not in meths or meths[d].is_property is False}
                deps = {d for d in deps if d not in meths}
                if whole:
                    assigned_in.setdefault(fld, set()).add(name)
                if deps:
                    ent = out.setdefault(fld, [set(), set(), elem])
                    ent[0] |= deps
                    ent[2] = ent[2] and elem
    res = {}
    for fld, (deps, _, only_elem) in out.items():
        res[fld] = (deps, assigned_in.get(fld, set()), only_elem)
    return res


def stale_writers(M, c, only=None):
    """[(fn, stmt, object text, field written, derived field D, deps)]: writers of a field that some derived field of class c depends on which do not bring the
    derived field up to date afterwards (see stale_derived_values)"""
    der = derived_fields(M, c)
    out = []
    if not der:
        return out
    meths = dict(c.methods)
    ctor_side = {n for n, m in meths.items() if n == '__init__' or M.ctor_only(m)}
    holders = set()
    for fn in M.all_funcs():
        if fn.path != c.path:
            continue
        for s in ast.walk(fn.node):
            if isinstance(s, ast.Assign) and isinstance(s.value, ast.Call) and isinstance(s.value.func, ast.Name) and s.value.func.id == c.name:
                for t in s.targets:
                    if isinstance(t, ast.Attribute) and isinstance(t.value, ast.Name) and t.value.id == 'self':
                        holders.add(t.attr)
    for D, (deps, refreshers, only_elem) in sorted(der.items()):
        if only is not None and D != only:
            continue
        if only_elem and not (set(refreshers) - ctor_side):
            # a table filled element by element and never reset outside construction: its entries are objects in their own right (a portfolio made with
            # today's date), not a figure kept in step with the fields they were made from
            continue
        refreshing = set(refreshers)
        for n, m in meths.items():
            if any(isinstance(k, ast.Call) and isinstance(k.func, ast.Attribute) and isinstance(k.func.value, ast.Name) and k.func.value.id == 'self' and k.func.attr in refreshers
                   for k in ast.walk(m.node)):
                refreshing.add(n)
        for fn in M.all_funcs():
            if fn.path != c.path or fn.parent is not None:
                continue
            inside = fn.cls is c
            if inside and (fn.name in ctor_side or fn.name in refreshers):
                continue
            for s in ast.walk(fn.node):
                tgts = s.targets if isinstance(s, ast.Assign) else ([s.target] if isinstance(s, (ast.AugAssign, ast.AnnAssign)) else [])
                for t in tgts:
                    b = t
                    while isinstance(b, ast.Subscript):
                        b = b.value
                    if not (isinstance(b, ast.Attribute) and b.attr in deps):
                        continue
                    obj = b.value
                    if inside and isinstance(obj, ast.Name) and obj.id == 'self':
                        objtxt = 'self'
                    elif not inside and isinstance(obj, ast.Attribute) and isinstance(obj.value, ast.Name) and obj.value.id == 'self' and obj.attr in holders:
                        objtxt = 'self.' + obj.attr
                    else:
                        continue
                    ok = False
                    for k in ast.walk(fn.node):
                        if getattr(k, 'lineno', 0) < s.lineno:
                            continue
                        if isinstance(k, ast.Call) and isinstance(k.func, ast.Attribute) and ast.unparse(k.func.value) == objtxt and k.func.attr in refreshing:
                            ok = True
                        kt = k.targets if isinstance(k, ast.Assign) else ([k.target] if isinstance(k, (ast.AugAssign, ast.AnnAssign)) else [])
                        for t2 in kt:
                            if isinstance(t2, ast.Attribute) and t2.attr == D and ast.unparse(t2.value) == objtxt:
                                ok = True
                            if not inside and isinstance(t2, ast.Attribute) and ast.unparse(t2) == objtxt and k is not s:
                                ok = True
                    out.append((fn, s, objtxt, b.attr, D, deps, ok))
            # the source changed IN PLACE (self.assets.extend(new)) while D is a copy made from it (set(self._assets)): the copy does not follow - unless the same
            # function brings D up to date as well (assigns it, calls a refresher, or changes D in place too)
            if inside and _is_copy_of(c, D, deps):
                proj = {pn_: ch_[0] for ch_, (cn_, pn_) in M.projections().items() if cn_ == c.name and len(ch_) == 1}
                for s in ast.walk(fn.node):
                    if not (isinstance(s, ast.Expr) and isinstance(s.value, ast.Call) and isinstance(s.value.func, ast.Attribute)
                            and s.value.func.attr in ('append', 'extend', 'insert', 'remove', 'pop', 'clear', 'update', 'add', 'discard', 'setdefault', 'popitem', 'appendleft')):
                        continue
                    r_ = s.value.func.value
                    if not (isinstance(r_, ast.Attribute) and isinstance(r_.value, ast.Name) and r_.value.id == 'self'):
                        continue
                    src_ = proj.get(r_.attr, r_.attr)
                    if src_ not in deps:
                        continue
                    ok = False
                    for k in ast.walk(fn.node):
                        if isinstance(k, ast.Call) and isinstance(k.func, ast.Attribute) and isinstance(k.func.value, ast.Name) and k.func.value.id == 'self' and k.func.attr in refreshing:
                            ok = True
                        if isinstance(k, ast.Call) and isinstance(k.func, ast.Attribute) and isinstance(k.func.value, ast.Attribute) and k.func.value.attr == D \
                                and isinstance(k.func.value.value, ast.Name) and k.func.value.value.id == 'self':
                            ok = True
                        kt = k.targets if isinstance(k, ast.Assign) else ([k.target] if isinstance(k, (ast.AugAssign, ast.AnnAssign)) else [])
                        for t2 in kt:
                            b2 = t2
                            while isinstance(b2, ast.Subscript):
                                b2 = b2.value
                            if isinstance(b2, ast.Attribute) and b2.attr in (D, src_, r_.attr) and isinstance(b2.value, ast.Name) and b2.value.id == 'self':
                                ok = True
                    out.append((fn, s, 'self', r_.attr, D, deps, ok))
    return [w for w in out if not w[6]] if only is not None else out


def _is_copy_of(c, D, deps):
    """every whole assignment of self.D in class c builds a NEW container/figure from a dependency (set(self.a), sorted(self.a), len(self.a), {..comprehension over self.a..})"""
    found = False
    for m in c.methods.values():
        for s in ast.walk(m.node):
            if isinstance(s, ast.Assign) and any(isinstance(t, ast.Attribute) and t.attr == D and isinstance(t.value, ast.Name) and t.value.id == 'self' for t in s.targets):
                v = s.value
                copying = (isinstance(v, ast.Call) and isinstance(v.func, ast.Name) and v.func.id in ('set', 'frozenset', 'list', 'tuple', 'sorted', 'dict', 'len', 'sum', 'max', 'min')) \
                    or isinstance(v, (ast.ListComp, ast.SetComp, ast.DictComp))
                if not copying or not any(isinstance(n, ast.Attribute) and n.attr in deps and isinstance(n.value, ast.Name) and n.value.id == 'self' for n in ast.walk(v)):
                    return False
                found = True
    return found


def _live_reference_only(M, c, D, attr, stmt):
    """D was made by handing the container self.<attr> ITSELF to a constructor or function (a live view over it), and the write at hand changes that container in
    place (an element store, a mutator call): the view sees the change, nothing went stale.  (Rebinding self.<attr> to another object would leave the view behind.)"""
    tgts = stmt.targets if isinstance(stmt, ast.Assign) else [getattr(stmt, 'target', None)]
    if not all(isinstance(t_, ast.Subscript) for t_ in tgts if t_ is not None):
        return False
    bare = 0
    for m in c.methods.values():
        for n in ast.walk(m.node):
            if isinstance(n, ast.Assign) and any(isinstance(t_, ast.Attribute) and t_.attr == D and isinstance(t_.value, ast.Name) and t_.value.id == 'self' for t_ in n.targets):
                v = n.value
                if not isinstance(v, ast.Call):
                    return False
                vs_ = [v]
                if isinstance(v.func, ast.Attribute) and isinstance(v.func.value, ast.Name) and v.func.value.id == 'self' and c.lookup(v.func.attr) is not None:
                    # built by a method of the class: what that method returns
                    vs_ = [r_.value for r_ in ast.walk(c.lookup(v.func.attr).node) if isinstance(r_, ast.Return) and r_.value is not None]
                    if not vs_ or not all(isinstance(r_, ast.Call) for r_ in vs_):
                        return False
                for v in vs_:
                  for x_ in ast.walk(v):
                    if isinstance(x_, ast.Attribute) and x_.attr == attr and isinstance(x_.value, ast.Name) and x_.value.id == 'self':
                        # every occurrence must be a bare argument of the call
                        if not (x_ in v.args or any(k_.value is x_ for k_ in v.keywords)):
                            return False
                        bare += 1
    return bare > 0


def kept_figures(ctx, rule, prefixes, what):
    """A property that keeps what it computed in a slot of its object (`if self._v is None: self._v = f(self.a, self.b)`; `return self._v`) answers the current
    figure only if every method path that changes a, b (or what selects the formula) also drops the slot.  Every class of the given modules, helper classes
    included; the path-by-path argument of cache_invalidation."""
    n = 0
    for c in ctx.M.classes.values():
        if not any(c.path.startswith(p_) for p_ in prefixes):
            continue
        for name, m in sorted(c.methods.items()):
            if not m.is_property or '@' in name:
                continue
            # cheap pre-filter: the getter both tests and assigns a slot of self
            stores = {t_.attr for n_ in ast.walk(m.node) if isinstance(n_, ast.Assign) for t_ in n_.targets
                      if isinstance(t_, ast.Attribute) and isinstance(t_.value, ast.Name) and t_.value.id == 'self'}
            if not stores:
                continue
            try:
                ps = summarise(ctx, m, policy=default_policy, max_paths=200)
            except Undecided:
                continue
            if any(p.outcome != 'return' for p in ps) or not ps:
                continue
            misses, hits, caches = split_cache_paths(ctx, m, ps)
            caches = [c_ for c_ in caches if c_[1] in stores]
            if not caches or not hits:
                continue
            n += 1
            cache_invalidation(ctx, rule, c, caches, what + ' (the figure %s.%s keeps)' % (c.name, name))
    ctx.holds(rule, what + ' (%d kept figures examined)' % n, None)


def _stamp_validated(c, D):
    """`if <test reading self.S>: self.D = <fresh>; self.S = <new stamp>` in a method of the class: D is validated against a stamp at the point of use"""
    def selfattrs(n, store=None):
        return {x.attr for x in ast.walk(n) if isinstance(x, ast.Attribute) and isinstance(x.value, ast.Name) and x.value.id == 'self'
                and (store is None or isinstance(x.ctx, ast.Store) == store)}
    for name, m in c.methods.items():
        if name == '__init__':
            continue
        for k in ast.walk(m.node):
            if isinstance(k, ast.If):
                tested = selfattrs(k.test) - {D}
                assigned = set()
                for b_ in k.body:
                    assigned |= selfattrs(b_, store=True)
                if D in assigned and tested & assigned:
                    return '%s.%s: self.%s' % (c.name, name, sorted(tested & assigned)[0])
    return None


def stale_derived_values(ctx, rule, prefixes, what):
    """A stored figure computed from other fields must be recomputed by whoever changes those fields afterwards: a setter (or any method) that assigns a field
    some derived field depends on, and neither reassigns the derived field, nor calls a method of the object that does, nor replaces the whole object, leaves
    the derived value stale.  Structural, per class; writers are looked for in the class itself and, for helper objects kept in a field, in the owner's module."""
    M = ctx.M
    n_checked = 0
    for c in M.classes.values():
        if not any(c.path.startswith(p_) for p_ in prefixes):
            continue
        sw = stale_writers(M, c)
        # "must be recomputed" is the class's OWN rule only where the class shows it: some step after construction does bring a derived value up to date (another
        # setter recomputes, a method re-binds).  A class that computes such values once, in its constructor, and lets its plain attributes be reassigned without
        # ever recomputing (as the original code does with start/end dates) states no such rule - and a property standing in for such an attribute changes nothing.
        der_ = derived_fields(M, c)
        ctor_side_ = {n_ for n_, m_ in c.methods.items() if n_ == '__init__' or M.ctor_only(m_)}
        recomputes = any(set(refr_) - ctor_side_ for _, (deps_, refr_, _e) in der_.items())        # some method other than the constructor (re)assigns a derived field
        # ... nor can staleness be inherited from the pinned tree when the derived value itself is new: a figure this tree starts to keep (under a name the pinned
        # tree has no field for) must be kept current by this tree
        try:
            from .model import _baseline
            base_fields = {f_ for fs_ in (_baseline().get('fields') or {}).values() for f_ in fs_}
        except Exception:
            base_fields = None
        maintained = any(ok for fn, s, objtxt, attr, D, deps, ok in sw) or recomputes
        for fn, s, objtxt, attr, D, deps, ok in sw:
            n_checked += 1
            new_figure = base_fields is not None and D not in base_fields and D.lstrip('_') not in base_fields
            if not maintained and not new_figure:
                continue
            if not ok and _live_reference_only(M, c, D, attr, s):
                continue
            if not ok and _stamp_validated(c, D):
                ctx.undecided(rule, what, fn.site(s), '%s.%s is thrown away by its reader whenever a stamp the reader recomputes differs from the one stored beside it (%s): whether that stamp changes '
                              'with every change of %s.%s is an argument about the stamp\'s values, not made here' % (c.name, D, _stamp_validated(c, D), objtxt, attr))
                continue
            if not ok and _conditionally_dropped_by_caller(M, c, fn, D):
                ctx.undecided(rule, what, fn.site(s), '%s changes %s.%s and leaves %s.%s, but its caller in %s drops %s.%s under a condition on the change at hand: whether the changes that '
                              'condition lets through can alter the figure is an argument about values, not made here' % (fn.qn, objtxt, attr, c.name, D, c.name, c.name, D))
                continue
            if not ok:
                ctx.violation(rule, what, fn.site(s), '%s %s %s.%s, from which %s.%s was computed (%s), and does not recompute it: the stored %s goes stale'
                              % (fn.qn, 'changes in place' if isinstance(s, ast.Expr) else 'assigns', objtxt, attr, c.name, D, ', '.join(sorted(deps)), D),
                              key='%s|stale|%s.%s|%s' % (rule, c.name, D, fn.qn))
    ctx.holds(rule, what + ' (derived stored values are refreshed by every writer of what they derive from: %d writer sites)' % n_checked, None)


def split_cache_paths(ctx, fn, ps):
    """A reader that keeps what it computed (a lazily filled field, a per-name memo table on the object) has two kinds of paths: the MISS computes the figure from
    the object's state and stores it, the HIT hands back what an earlier miss stored.  -> (miss paths with the caching writes marked, hit paths, cache descriptions)
    cache description: (location term written on the miss, root field name on self, set of self-fields the stored value reads).  Paths that do not touch a cache
    location are misses with no write."""
    self_ = V('self')
    written = {}
    for i, p in enumerate(ps):
        for w in heap_writes(p):
            loc = w.loc
            root = loc
            while root[0] in ('sub', 'attr') and not (root[0] == 'attr' and root[1] == self_):
                root = root[1]
            if root[0] == 'attr' and root[1] == self_ and w.value is not None:
                written.setdefault(loc, []).append((i, w, root[2]))
    if not written:
        return list(ps), [], []

    def reads(p, loc):
        pre = [c for c, _, _ in p.conds] + ([p.value] if p.value is not None else [])
        return any(s_ == loc for t_ in pre for s_ in T.subterms(t_))
    hits, misses, caches = [], [], []
    for i, p in enumerate(ps):
        own = {loc for loc, ws in written.items() if any(j == i for j, _, _ in ws)}
        foreign_read = [loc for loc in written if loc not in own and reads(p, loc) and p.value is not None and any(s_ == loc for s_ in T.subterms(p.value))]
        if foreign_read and not own:
            hits.append(p)
        else:
            misses.append(p)
    for loc, ws in written.items():
        deps = set()
        figs = []
        for i, w, root in ws:
            deps |= {s_[2] for s_ in T.subterms(w.value) if s_[0] == 'attr' and s_[1] == self_ and s_[2] != root}
            cs_ = [c for c, _, _ in ps[i].conds if not any(s_ == loc or (s_[0] == 'attr' and s_[1] == self_ and s_[2] == root) for s_ in T.subterms(c))]
            for c in cs_:
                deps |= {s_[2] for s_ in T.subterms(c) if s_[0] == 'attr' and s_[1] == self_ and s_[2] != root}
            figs.append((cs_, w.value))
        caches.append((loc, ws[0][2], deps, figs))
    return misses, hits, caches


def cache_invalidation(ctx, rule, cls, caches, what):
    """Every method of the class that assigns a field a cached figure was computed from must drop the cache: rebind or clear the cache's root field (or set the
    cached slot to None) in the same function, directly or through a method of the object that does.  Established -> holds; a class-level cache -> violation (shared by
    all instances); otherwise the ordering argument (e.g. "every fill re-marks first") is not made here -> undecided."""
    M = ctx.M
    ok_all = True
    for loc, root, deps, *rest_ in caches:
        figs = rest_[0] if rest_ else []
        if class_level_table(M, cls, root):
            ctx.violation(rule, what, cls.path, 'the cache %s is a class attribute never rebound per instance: every %s shares it' % (root, cls.name), key='%s|cache-shared|%s' % (rule, root))
            ok_all = False
            continue
        def drops(fn_node):
            for k in ast.walk(fn_node):
                kt = k.targets if isinstance(k, ast.Assign) else ([k.target] if isinstance(k, (ast.AugAssign, ast.AnnAssign)) else [])
                for t in kt:
                    b = t
                    while isinstance(b, (ast.Subscript, ast.Attribute)) and not (isinstance(b, ast.Attribute) and isinstance(b.value, ast.Name) and b.value.id == 'self'):
                        b = b.value
                    if isinstance(b, ast.Attribute) and b.attr == root and isinstance(b.value, ast.Name) and b.value.id == 'self':
                        if t is b or (isinstance(k, ast.Assign) and isinstance(k.value, ast.Constant) and k.value.value is None):
                            return True
                if isinstance(k, ast.Call) and isinstance(k.func, ast.Attribute) and k.func.attr in ('clear', 'pop', 'popitem') and \
                        isinstance(k.func.value, ast.Attribute) and k.func.value.attr == root:
                    return True
                if isinstance(k, ast.Delete):
                    for t in k.targets:
                        if root in ast.unparse(t):
                            return True
            return False
        droppers = {n for n, m in cls.methods.items() if drops(m.node)}
        for n, m in cls.methods.items():
            if any(isinstance(k, ast.Call) and isinstance(k.func, ast.Attribute) and isinstance(k.func.value, ast.Name) and k.func.value.id == 'self' and k.func.attr in droppers
                   for k in ast.walk(m.node)):
                droppers = droppers | {n}
        bad = []
        for dep in sorted(deps):
            for w in writers_of_attr(M, dep, owner=cls.name):
                g = w.fn
                if g.cls is None or g.cls.name not in M.owner_family(cls.name) or g.name == '__init__' or M.ctor_only(g):
                    continue
                gname = g.qn.split('.', 1)[1] if '.' in g.qn else g.qn
                if gname not in droppers and g.name not in droppers:
                    bad.append('%s writes %s' % (g.qn, dep))
        sib_ = []
        stale_b = _stale_cache_paths(ctx, cls, root, deps, figs, sib_) if bad else []
        if bad and stale_b and sib_:
            # contradiction: one public method of the class changes an input and drops the kept figure in the same step, another changes an input and leaves it
            ok_all = False
            for qn_, cond_, flds_, site_ in stale_b[:4]:
                if qn_ == sib_[0][0]:
                    # the SAME method drops the figure on some paths and keeps it on others: a selective invalidation, decided by what its condition lets through
                    ctx.undecided(rule, what, site_, '%s drops the cached %s on some paths and keeps it on path [%s] while changing %s: whether the changes kept there can alter the figure is an '
                                  'argument about values, not made here' % (qn_, fmt(loc)[:40], cond_[:100], ', '.join(flds_)))
                    continue
                ctx.violation(rule, what, site_, '%s changes %s on path [%s] and keeps the cached %s, which was computed from it, while %s drops it in the same step as it changes %s: the next reader is handed the old figure'
                              % (qn_, ', '.join(flds_), cond_[:120], fmt(loc)[:40], sib_[0][0], sib_[0][1]), key='%s|cache-stale|%s|%s' % (rule, root, qn_))
        elif bad:
            ok_all = False
            ctx.undecided(rule, what, cls.path, 'the cached %s is computed from %s; %s without dropping the cache in the same step - whether an earlier step always did is not decided here'
                          % (fmt(loc)[:60], sorted(deps), '; '.join(sorted(set(bad))[:3])))
        else:
            # "drops it somewhere in the function" is not "drops it whenever it writes": path by path, over the public methods of the class with their private
            # helpers read through - a path that changes something the kept figure was computed from (so that recomputing it now could give another value) and
            # leaves the kept figure in place
            stale = _stale_cache_paths(ctx, cls, root, deps, figs)
            for qn_, cond_, flds_, site_ in stale[:4]:
                ok_all = False
                ctx.violation(rule, what, site_, '%s changes %s on path [%s] and keeps the cached %s, which was computed from %s: the next reader is handed the old figure'
                              % (qn_, ', '.join(flds_), cond_[:120], fmt(loc)[:40], '/'.join(flds_)), key='%s|cache-stale|%s|%s' % (rule, root, qn_))
            if not stale:
                ctx.holds(rule, what + ' (cache %s is dropped on every path of every method that changes %s)' % (fmt(loc)[:40], sorted(deps)), cls.path)
    return ok_all


def _stale_cache_paths(ctx, cls, root, deps, figs, siblings=None):
    self_ = V('self')
    out = []
    for name, m in sorted(cls.methods.items()):
        if name.startswith('_') or '@' in name or m.is_property or m.is_static or ctx.M.ctor_only(m):
            continue
        fam_ = ctx.M.owner_family(cls.name)
        try:
            # (the object's own public steps are part of the step: a fill that re-marks through update_current_price)
            ps = summarise(ctx, m.qn, policy=lambda a_, b_, d_: default_policy(a_, b_, d_) or (d_ <= 4 and b_.cls is not None and b_.cls.name in fam_ and not b_.name.startswith('__')),
                           max_paths=600)
        except Undecided:
            continue
        for p in normal(ps):
            ws = heap_writes(p, into_loops=False)
            if any(loc_attr(w.loc) == root for w in ws):
                if siblings is not None:
                    d_ = sorted({w.loc[2] for w in ws if w.loc[0] == 'attr' and w.loc[1] == self_ and w.loc[2] in deps and w.loc[2] != root})
                    if d_:
                        siblings.append((m.qn, ', '.join(d_)))
                continue
            post = {}
            for w in ws:
                if w.loc[0] == 'attr' and w.loc[1] == self_ and w.loc[2] in deps and w.value is not None:
                    if same(p, w.value, w.loc) or any(c_[0] == 'cmp' and ((c_[1] == '==' and v_) or (c_[1] == '!=' and not v_)) and {c_[2], c_[3]} == {w.value, w.loc}
                                                      for c_, v_, _s in p.conds):
                        continue        # re-assigning what it already holds (`if price != self.price: drop` ... `self.price = price`)
                    post[w.loc] = w.value
            if not post:
                continue
            changed = set()
            for cs_, val in figs or [((), None)]:
                for t in list(cs_) + ([val] if val is not None else []):
                    t2 = T.replace(t, lambda x: post.get(x))
                    if not same(p, t2, t):
                        changed |= {l_[2] for l_ in post if any(s_ == l_ for s_ in T.subterms(t))}
            if not figs:
                changed = {l_[2] for l_ in post}
            if changed:
                out.append((m.qn, cond_str(p), sorted(changed), m.site()))
    return out


def class_level_table(M, cls, fld):
    """<fld> is declared in the class body (of cls or a base) and no constructor rebinds it per instance: one object shared by every instance"""
    if not any(fld in k.class_attrs for k in cls.mro()):
        return False
    for k in [cls] + [c for c in M.classes.values() if cls in c.mro() or c in cls.mro()]:
        # what every construction runs: __init__ and the methods it calls on self (whoever else calls them too)
        reach, todo = set(), ['__init__']
        while todo:
            n0 = todo.pop()
            if n0 in reach or n0 not in k.methods:
                continue
            reach.add(n0)
            for x in ast.walk(k.methods[n0].node):
                if isinstance(x, ast.Call) and isinstance(x.func, ast.Attribute) and isinstance(x.func.value, ast.Name) and x.func.value.id == 'self':
                    todo.append(x.func.attr)
        for name, m in k.methods.items():
            if name not in reach and not M.ctor_only(m):
                continue
            for n in ast.walk(m.node):
                if isinstance(n, (ast.Assign, ast.AnnAssign)):
                    for t in (n.targets if isinstance(n, ast.Assign) else [n.target]):
                        for x in ast.walk(t):
                            if isinstance(x, ast.Attribute) and x.attr == fld and isinstance(x.ctx, ast.Store) and isinstance(x.value, ast.Name) and x.value.id == 'self':
                                return False
    return True


def without_sound_memo_hits(ctx, rule, fn, ps, keyprefix):
    """Hand-rolled memoisation in fn: report unsound keys and class-level tables as violations of `rule`; for sound per-instance memos return the paths with the
    hits removed (a hit equals the miss that filled the entry) and the names of the tables, whose writes are not state in the sense of 'depends on history'."""
    memos = memo_tables(ctx, fn, ps)
    sound = set()
    open_ = set()
    for m_, vd in sorted(memos.items()):
        if vd[0] == 'unsound' and fn.cls is not None and _stored_without(fn, m_, vd[2]):
            # the statement that files the entries sits in a helper that is not even handed the argument the entries are said to depend on: what is stored (whole
            # arrays, a frame) cannot vary with it - the look-up that uses the argument happens on what was stored, afterwards
            ctx.undecided(rule, '%s answers from its memo %s only what it would compute afresh' % (fn.qn, m_), fn.site(),
                          'entries of %s are filed by a helper that does not receive %s: the stored value cannot depend on it; what is done with the entry afterwards is not read here' % (m_, ', '.join(vd[2])))
            open_.add(m_)
        elif vd[0] == 'unsound':
            ctx.violation(rule, '%s answers from its memo %s only what it would compute afresh' % (fn.qn, m_), fn.site(),
                          'the memo is keyed by %s but the stored value also depends on %s%s' % (fmt(vd[1]), ', '.join(vd[2]), (': ' + vd[3]) if len(vd) > 3 else ''),
                          key='%s|%s|memo-key' % (keyprefix, m_))
        elif vd[0] == 'sound':
            if fn.cls is not None and class_level_table(ctx.M, getattr(fn, 'dyn_cls', None) or fn.cls, m_):
                ctx.violation(rule, '%s answers from its memo %s only what it would compute afresh' % (fn.qn, m_), fn.site(),
                              'the table is a class attribute never rebound per instance: every %s shares it and the key %s does not identify the instance' % (fn.cls.name, fmt(vd[1])),
                              key='%s|%s|memo-shared' % (keyprefix, m_))
            else:
                ctx.holds(rule, '%s: memo %s is per instance and keyed by everything its entries depend on (%s)' % (fn.qn, m_, fmt(vd[1])), fn.site())
                sound.add(m_)
        elif vd[0] == 'other' and 'many-to-one' in vd[1]:
            # a memo whose soundness is an argument about values: what it stores is memo entries, not history-dependent state in the sense of the callers' rules
            ctx.undecided(rule, '%s answers from its memo %s only what it would compute afresh' % (fn.qn, m_), fn.site(), vd[1])
            open_.add(m_)
    keep = [p for p in ps if not any(c_[0] == 'cmp' and c_[1] == 'in' and v_ and c_[3][0] == 'attr' and (self_chain(c_[3]) is not None or c_[3][1][0] == 'mod') and c_[3][2] in sound
                                     for c_, v_, _ in p.conds)]
    return keep, sound | open_


def fresh_object_summaries(ctx, cname, meth, policy=default_policy, oracle=None):
    """Summaries of <cname>.<meth> run on an object that <cname>.__init__ has just built from symbolic arguments: what the method computes in terms of the
    CONSTRUCTOR ARGUMENTS, whatever fields, tables or properties the class uses internally to remember them.  -> (init path, method paths)"""
    cls = ctx.cls(cname)
    init = cls.lookup('__init__')
    if init is None:
        raise Undecided('%s has no constructor' % cname)
    ips = normal(SymEx(ctx.M, policy=default_policy).run(init, dyn=cls))
    if len(ips) != 1:
        raise Undecided('%s.__init__ has %d accepting paths' % (cname, len(ips)))
    heap = {k: v for k, v in ips[0].heap.items()}
    from .symex import State
    fn = ctx.fn('%s.%s' % (cname, meth))
    sx = SymEx(ctx.M, policy=policy, oracle=oracle)
    ps = sx.run(fn, state=State(heap=dict(heap)), dyn=cls)
    ctx.paths_explored += len(ps) + 1
    return ips[0], ps


def inline_all(names):
    """policy: inline the default set plus the listed qualified names"""
    names = set(names)

    def pol(caller, callee, depth):
        return depth <= 8 and (callee.qn in names or default_policy(caller, callee, depth))
    return pol


def inline_only(names):
    names = set(names)

    def pol(caller, callee, depth):
        return depth <= 8 and (callee.qn in names or callee.is_property)
    return pol


def no_inline(caller, callee, depth):
    return False


def heap_writes(path, attr=None, into_loops=True):
    """write events of a path to <x>.attr or its elements (ignoring writes to locals)"""
    out = []
    for e in path.flat_events(into_loops):
        if e.kind != 'write' or e.d.get('local'):
            continue
        if attr is None or loc_attr(e.loc) == attr:
            out.append(e)
    return out


def loc_attr(loc):
    """the field name a location term belongs to: attr(x, f) -> f ; sub(attr(x, f), k) -> f"""
    for _ in range(12):
        if loc[0] == 'sub':
            loc = loc[1]
        elif loc[0] == 'elem':
            loc = loc[1]
        elif loc[0] == 'call' and loc[1][0] == 'meth' and loc[1][1] in ('items', 'values', 'keys') and loc[2]:
            loc = loc[2][0]
        elif loc[0] == 'call' and loc[1] in (('ext', 'LIST'), ('ext', 'SORTED'), ('ext', 'TUPLE')) and loc[2]:
            loc = loc[2][0]
        else:
            break
    if loc[0] == 'attr':
        return loc[2]
    if loc[0] == 'call' and loc[1][0] == 'meth':
        return None
    return None


def cond_str(path):
    return T.FStr(' & '.join(('' if v else 'not ') + '(' + T.fmt(c) + ')' for c, v, _ in path.conds) or 'true')


def find_terms(t, pred):
    return [s for s in T.subterms(t) if pred(s)]


def is_call(t, name):
    return t[0] == 'call' and t[1] in (('ext', name), ('fn', name), ('meth', name))


def call_name(t):
    return t[1][1] if t[0] == 'call' else None


# ---------------------------------------------------------------------- deltas and path facts
def delta(e):
    """additive change of a write event: value - old, or None when not expressible"""
    if e.value is None or e.old is None:
        return None
    try:
        return T.t_sub(e.value, e.old)
    except Exception:
        return None


def path_equalities(path):
    """atom -> constant for conditions `atom == const` taken on the path (used to compare formulas under the path condition)"""
    sub = {}
    for c, v, _ in path.conds:
        if v and c[0] == 'cmp' and c[1] == '==':
            a, b = c[2], c[3]
            if a[0] == 'num' and b[0] != 'num':
                sub[b] = a
            elif b[0] == 'num' and a[0] != 'num':
                sub[a] = b
    return sub


def under(path, t):
    sub = path_equalities(path)
    if not sub:
        return t
    return T.replace(t, lambda x: sub.get(x))


def same(path, a, b):
    """semantic equality of two terms under the equalities assumed on the path"""
    return T.teq(under(path, a), under(path, b))


def V(name):
    return ('var', name)


def A(base, *names):
    t = base if isinstance(base, tuple) else ('var', base)
    for n in names:
        t = ('attr', t, n)
    return t


def ROUND2(t):
    return ('call', ('ext', 'ROUND'), (t, T.num(2)), ())


def normal(paths):
    return [p for p in paths if p.outcome in ('fall', 'return')]


def raising(paths):
    return [p for p in paths if p.outcome == 'raise']


def nested_events(path):
    """yield (event, enclosing loop events, conditions in force) for every event of a path, descending into loop bodies;
    conditions = the path's own branch conditions plus those of the enclosing body paths"""
    def rec(events, loops, conds):
        for e in events:
            yield e, loops, conds
            if e.kind == 'loop':
                for b in e.paths:
                    yield from rec(b.events, loops + [(e, b)], conds + list(b.conds))
    yield from rec(path.events, [], list(path.conds))


def props_only(caller, callee, depth):
    return callee.is_property and depth <= 6


def kw(ev, name, default=None):
    return (ev.d.get('kwargs') or {}).get(name, default)


# ---------------------------------------------------------------------- A7 constants, method chains
def time_of_day(t):
    """(hour, minute) denoted by a literal term: datetime.time(h, m), pandas.Timedelta(hours=h, minutes=m),
    datetime.datetime(y, m, d, h, mi) / pandas.Timestamp of it, or 'HH:MM:SS'."""
    def n(x):
        return int(x[1]) if x is not None and x[0] == 'num' and x[1].denominator == 1 else None
    if t[0] == 'str':
        parts = t[1].split(':')
        if len(parts) in (2, 3) and all(p.isdigit() for p in parts):
            if len(parts) == 3 and int(parts[2]) != 0:
                return None
            return (int(parts[0]), int(parts[1]))
        return None
    if t[0] != 'call':
        return None
    name = t[1][1] if t[1][0] == 'ext' else None
    args, kws = t[2], dict(t[3])
    if name in ('datetime.time',):
        a = [n(x) for x in args] + [0] * 4
        hh = n(kws['hour']) if 'hour' in kws else a[0]
        mm = n(kws['minute']) if 'minute' in kws else a[1]
        if a[2] or a[3] or set(kws) - {'hour', 'minute', 'tzinfo'}:
            return None
        return (hh, mm or 0)
    if name in ('pandas.Timedelta', 'datetime.timedelta', 'pandas.DateOffset', 'pandas.offsets.DateOffset'):
        if len(args) == 1 and args[0] == T.ZERO and not kws:
            return (0, 0)           # timedelta(0): no offset at all
        if args:
            return None
        h = n(kws.get('hours', ('num', T.ZERO[1])))
        m = n(kws.get('minutes', ('num', T.ZERO[1])))
        if set(kws) - {'hours', 'minutes'}:
            return None
        return (h, m)
    if name in ('datetime.datetime',):
        a = [n(x) for x in args]
        if len(a) < 3:
            return None
        a = a + [0] * (7 - len(a))
        if a[5] or a[6]:
            return None
        return (a[3] or 0, a[4] or 0)
    if name in ('pandas.Timestamp', 'pandas.to_datetime') and args:
        return time_of_day(args[0])
    return None


def time_of_day_ext(t):
    """time_of_day, also through `<datetime>.replace(hour=h, minute=m)` on a midnight base"""
    if t[0] == 'call' and t[1] == ('meth', 'replace') and len(t[2]) == 1:
        base = time_of_day_ext(t[2][0])
        kws = dict(t[3])
        if base is None or set(kws) - {'hour', 'minute', 'second', 'microsecond'}:
            return None
        def n(x, d):
            return int(x[1]) if x is not None and x[0] == 'num' else d
        if n(kws.get('second'), 0) or n(kws.get('microsecond'), 0):
            return None
        return (n(kws.get('hour'), base[0]), n(kws.get('minute'), base[1]))
    if t[0] == 'call' and t[1][0] == 'ext' and t[1][1] in ('pandas.Timestamp', 'pandas.to_datetime') and t[2]:
        return time_of_day_ext(t[2][0])
    return time_of_day(t)


def datetime_base(t):
    """the datetime.datetime(y, m, d, ...) construction a timestamp term is built from (through Timestamp(...) and .replace(...))"""
    while True:
        if t[0] == 'call' and t[1] == ('meth', 'replace') and t[2]:
            t = t[2][0]
        elif t[0] == 'call' and t[1][0] == 'ext' and t[1][1] in ('pandas.Timestamp', 'pandas.to_datetime') and t[2]:
            t = t[2][0]
        else:
            break
    if t[0] == 'call' and t[1] == ('ext', 'datetime.datetime'):
        return t
    return None


def as_len_test(c, v=True):
    """interpret a branch condition (term c taken with truth value v) as an emptiness test: -> (x, 'empty'|'nonempty') or None.
    Recognises len(x) == 0, len(x) < 1, len(x) <= 0, len(x) > 0, bool(len(x)), x.size == 0 and their negations."""
    def size_of(t):
        if t[0] == 'call' and t[1] == ('ext', 'LEN') and len(t[2]) == 1:
            return t[2][0]
        if t[0] == 'attr' and t[2] == 'size':
            return t[1]
        return None
    if c[0] == 'not':
        return as_len_test(c[1], not v)
    if c[0] == 'call' and c[1] == ('ext', 'BOOL') and len(c[2]) == 1:
        return as_len_test(c[2][0], v)
    x = size_of(c)
    if x is not None:
        return (x, 'nonempty' if v else 'empty')
    if c[0] == 'cmp' and c[1] in ('==', '<', '<='):
        a, b = c[2], c[3]
        for lhs, rhs, flipped in ((a, b, False), (b, a, True)):
            x = size_of(lhs)
            if x is None or rhs[0] != 'num':
                continue
            k = rhs[1]
            op = c[1]
            if flipped:          # k op len
                if op == '==' and k == 0:
                    return (x, 'empty' if v else 'nonempty')
                if op == '<' and k == 0:      # 0 < len
                    return (x, 'nonempty' if v else 'empty')
                if op == '<=' and k == 1:     # 1 <= len
                    return (x, 'nonempty' if v else 'empty')
            else:                # len op k
                if op == '==' and k == 0:
                    return (x, 'empty' if v else 'nonempty')
                if op == '<' and k == 1:
                    return (x, 'empty' if v else 'nonempty')
                if op == '<=' and k == 0:
                    return (x, 'empty' if v else 'nonempty')
    return None


def len_interval(c, v=True):
    """interpret a branch condition as a bound on a length: -> (x, lo, hi) meaning lo <= len(x) <= hi (hi None = unbounded), or None."""
    t = as_len_test(c, v)
    if t is not None:
        return (t[0], 0, 0) if t[1] == 'empty' else (t[0], 1, None)

    def size_of(t):
        if t[0] == 'call' and t[1] == ('ext', 'LEN') and len(t[2]) == 1:
            return t[2][0]
        if t[0] == 'attr' and t[2] == 'size':
            return t[1]
        return None
    if c[0] == 'not':
        return len_interval(c[1], not v)
    if c[0] == 'cmp' and c[1] in ('==', '<', '<='):
        a, b = c[2], c[3]
        for lhs, rhs, flipped in ((a, b, False), (b, a, True)):
            x = size_of(lhs)
            if x is None or rhs[0] != 'num' or rhs[1].denominator != 1:
                continue
            k, op = int(rhs[1]), c[1]
            if op == '==':
                return (x, k, k) if v else None
            if not flipped:       # len op k
                hi = k - 1 if op == '<' else k
                return (x, 0, hi) if v else (x, hi + 1, None)
            lo = k + 1 if op == '<' else k      # k op len
            return (x, max(lo, 0), None) if v else (x, 0, lo - 1)
    return None


def strip_ndarray(t):
    """x.to_numpy(), x.values, np.array(x), np.asarray(x) hold the same numbers in the same order as x"""
    def f(z):
        if z[0] == 'call' and z[1] in (('meth', 'to_numpy'), ('ext', 'ARRAY'), ('ext', 'numpy.asarray'), ('meth', 'tolist'), ('meth', 'to_list')) and len(z[2]) == 1 and \
                all(k in ('dtype', 'copy') and (k == 'copy' or v in (('ext', 'FLOAT'), ('str', 'float'), ('str', 'float64'), ('ext', 'numpy.float64'))) for k, v in z[3]):
            return z[2][0]
        if z[0] == 'attr' and z[2] == 'values':
            return z[1]
        return None
    return T.replace(t, f)


def len_range_of(path, x, norm=None):
    """the lengths of x consistent with the path's conditions: (lo, hi, recognised_any)"""
    lo, hi, seen = 0, None, False
    for c, v, _ in path.conds:
        t = len_interval(norm(c) if norm else c, v)
        if t is not None and t[0] == x:
            seen = True
            lo = max(lo, t[1])
            if t[2] is not None:
                hi = t[2] if hi is None else min(hi, t[2])
    return lo, hi, seen


def chain_ops(t, stop=None):
    """method/attribute/subscript chain of a term, innermost first: [(root,), ('meth', name, args, kwargs), ('attr', name), ('sub', index), ...]"""
    ops = []
    while True:
        if stop is not None and t == stop:
            ops.append(('root', t))
            break
        if t[0] == 'call' and t[1][0] == 'meth' and t[2]:
            ops.append(('meth', t[1][1], t[2][1:], dict(t[3])))
            t = t[2][0]
        elif t[0] == 'attr':
            ops.append(('attr', t[2]))
            t = t[1]
        elif t[0] == 'sub':
            ops.append(('sub', t[2]))
            t = t[1]
        else:
            ops.append(('root', t))
            break
    return list(reversed(ops))


def op_names(ops):
    out = []
    for o in ops:
        if o[0] == 'meth':
            out.append(o[1])
        elif o[0] == 'attr':
            out.append('.' + o[1])
        elif o[0] == 'sub':
            out.append('[]')
    return out


def all_terms_of(path):
    """every term appearing on a path: values written, call arguments, conditions, the return value"""
    for e in path.flat_events():
        if e.kind == 'write' and e.value is not None:
            yield e.value
            yield e.loc
        elif e.kind == 'call':
            if e.d.get('result') is not None:
                yield e.result
        elif e.kind == 'yield':
            yield e.value
        elif e.kind == 'comp':
            for x in e.events:
                if x.kind == 'call' and x.d.get('result') is not None:
                    yield x.result
    for c, _, _ in path.conds:
        if c[0] != 'exc':
            yield c
    if path.value is not None:
        yield path.value


def meth_calls_in(path, names):
    """every method call term (anywhere on the path) whose method name is in `names`"""
    out = []
    for t in all_terms_of(path):
        for s in T.subterms(t):
            if s[0] == 'call' and s[1][0] == 'meth' and s[1][1] in names:
                out.append(s)
            elif s[0] == 'call' and s[1][0] == 'ext' and s[1][1].split('.')[-1] in names:
                out.append(s)
    return out


def one_shot_state(ctx, rule, cname):
    """A field the constructor fills with a ONE-SHOT iterator (generator expression, map/filter/zip object, generator call) and that a method reads later:
    the first use exhausts it, every later use (a second iteration of the clock, a second query of the universe) sees nothing."""
    from .symex import _single_use
    from .terms import fmt
    c = ctx.M.cls(cname)
    if c is None or c.lookup('__init__') is None:
        return
    from .symex import _is_generator
    # (a generator method called by the constructor stays a call here: what is stored is the generator object it returns)
    ps = summarise(ctx, cname + '.__init__', policy=lambda a_, b_, d_: default_policy(a_, b_, d_) and not _is_generator(b_))
    for p in normal(ps):
        for loc, v in p.heap.items():
            if not (loc[0] == 'attr' and loc[1] == V('self')):
                continue
            gen_call = v[0] == 'call' and v[1][0] == 'fn' and any(g.qn == q for q in v[1][1].split('|') for g in ctx.M.all_funcs()) and \
                all(_is_gen_fn(ctx.M, q) for q in v[1][1].split('|'))
            if not (_single_use(v) or gen_call):
                continue
            readers = [(fn, n) for fn, n in reads_of_attr(ctx.M, loc[2]) if fn.cls is not None and c in fn.cls.mro() + ctx.M.subclasses(fn.cls) and fn.name != '__init__']
            if readers:
                fn, n = readers[0]
                ctx.violation(rule, '%s.%s holds a reusable collection (it is read by %s on every call)' % (cname, loc[2], fn.qn), fn.site(n),
                              'the constructor stores a one-shot iterator (%s): its first consumer exhausts it, later calls see nothing' % fmt(v)[:80],
                              key='%s|one-shot|%s.%s' % (rule, cname, loc[2]))
    ctx.holds(rule, 'no field of %s holds a one-shot iterator that methods consume' % cname, None)


def _is_gen_fn(M, qn):
    from .symex import _is_generator
    f = M.funcs.get(qn) or next((g for g in M.all_funcs() if g.qn == qn), None)
    return f is not None and _is_generator(f)


def private_closure(M, roots, same_class=True):
    """the given functions plus the private helpers (of the same class; or, with same_class=False, also private module-level functions)
    that are called only from them (transitively)"""
    out = set(roots)
    changed = True
    while changed:
        changed = False
        for f in M.funcs.values():
            if f.qn in out or not f.name.startswith('_') or f.name.startswith('__'):
                continue
            sites = M.call_sites(f.qn)
            if sites and all(c.qn in out and (c.cls is f.cls or (not same_class and f.cls is None)) for c, n in sites):
                out.add(f.qn)
                changed = True
    return out
