"""Canonical symbolic terms (DESIGN A5).

A term is a nested tuple.  Arithmetic is rewritten to a rational function
R = num/den, polynomials with Fraction coefficients over *atoms* (any
non-arithmetic term).  This is a rewrite to normal form - no solver, no search.

  ('num', Fraction)            ('str', s)          ('const', 'None'|'True'|'False')
  ('var', name)                free symbol (parameter, unknown global)
  ('attr', base, name)         ('sub', base, index)
  ('call', f, args, kwargs)    f = ('ext', dotted) | ('fn', qn) | ('meth', name) ; receiver is args[0] for 'meth'
  ('new', clsname, fields)     constructed object, fields = sorted ((name, term), ...)
  ('tuple'|'list'|'set', items)  ('dict', ((k, v), ...))
  ('rat', R)                   arithmetic
  ('cmp', op, a, b)  ('not', a)  ('and', items)  ('or', items)  ('ite', c, a, b)
  ('comp', kind, elt, gens)    gens = ((targets, iter, ifs), ...), bound vars renamed ('bv', i)
  ('lambda', n, body)          ('fmt', fmt, args)   string formatting
  ('sum', loopid, body)        accumulated over a loop ; ('elem', iter) loop element ; ('havoc', tag)
"""
from fractions import Fraction

ZERO = ('num', Fraction(0))
ONE = ('num', Fraction(1))
NONE = ('const', 'None')
TRUE = ('const', 'True')
FALSE = ('const', 'False')

# API classes: different spellings of the same operation (DESIGN 1(d)).
API_CLASS = {
    'numpy.floor': 'FLOOR', 'math.floor': 'FLOOR',
    'numpy.ceil': 'CEIL', 'math.ceil': 'CEIL',
    'numpy.trunc': 'TRUNC', 'math.trunc': 'TRUNC', 'numpy.fix': 'TRUNC',
    'builtins.round': 'ROUND', 'numpy.round': 'ROUND', 'numpy.around': 'ROUND', 'numpy.rint': 'ROUND', 'numpy.round_': 'ROUND',
    'builtins.abs': 'ABS', 'numpy.abs': 'ABS', 'numpy.absolute': 'ABS', 'math.fabs': 'ABS', 'numpy.fabs': 'ABS',
    'numpy.isnan': 'ISNAN', 'math.isnan': 'ISNAN', 'pandas.isnull': 'ISNAN', 'pandas.isna': 'ISNAN',
    'numpy.sqrt': 'SQRT', 'math.sqrt': 'SQRT',
    'numpy.mean': 'MEAN', 'numpy.average': 'MEAN', 'statistics.mean': 'MEAN', 'numpy.nanmean': 'NANMEAN',
    'numpy.median': 'MEDIAN',
    'numpy.std': 'STD', 'numpy.nanstd': 'NANSTD', 'statistics.pstdev': 'STD', 'statistics.stdev': 'STD1',
    'numpy.var': 'VAR',
    'numpy.exp': 'EXP', 'math.exp': 'EXP', 'numpy.log': 'LOG', 'math.log': 'LOG',
    'numpy.cumprod': 'CUMPROD', 'numpy.cumsum': 'CUMSUM', 'numpy.prod': 'PROD',
    'numpy.copysign': 'COPYSIGN', 'math.copysign': 'COPYSIGN', 'numpy.sign': 'SIGN',
    'numpy.isclose': 'ISCLOSE', 'math.isclose': 'MISCLOSE',
    'builtins.len': 'LEN', 'builtins.sorted': 'SORTED', 'builtins.list': 'LIST', 'builtins.set': 'SET',
    'builtins.sum': 'SUM', 'numpy.sum': 'SUM', 'builtins.max': 'MAX', 'builtins.min': 'MIN', 'numpy.max': 'MAX', 'numpy.min': 'MIN',
    'numpy.maximum': 'MAX', 'numpy.minimum': 'MIN', 'numpy.amax': 'MAX', 'numpy.amin': 'MIN',
    'builtins.int': 'INT', 'builtins.float': 'FLOAT', 'builtins.str': 'STR', 'builtins.bool': 'BOOL',
    'builtins.dict': 'DICT', 'builtins.tuple': 'TUPLE', 'builtins.any': 'ANY', 'builtins.all': 'ALL',
    'builtins.range': 'RANGE', 'builtins.enumerate': 'ENUMERATE', 'builtins.zip': 'ZIP', 'builtins.print': 'PRINT',
    'builtins.type': 'TYPE', 'builtins.isinstance': 'ISINSTANCE', 'builtins.issubclass': 'ISSUBCLASS',
    'numpy.array': 'ARRAY', 'numpy.asarray': 'ARRAY', 'numpy.zeros': 'ZEROS', 'numpy.where': 'WHERE',
    'copy.copy': 'COPY', 'copy.deepcopy': 'COPY',
    'numpy.nan': 'NAN', 'math.nan': 'NAN', 'numpy.NaN': 'NAN',
}


def tkey(t):
    return repr(t)


# ------------------------------------------------------------------ polynomials
def p_const(c):
    c = Fraction(c)
    return {(): c} if c != 0 else {}


def p_atom(a):
    return {((a, 1),): Fraction(1)}


def p_add(a, b, s=1):
    r = dict(a)
    for m, c in b.items():
        v = r.get(m, 0) + s * c
        if v == 0:
            r.pop(m, None)
        else:
            r[m] = v
    return r


def m_mul(m1, m2):
    d = dict(m1)
    for a, p in m2:
        d[a] = d.get(a, 0) + p
    return tuple(sorted(((a, p) for a, p in d.items() if p), key=lambda x: (tkey(x[0]), x[1])))


def p_mul(a, b):
    r = {}
    for m1, c1 in a.items():
        for m2, c2 in b.items():
            m = m_mul(m1, m2)
            v = r.get(m, 0) + c1 * c2
            if v == 0:
                r.pop(m, None)
            else:
                r[m] = v
    return r


def p_key(p):
    return tuple(sorted(((m, c) for m, c in p.items()), key=lambda x: (tkey(x[0]), x[1])))


def p_atoms(p):
    out = set()
    for m in p:
        for a, _ in m:
            out.add(a)
    return out


class R:
    """Rational function over atoms; value-hashable in a light normal form."""
    __slots__ = ('n', 'd', '_k')

    def __init__(self, n, d=None):
        d = d if d is not None else p_const(1)
        if not d:
            raise ZeroDivisionError('symbolic division by the zero polynomial')
        n, d = R._norm(n, d)
        self.n, self.d = n, d
        self._k = None

    @staticmethod
    def _norm(n, d):
        if not n:
            return {}, p_const(1)
        # cancel a common monomial factor and make the denominator's leading coefficient 1
        if len(d) == 1:
            (dm, dc), = d.items()
            n = {m: c / dc for m, c in n.items()}
            d = {dm: Fraction(1)}
            if dm:
                # divide by common atom powers
                dmd = dict(dm)
                common = {}
                for a, p in dmd.items():
                    k = min((dict(m).get(a, 0) for m in n), default=0)
                    k = min(k, p)
                    if k > 0:
                        common[a] = k
                if common:
                    def red(m):
                        x = dict(m)
                        for a, k in common.items():
                            x[a] = x.get(a, 0) - k
                        return tuple(sorted(((a, p) for a, p in x.items() if p), key=lambda z: (tkey(z[0]), z[1])))
                    n = {red(m): c for m, c in n.items()}
                    d = {red(dm): Fraction(1)}
        else:
            lead = sorted(d.items(), key=lambda x: tkey(x[0]))[0][1]
            if lead != 1:
                n = {m: c / lead for m, c in n.items()}
                d = {m: c / lead for m, c in d.items()}
            if p_key(n) == p_key(d):
                return p_const(1), p_const(1)
            neg = {m: -c for m, c in n.items()}
            if p_key(neg) == p_key(d):
                return p_const(-1), p_const(1)
        return n, d

    def key(self):
        if self._k is None:
            self._k = (p_key(self.n), p_key(self.d))
        return self._k

    def __hash__(self):
        return hash(self.key())

    def __eq__(self, o):
        return isinstance(o, R) and self.key() == o.key()

    def __add__(s, o):
        if s.d == o.d:
            return R(p_add(s.n, o.n), s.d)
        return R(p_add(p_mul(s.n, o.d), p_mul(o.n, s.d)), p_mul(s.d, o.d))

    def __sub__(s, o):
        if s.d == o.d:
            return R(p_add(s.n, o.n, -1), s.d)
        return R(p_add(p_mul(s.n, o.d), p_mul(o.n, s.d), -1), p_mul(s.d, o.d))

    def __mul__(s, o):
        return R(p_mul(s.n, o.n), p_mul(s.d, o.d))

    def __truediv__(s, o):
        return R(p_mul(s.n, o.d), p_mul(s.d, o.n))

    def __neg__(s):
        return R({m: -c for m, c in s.n.items()}, s.d)

    def eq(s, o):
        """Equality of rational functions by cross-multiplication."""
        return p_add(p_mul(s.n, o.d), p_mul(o.n, s.d), -1) == {}

    def is_zero(s):
        return not s.n

    def is_const(s):
        return s.d == p_const(1) and (not s.n or list(s.n) == [()])

    def const(s):
        return s.n.get((), Fraction(0))

    def atoms(s):
        return p_atoms(s.n) | p_atoms(s.d)

    def subst(s, f):
        """Replace atoms: f(atom) -> R or None."""
        def sp(p):
            acc = R({})
            for m, c in p.items():
                t = R(p_const(c))
                for a, k in m:
                    v = f(a)
                    if v is None:
                        v = R(p_atom(a))
                    for _ in range(k):
                        t = t * v
                acc = acc + t
            return acc
        return sp(s.n) / sp(s.d)

    def __repr__(s):
        return 'R(%s)' % fmt_r(s)


def rat(t):
    """term -> R"""
    if t[0] == 'rat':
        return t[1]
    if t[0] == 'num':
        return R(p_const(t[1]))
    return R(p_atom(t))


def unrat(r):
    """R -> simplest term"""
    if r.d == p_const(1):
        if not r.n:
            return ZERO
        if len(r.n) == 1:
            (m, c), = r.n.items()
            if m == ():
                return ('num', c)
            if c == 1 and len(m) == 1 and m[0][1] == 1:
                return m[0][0]
    return ('rat', r)


def num(x):
    return ('num', Fraction(str(x)) if isinstance(x, float) else Fraction(x))


def t_add(a, b):
    return unrat(rat(a) + rat(b))


def t_sub(a, b):
    return unrat(rat(a) - rat(b))


def t_mul(a, b):
    return unrat(rat(a) * rat(b))


def t_div(a, b):
    rb = rat(b)
    if rb.is_zero():
        return ('call', ('ext', 'DIVZERO'), (a,), ())
    return unrat(rat(a) / rb)


def t_neg(a):
    return unrat(-rat(a))


def teq(a, b):
    """Semantic equality of terms: structural, with rational functions compared by cross-multiplication."""
    if a == b:
        return True
    if (a[0] in ('rat', 'num') or b[0] in ('rat', 'num')) and (a[0] in ('rat', 'num') or b[0] in ('rat', 'num')):
        try:
            return rat(a).eq(rat(b))
        except Exception:
            return False
    if a[0] != b[0] or len(a) != len(b):
        return False
    for x, y in zip(a[1:], b[1:]):
        if isinstance(x, tuple) and isinstance(y, tuple):
            if x and y and isinstance(x[0], str) and isinstance(y[0], str) and x[0] == y[0] and x[0] in _HEADS:
                if not teq(x, y):
                    return False
            else:
                if len(x) != len(y):
                    return False
                for p, q in zip(x, y):
                    if isinstance(p, tuple) and isinstance(q, tuple) and p and q:
                        if isinstance(p[0], str) and p[0] in _HEADS and isinstance(q[0], str):
                            if not teq(p, q):
                                return False
                        elif not teq(('tuple',) + tuple(p), ('tuple',) + tuple(q)) if all(isinstance(z, tuple) for z in p + q) else p != q:
                            return False
                    elif p != q:
                        return False
        elif x != y:
            return False
    return True


_HEADS = {'num', 'str', 'const', 'var', 'attr', 'sub', 'call', 'new', 'tuple', 'list', 'set', 'dict', 'rat', 'cmp', 'not',
          'and', 'or', 'ite', 'comp', 'lambda', 'fmt', 'sum', 'elem', 'havoc', 'bv', 'ext', 'fn', 'meth', 'mod', 'slice',
          'starred', 'lc', 'obj', 'pow', 'localfn', 'exc', 'yieldv', 'accum', 'nt'}


# ------------------------------------------------------------------ traversal
def subterms(t):
    """Yield every sub-term (pre-order), descending into rational functions."""
    if not isinstance(t, tuple) or not t:
        return
    if isinstance(t[0], str) and t[0] in _HEADS:
        yield t
        if t[0] == 'rat':
            for a in t[1].atoms():
                yield from subterms(a)
            return
        for x in t[1:]:
            if isinstance(x, tuple):
                yield from _sub_any(x)
    else:
        yield from _sub_any(t)


def _sub_any(x):
    if isinstance(x, tuple):
        if x and isinstance(x[0], str) and x[0] in _HEADS:
            yield from subterms(x)
        else:
            for y in x:
                if isinstance(y, tuple):
                    yield from _sub_any(y)


def contains(t, pred):
    return any(pred(s) for s in subterms(t))


def replace(t, f):
    """Bottom-up rewrite: f(term) -> term or None (keep)."""
    def rec(x):
        if not isinstance(x, tuple) or not x:
            return x
        if isinstance(x[0], str) and x[0] in _HEADS:
            if x[0] == 'rat':
                r = x[1].subst(lambda a: rat(rec(a)))
                y = unrat(r)
            elif x[0] in ('num', 'str', 'const', 'var', 'ext', 'fn', 'meth', 'mod', 'bv', 'havoc', 'lc', 'nt'):
                y = x
            else:
                y = (x[0],) + tuple(rec(z) for z in x[1:])
            z = f(y)
            return y if z is None else z
        return tuple(rec(z) for z in x)
    return rec(t)


# ------------------------------------------------------------------ printing
def fmt_num(c):
    if c.denominator == 1:
        return str(c.numerator)
    f = float(c)
    if Fraction(str(f)) == c:
        return repr(f)
    return '%d/%d' % (c.numerator, c.denominator)


def fmt_p(p):
    if not p:
        return '0'
    out = []
    for m, c in sorted(p.items(), key=lambda x: (len(x[0]), tkey(x[0]))):
        mon = '*'.join(_fa(a) if k == 1 else '%s^%d' % (_fa(a), k) for a, k in m)
        if not mon:
            s = fmt_num(c)
        elif c == 1:
            s = mon
        elif c == -1:
            s = '-' + mon
        else:
            s = '%s*%s' % (fmt_num(c), mon)
        out.append(s)
    s = ' + '.join(out)
    return s.replace('+ -', '- ')


def _fa(a):
    s = _fmt(a)
    return s


def fmt_r(r):
    if r.d == p_const(1):
        return fmt_p(r.n)
    return '(%s)/(%s)' % (fmt_p(r.n), fmt_p(r.d))


FULL = {}


class FStr(str):
    """a rendering that remembers what a slice of it was cut from: rules quote evidence clipped to a readable length, the criteria of report.Ctx.violation
    (does the evidence go through storage/definitions the rule does not read?) must see all of it"""
    __slots__ = ()

    def __getitem__(self, k):
        r = str.__getitem__(self, k)
        if isinstance(k, slice) and 16 <= len(r) < len(self):
            FULL[r] = str(self)
        return r


def fmt(t):
    """Readable rendering of a term (for reports, not for matching)."""
    return FStr(_fmt(t))


def _fmt(t):
    if not isinstance(t, tuple) or not t:
        return repr(t)
    h = t[0]
    if h == 'num':
        return fmt_num(t[1])
    if h == 'str':
        return repr(t[1])
    if h == 'const':
        return t[1]
    if h in ('var', 'bv'):
        return str(t[1]) if h == 'var' else '_%s' % (t[1],)
    if h == 'mod':
        return t[1].split('.')[-1]
    if h == 'attr':
        return '%s.%s' % (_fmt(t[1]), t[2])
    if h == 'sub':
        return '%s[%s]' % (_fmt(t[1]), _fmt(t[2]))
    if h == 'ext':
        return t[1]
    if h == 'nt':
        return t[1][3:]
    if h == 'fn':
        return t[1]
    if h == 'call':
        f, args, kws = t[1], t[2], t[3]
        a = [_fmt(x) for x in args] + ['%s=%s' % (k, _fmt(v)) for k, v in kws]
        if f[0] == 'meth':
            return '%s.%s(%s)' % (a[0] if a else '?', f[1], ', '.join(a[1:]))
        return '%s(%s)' % (_fmt(f), ', '.join(a))
    if h == 'new':
        return '%s{%s}' % (t[1], ', '.join('%s=%s' % (k, _fmt(v)) for k, v in t[2]))
    if h in ('tuple', 'list', 'set'):
        o, c = {'tuple': '()', 'list': '[]', 'set': '{}'}[h]
        return o + ', '.join(_fmt(x) for x in t[1]) + c
    if h == 'dict':
        return '{' + ', '.join('%s: %s' % (_fmt(k) if k is not None else '**', _fmt(v)) for k, v in t[1]) + '}'
    if h == 'rat':
        return fmt_r(t[1])
    if h == 'cmp':
        return '%s %s %s' % (_fmt(t[2]), t[1], _fmt(t[3]))
    if h == 'not':
        return 'not (%s)' % _fmt(t[1])
    if h in ('and', 'or'):
        return '(' + (' %s ' % h).join(_fmt(x) for x in t[1]) + ')'
    if h == 'ite':
        return '(%s if %s else %s)' % (_fmt(t[2]), _fmt(t[1]), _fmt(t[3]))
    if h == 'comp':
        gens = ' '.join('for %s in %s%s' % (','.join(_fmt(x) for x in g[0]), _fmt(g[1]), ''.join(' if %s' % _fmt(c) for c in g[2])) for g in t[3])
        return '%s<%s %s>' % (t[1], _fmt(t[2]), gens)
    if h == 'lambda':
        return 'lambda/%d: %s' % (t[1], _fmt(t[2]))
    if h == 'fmt':
        return '_fmt(%s %% %s)' % (_fmt(t[1]), _fmt(t[2]) if len(t) > 2 else '')
    if h == 'sum':
        return 'SUM[%s](%s)' % (t[1], _fmt(t[2]))
    if h == 'elem':
        return 'elem(%s)' % _fmt(t[1])
    if h == 'pow':
        return 'pow(%s, %s)' % (_fmt(t[1]), _fmt(t[2]))
    if h == 'slice':
        return ':'.join('' if x is None else _fmt(x) for x in t[1:])
    if h == 'starred':
        return '*' + _fmt(t[1])
    if h == 'accum':
        return 'ACCUM#%s(%s; %s)' % (t[1], _fmt(t[2]), ' | '.join(_fmt(x) for x in t[3]))
    if h in ('havoc', 'lc', 'obj', 'localfn', 'exc', 'yieldv'):
        return '%s<%s>' % (h, ','.join(str(x) if not isinstance(x, tuple) else _fmt(x) for x in t[1:]))
    return repr(t)


# ------------------------------------------------------------------ comparisons
FLIP = {'<': '>', '>': '<', '<=': '>=', '>=': '<=', '==': '==', '!=': '!=', 'is': 'is', 'is not': 'is not'}
NEG = {'<': '>=', '>': '<=', '<=': '>', '>=': '<', '==': '!=', '!=': '==', 'is': 'is not', 'is not': 'is', 'in': 'not in', 'not in': 'in'}


def mk_cmp(op, a, b):
    """Canonical comparison: constant folding; operands ordered so the same test has one spelling."""
    if a[0] == 'num' and b[0] == 'num':
        x, y = a[1], b[1]
        v = {'<': x < y, '>': x > y, '<=': x <= y, '>=': x >= y, '==': x == y, '!=': x != y}.get(op)
        if v is not None:
            return TRUE if v else FALSE
    if a == b and op in ('<', '>', '<=', '>=', '==', '!=', 'is', 'is not') and a[0] not in ('call',):
        return TRUE if op in ('<=', '>=', '==', 'is') else FALSE
    if a[0] == 'str' and b[0] == 'str' and op in ('==', '!='):
        return TRUE if (a[1] == b[1]) == (op == '==') else FALSE
    if a[0] in ('str', 'num') and b[0] in ('str', 'num') and a[0] != b[0] and op in ('==', '!='):
        return FALSE if op == '==' else TRUE
    if a[0] == 'const' and b[0] == 'const' and op in ('is', 'is not', '==', '!='):
        return TRUE if (a[1] == b[1]) == (op in ('is', '==')) else FALSE
    if op in FLIP and tkey(a) > tkey(b) and op not in ('is', 'is not'):
        a, b, op = b, a, FLIP[op]
    if op in ('>', '>=', '!=', 'is not', 'not in'):
        # keep only <, <=, ==, is, in ; express the others through negation
        return mk_not(('cmp', NEG[op], a, b))
    return ('cmp', op, a, b)


def mk_not(t):
    if t == TRUE:
        return FALSE
    if t == FALSE:
        return TRUE
    if t[0] == 'not':
        return t[1]
    return ('not', t)


def truth(t):
    """Constant truth value of a term, or None."""
    if t == TRUE:
        return True
    if t == FALSE or t == NONE:
        return False
    if t[0] == 'num':
        return t[1] != 0
    if t[0] == 'str':
        return bool(t[1])
    if t[0] in ('tuple', 'list', 'set') and not t[1]:
        return False
    if t[0] in ('tuple', 'list') and any(isinstance(z, tuple) and z and z[0] != 'starred' for z in t[1]):
        return True         # a written-out sequence with at least one element that is not an unpacking
    if t[0] == 'dict' and not t[1]:
        return False
    if t[0] == 'dict' and any(k is not None for k, _ in t[1]):
        return True
    if t[0] == 'new':
        return True
    return None


# ------------------------------------------------------------------ constant folding (pure, tiny subset)
class NotConst(Exception):
    pass


STDLIB_CONSTS = {
    'calendar.day_abbr': ['Mon', 'Tue', 'Wed', 'Thu', 'Fri', 'Sat', 'Sun'],
    'calendar.day_name': ['Monday', 'Tuesday', 'Wednesday', 'Thursday', 'Friday', 'Saturday', 'Sunday'],
    'calendar.month_abbr': ['', 'Jan', 'Feb', 'Mar', 'Apr', 'May', 'Jun', 'Jul', 'Aug', 'Sep', 'Oct', 'Nov', 'Dec'],
}
STR_METHODS = {'upper': str.upper, 'lower': str.lower, 'title': str.title, 'strip': str.strip, 'capitalize': str.capitalize}


def const_eval(t, env=None):
    """Python value of a term built from literals, a few stdlib constants, str methods, slices and comprehensions; else NotConst."""
    env = env or {}
    h = t[0]
    if h == 'num':
        return int(t[1]) if t[1].denominator == 1 else float(t[1])
    if h == 'str':
        return t[1]
    if h == 'const':
        return {'None': None, 'True': True, 'False': False}.get(t[1], NotConst)
    if h == 'bv':
        if t in env:
            return env[t]
        raise NotConst(_fmt(t))
    if h in ('tuple', 'list', 'set'):
        vals = [const_eval(x, env) for x in t[1]]
        return tuple(vals) if h == 'tuple' else (list(vals) if h == 'list' else set(vals))
    if h == 'ext' and t[1] in STDLIB_CONSTS:
        return list(STDLIB_CONSTS[t[1]])
    if h == 'call' and t[1][0] == 'meth' and t[1][1] in STR_METHODS and len(t[2]) == 1:
        v = const_eval(t[2][0], env)
        if isinstance(v, str):
            return STR_METHODS[t[1][1]](v)
        raise NotConst(_fmt(t))
    if h == 'call' and t[1] in (('ext', 'LIST'), ('ext', 'TUPLE'), ('ext', 'SET'), ('ext', 'SORTED')) and len(t[2]) == 1 and not t[3]:
        v = const_eval(t[2][0], env)
        return {'LIST': list, 'TUPLE': tuple, 'SET': set, 'SORTED': sorted}[t[1][1]](v)
    if h == 'sub':
        base = const_eval(t[1], env)
        i = t[2]
        if i[0] == 'slice':
            parts = [None if x is None else const_eval(x, env) for x in i[1:]]
            return base[slice(*parts)]
        return base[const_eval(i, env)]
    if h == 'comp' and t[1] in ('list', 'set', 'gen') and len(t[3]) == 1:
        tg, it, ifs = t[3][0]
        seq = const_eval(it, env)
        out = []
        for x in seq:
            e2 = dict(env)
            if len(tg) == 1:
                e2[tg[0]] = x
            else:
                for b, v in zip(tg, x):
                    e2[b] = v
            if all(const_eval(c, e2) for c in ifs):
                out.append(const_eval(t[2], e2))
        return set(out) if t[1] == 'set' else out
    if h == 'rat' and t[1].is_const():
        c = t[1].const()
        return int(c) if c.denominator == 1 else float(c)
    raise NotConst(_fmt(t)[:60])
