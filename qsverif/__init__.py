"""qsverif - repository-specific static analysis deciding the 19 given properties of qstrader."""
