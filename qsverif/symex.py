"""Per-path symbolic summaries of functions (JUXTA-style), syntax-directed, no solver.

For a function the executor enumerates the control paths of its structured body and
returns, per path: the branch conditions taken (canonical terms), the ordered events
(calls, writes, raises, yields, loops with their per-iteration body paths), the final
local environment / heap and the outcome (fall / return value / raise).

Repo-local callees are inlined under a policy, @property reads are inlined, value classes
are constructed structurally.  An *oracle* callback may decide branch tests (decision
tables, DESIGN A6); undecided tests fork.
"""
import ast
import itertools

from . import terms as T
from .terms import num, fmt, mk_cmp, mk_not, truth, ZERO, NONE, TRUE, FALSE


def _split_cm(body):
    """The body of a @contextmanager generator around its single yield -> (statements before, yielded expression or None, target of `x = yield`,
    statements after inside the try, finally-block, statements after the try, has handlers); None when the yield sits elsewhere (a loop, a nested with, twice)."""
    def ystmt(s):
        if isinstance(s, ast.Expr) and isinstance(s.value, ast.Yield):
            return s.value.value, None, True
        if isinstance(s, ast.Assign) and isinstance(s.value, ast.Yield) and len(s.targets) == 1:
            return s.value.value, s.targets[0], True
        return None, None, False

    def has_yield(s):
        return any(isinstance(n, (ast.Yield, ast.YieldFrom)) for n in ast.walk(s))
    body = list(body)
    for i, s in enumerate(body):
        v, t, ok = ystmt(s)
        if ok:
            if any(has_yield(r) for r in body[i + 1:]):
                return None
            return body[:i], v, t, body[i + 1:], [], [], False
        if isinstance(s, ast.Try) and any(has_yield(r) for r in s.body):
            if not s.body or not ystmt(s.body[0])[2] or any(has_yield(r) for r in s.body[1:] + s.orelse + s.finalbody + body[i + 1:]) or any(has_yield(h) for h in s.handlers):
                return None
            v, t, _ = ystmt(s.body[0])
            return body[:i], v, t, s.body[1:] + s.orelse, s.finalbody, body[i + 1:], bool(s.handlers)
        if has_yield(s):
            return None
    return None


class Undecided(Exception):
    """The region contains a construct outside the modelled subset."""


_METHOD_ALIASES = {}      # 'Sub.method' -> qualified name of the definition Sub inherits (set from the model a SymEx is built over)


class Callees(list):
    """the definitions a call may run.  `'Position.update_current_price' in callees` also holds when Position inherits that method from a base class that
    defines it (a helper base a refactoring split off): rules name methods by the class the objects are instances of."""
    def __contains__(self, name):
        return list.__contains__(self, name) or (_METHOD_ALIASES.get(name) is not None and list.__contains__(self, _METHOD_ALIASES[name]))


class Ev:
    __slots__ = ('kind', 'd')

    def __init__(self, kind, **d):
        if kind == 'call' and isinstance(d.get('callee'), list) and not isinstance(d['callee'], Callees):
            d['callee'] = Callees(d['callee'])
        self.kind, self.d = kind, d

    def __getattr__(self, k):
        try:
            return self.d[k]
        except KeyError:
            raise AttributeError(k)

    def __repr__(self):
        if self.kind == 'call':
            return 'call %s(%s) @%s' % ('|'.join(self.callee), ', '.join('%s=%s' % (k, fmt(v)) for k, v in self.args.items()), self.site)
        if self.kind == 'write':
            return 'write[%s] %s := %s @%s' % (self.how, fmt(self.loc), fmt(self.value) if self.value is not None else '-', self.site)
        if self.kind == 'raise':
            return 'raise %s @%s' % (self.exc, self.site)
        if self.kind == 'loop':
            return 'loop#%s over %s {%d body paths} @%s' % (self.id, fmt(self.iter), len(self.paths), self.site)
        if self.kind == 'yield':
            return 'yield %s' % fmt(self.value)
        return '%s %s' % (self.kind, {k: (fmt(v) if isinstance(v, tuple) else v) for k, v in self.d.items()})


class State:
    __slots__ = ('env', 'heap', 'conds', 'events', 'decided', 'exc', 'ret')

    def __init__(self, env=None, heap=None, conds=(), events=(), decided=None, exc=None, ret=None):
        self.env = env or {}
        self.heap = heap or {}
        self.conds = conds
        self.events = events
        self.decided = decided or {}
        self.exc = exc
        self.ret = ret

    def copy(self, **kw):
        s = State(dict(self.env), dict(self.heap), self.conds, self.events, dict(self.decided), self.exc, self.ret)
        for k, v in kw.items():
            setattr(s, k, v)
        return s

    def ev(self, e):
        s = self.copy()
        s.events = self.events + (e,)
        return s


class Path:
    def __init__(self, st, outcome, value):
        self.state, self.outcome, self.value = st, outcome, value
        self.conds, self.events, self.env, self.heap = st.conds, st.events, st.env, st.heap

    def flat_events(self, into_loops=True):
        for e in self.events:
            yield e
            if e.kind == 'loop' and into_loops:
                for p in e.paths:
                    yield from p.flat_events(True)

    def calls(self, name=None, into_loops=True):
        return [e for e in self.flat_events(into_loops) if e.kind == 'call' and (name is None or any(c == name or c.endswith('.' + name) or c.split('.')[-1] == name for c in e.callee))]

    def writes(self, pred=None, into_loops=True):
        return [e for e in self.flat_events(into_loops) if e.kind == 'write' and (pred is None or pred(e))]

    def describe(self):
        cs = ' & '.join(('' if v else 'not ') + '(' + fmt(c) + ')' for c, v, _ in self.conds) or 'true'
        return '[%s] -> %s%s' % (cs, self.outcome, (' ' + fmt(self.value)) if self.value is not None and self.outcome != 'fall' else '')


MUTATORS = {'append', 'extend', 'insert', 'pop', 'remove', 'clear', 'update', 'put', 'put_nowait', 'get_nowait', 'popleft',
            'appendleft', 'setdefault', 'sort', 'reverse', 'add', 'discard', 'popitem', 'rotate', 'move_to_end'}
VALUE_CLASSES = {'Transaction', 'Order', 'PortfolioEvent', 'Position', 'SimulationEvent', 'Equity', 'Cash'}


def bound_callables(M):
    """{D: expression} for fields that hold, by a class invariant, a callable BOUND from other fields of the same object:  self.D = self.X.method  or
    self.D = functools.partial(self.X.method, self.A, ...)  - assigned only in that one form, D a field name of one class in the whole package, and every writer
    of X/A re-binds D (lib.stale_derived_values reports the ones that do not; with a stale writer the invariant is void and D stays an opaque value).
    Calling obj.D(args) is then calling obj.X.method(obj.A, ..., args)."""
    if getattr(M, '_bound_callables', None) is not None:
        return M._bound_callables
    M._bound_callables = {}
    from .lib import stale_writers
    out = {}
    all_fields, forms = {}, {}
    for c in M.classes.values():
        for m in c.methods.values():
            for n in ast.walk(m.node):
                if isinstance(n, ast.Attribute) and isinstance(n.ctx, ast.Store) and isinstance(n.value, ast.Name) and n.value.id == 'self':
                    all_fields.setdefault(n.attr, set()).add(c.name)
                if isinstance(n, ast.Assign) and len(n.targets) == 1 and isinstance(n.targets[0], ast.Attribute) and isinstance(n.targets[0].value, ast.Name) \
                        and n.targets[0].value.id == 'self':
                    forms.setdefault((c.name, n.targets[0].attr), []).append(n.value)

    def chain(x, min_len=1):
        k = 0
        while isinstance(x, ast.Attribute):
            x, k = x.value, k + 1
        return isinstance(x, ast.Name) and x.id == 'self' and k >= min_len
    for (cn, D), vals in forms.items():
        c = M.cls(cn)
        if c is None or all_fields.get(D) != {cn} or len({ast.unparse(v) for v in vals}) != 1:
            continue
        v = vals[0]
        ok = chain(v, 2)
        if not ok and isinstance(v, ast.Call) and ast.unparse(v.func).split('.')[-1] == 'partial' and v.args and chain(v.args[0], 2):
            ok = all(chain(a, 1) or isinstance(a, ast.Constant) for a in v.args[1:]) and all(k.arg and (chain(k.value, 1) or isinstance(k.value, ast.Constant)) for k in v.keywords)
        if not ok:
            continue
        if any(isinstance(n, ast.Attribute) and isinstance(n.ctx, ast.Store) and n.attr == D for fn in M.all_funcs() if fn.path != c.path for n in ast.walk(fn.node)):
            continue
        try:
            if stale_writers(M, c, D):
                continue
        except Exception:
            continue
        out[D] = v
    M._bound_callables = out
    return out


def derived_exprs(M):
    """{D: term over ('attr', ('var', '@obj'), A)} for stored figures that are, by a class invariant, a function of other fields of the same object:
    the constructor of a class stores its parameters unchanged in fields A.. and computes `self.D = f(...)` from them, D is assigned nowhere else except by
    methods that recompute it the same way, and every writer of an A recomputes D (lib.stale_derived_values reports the ones that do not - with a stale writer the
    invariant is void and D is left alone).  Reading X.D is then reading f(X.A..).  Only names that are fields of one class in the whole package qualify."""
    if getattr(M, '_derived_exprs', None) is not None:
        return M._derived_exprs
    M._derived_exprs = {}
    out = {}
    from .lib import derived_fields, stale_writers
    all_fields = {}
    for c in M.classes.values():
        for m in c.methods.values():
            for n in ast.walk(m.node):
                if isinstance(n, ast.Attribute) and isinstance(n.ctx, ast.Store) and isinstance(n.value, ast.Name) and n.value.id == 'self':
                    all_fields.setdefault(n.attr, set()).add(c.name)
    for c in M.classes.values():
        init = c.methods.get('__init__')
        if init is None:
            continue
        der = derived_fields(M, c)
        if not der:
            continue
        try:
            ps = [p for p in SymEx(M, policy=default_policy).run(init, dyn=c) if p.outcome in ('fall', 'return')]
        except Undecided:
            continue
        if len(ps) != 1:
            continue
        heap = ps[0].heap
        stored = {}
        for k, v in heap.items():
            if k[0] == 'attr' and k[1] == ('var', 'self') and v[0] == 'var' and v[1] in init.params:
                stored.setdefault(v, k[2])
        for D, (deps, refreshers, only_elem) in der.items():
            if only_elem or all_fields.get(D) != {c.name} or stale_writers(M, c, D):
                continue
            v = heap.get(('attr', ('var', 'self'), D))
            if v is None:
                continue
            vars_ = {s for s in T.subterms(v) if s[0] == 'var'}
            if not vars_ or not all(s in stored for s in vars_) or any(s[0] in ('call',) and s[1][0] == 'fn' for s in T.subterms(v)):
                continue
            # only plain figures: arithmetic over the stored parameters (a container or a library object initialised from fields is state of its own, not a function)
            arith = {'ROUND', 'ABS', 'INT', 'FLOAT', 'FLOOR', 'CEIL', 'TRUNC', 'MIN', 'MAX', 'COPYSIGN', 'SIGN', 'SQRT'}
            if v[0] == 'var' or not all(s[0] in ('rat', 'num', 'var', 'ite', 'cmp', 'not', 'and', 'or', 'const') or (s[0] == 'call' and s[1][0] == 'ext' and s[1][1] in arith) or s[0] == 'ext'
                                        for s in T.subterms(v)):
                continue
            # a D that something outside the class's module assigns is not under the class's control
            outside = False
            for fn in M.all_funcs():
                if fn.path == c.path:
                    continue
                for n in ast.walk(fn.node):
                    if isinstance(n, ast.Attribute) and isinstance(n.ctx, ast.Store) and (n.attr == D or n.attr in deps):
                        tys = M.expr_types(fn, n.value, M.local_env(fn))
                        if not tys or c.name in tys:
                            outside = True
            if outside:
                continue
            out[D] = T.replace(v, lambda z: ('attr', ('var', '@obj'), stored[z]) if z in stored else None)
    M._derived_exprs = out
    return out


def _lifter(proj, derived=None):
    by_last = {}
    for chain, (cname, pname) in proj.items():
        by_last.setdefault(chain[-1], []).append((chain, cname, pname))
    derived = derived or {}

    def f(z):
        if z[0] == 'attr' and z[2] in derived and z[1][0] != 'new':
            # a derived stored figure is the function of its object's fields that the class keeps it equal to
            obj = z[1]
            return T.replace(T.replace(derived[z[2]], lambda y: obj if y == ('var', '@obj') else None), fp)
        return fp(z)

    def fp(z):
        if z[0] == 'attr' and z[2] in by_last:
            for chain, cname, pname in by_last[z[2]]:
                x, ok = z, True
                for fld in reversed(chain):
                    if x[0] == 'attr' and x[2] == fld:
                        x = x[1]
                    else:
                        ok = False
                        break
                if ok and not (x[0] == 'new' and x[1] != cname):
                    return ('attr', x, pname)
        if z[0] == 'new':
            extra = []
            have = {k for k, _ in z[2]}
            for chain, (cname, pname) in proj.items():
                if cname != z[1] or pname in have:
                    continue
                v = z
                for fld in chain:
                    v = dict(v[2]).get(fld) if (v is not None and v[0] == 'new') else None
                if v is not None:
                    extra.append((pname, v))
            if extra:
                return ('new', z[1], tuple(sorted(tuple(z[2]) + tuple(extra))))
        return None
    return f


def lift_path(p, proj, _f=None, derived=None):
    """rewrite every stored location that a property projects (self._bought.quantity) into the property it stands for (self.buy_quantity), throughout a path summary"""
    f = _f or _lifter(proj, derived)
    L = lambda t: T.replace(t, f) if isinstance(t, tuple) and t and isinstance(t[0], str) else t

    def lift_events(evs):
        out_ = []
        for e in evs:
            out_.append(e)
            if e.d.get('@lifted'):
                out_.extend(e.d.get('@derived') or ())
                continue
            e.d['@lifted'] = True
            if e.kind == 'write' and e.d.get('loc') is not None and e.d['loc'][0] == 'attr' and e.d.get('value') is not None and e.d['value'][0] == 'new':
                # a whole sub-object stored (self._bought = _SideBook(q, avg, com)): that writes every logical field projected into it
                der = []
                for chain, (cname, pname) in proj.items():
                    if len(chain) >= 2 and chain[0] == e.d['loc'][2]:
                        v = e.d['value']
                        for fld in chain[1:]:
                            v = dict(v[2]).get(fld) if (v is not None and v[0] == 'new') else None
                        if v is not None:
                            d2 = dict(e.d)
                            d2.update(loc=('attr', e.d['loc'][1], pname), value=L(v), old=None, delta=None)
                            d2['@lifted'] = True
                            d2.pop('@derived', None)
                            der.append(Ev('write', **d2))
                e.d['@derived'] = tuple(der)
                out_.extend(der)
            for k, v in list(e.d.items()):
                if k in ('node', '@lifted'):
                    continue
                if k in ('paths', 'all_paths') and isinstance(v, (list, tuple)):
                    for q in v:
                        lift_path(q, proj, f)
                elif k == 'events' and isinstance(v, (list, tuple)):
                    e.d[k] = lift_events(v)
                elif isinstance(v, dict):
                    e.d[k] = {kk: L(vv) for kk, vv in v.items()}
                elif isinstance(v, tuple) and v and isinstance(v[0], str):
                    e.d[k] = L(v)
        return tuple(out_)
    if getattr(p, '_lifted', False):
        return
    p._lifted = True
    st = p.state
    if p.value is not None:
        p.value = L(p.value)
    st.conds = tuple((L(c), v, s) for c, v, s in st.conds)
    p.conds = st.conds
    st.events = lift_events(st.events)
    p.events = st.events
    st.heap = {L(k): L(v) for k, v in st.heap.items()}
    p.heap = st.heap
    st.env = {k: L(v) for k, v in st.env.items()}
    p.env = st.env
    if getattr(p, 'local_env', None) is not None:
        p.local_env = st.env


def _writes_self(fn):
    """fn assigns, deletes or grows in place an attribute of self (directly)"""
    r = getattr(fn, '_writes_self', None)
    if r is None:
        r = False
        for n in ast.walk(fn.node):
            tg = []
            if isinstance(n, ast.Assign):
                tg = n.targets
            elif isinstance(n, (ast.AugAssign, ast.AnnAssign)):
                tg = [n.target]
            elif isinstance(n, ast.Delete):
                tg = n.targets
            for t in tg:
                for x in ast.walk(t):
                    if isinstance(x, ast.Attribute) and isinstance(x.value, ast.Name) and x.value.id == 'self':
                        r = True
            if isinstance(n, ast.Call) and isinstance(n.func, ast.Attribute) and n.func.attr in MUTATORS:
                b = n.func.value
                while isinstance(b, ast.Subscript):
                    b = b.value
                if isinstance(b, ast.Attribute) and isinstance(b.value, ast.Name) and b.value.id == 'self':
                    r = True
        try:
            fn._writes_self = r
        except Exception:
            pass
    return r


def default_policy(caller, callee, depth):
    """Inline private helpers, static/class methods and properties up to a small depth."""
    if depth > 6:
        return False
    if callee.is_property or callee.is_static or callee.is_classmethod:
        return True
    if callee.name.startswith('_') and not callee.name.startswith('__'):
        return True
    if callee.cls is not None and callee.cls.name.startswith('_') and not callee.name.startswith('__') and caller is not None and callee.path == caller.path:
        return True            # a method of a private helper class of the caller's own module: an implementation detail like a private function
    if callee.cls is not None and (any(ast.unparse(d.func if isinstance(d, ast.Call) else d).split('.')[-1] == 'dataclass' for d in callee.cls.node.decorator_list)
                                   or any(b.split('.')[-1] == 'NamedTuple' for b in callee.cls.base_names)) and not callee.name.startswith('__') \
            and not _writes_self(callee):
        return True            # read-only methods of pure-data classes are part of the data's description (state-changing ones stay calls)
    if callee.cls is None and getattr(callee, 'parent', None) is None:
        # a module-level function that is one returned expression (a key formatter, a unit conversion) is read through like the expression it names
        body = callee.body()
        if len(body) == 1 and isinstance(body[0], ast.Return) and body[0].value is not None and not any(isinstance(n, (ast.Yield, ast.YieldFrom, ast.Await)) for n in ast.walk(body[0])):
            return True
    return False


class SymEx:
    def __init__(self, model, policy=default_policy, oracle=None, max_paths=400, value_classes=VALUE_CLASSES,
                 skip_print_guards=True, fork_loops=False):
        self.M = model
        self.policy = policy
        self.oracle = oracle
        _METHOD_ALIASES.clear()
        _METHOD_ALIASES.update(model.method_aliases() if hasattr(model, 'method_aliases') else {})
        self.max_paths = max_paths
        self.value_classes = value_classes
        self.skip_print_guards = skip_print_guards
        self.uid = itertools.count(1)
        self.frames = []       # stack of Func
        self.bv_depth = 0
        self.npaths = 0
        self.suppress = 0
        self.in_comp = 0
        self._gcache = {}
        self._defs_in_frame = {}
        self._body_override = {}
        self.try_lookup = 0
        self._fresh_self = set()
        self.try_value = 0
        self.closures = {}
        self.dyn = {}

    # ------------------------------------------------------------------ entry
    def run(self, fn, args=None, self_term=None, state=None, dyn=None, closure_env=None):
        """Summarise `fn`.  args: {param: term}; missing params become free vars (defaults not applied).
        dyn: the class of the object `self` denotes when it is more specific than the class defining fn (an inherited method run on a subclass)."""
        st = state or State()
        st = st.copy()
        if dyn is None and fn.cls is not None and self_term is not None:
            if self_term[0] in ('new', 'obj'):
                dyn = self.M.cls(self_term[1])
            elif self_term[0] == 'call' and self_term[1][0] == 'fn' and self.M.cls(self_term[1][1]) is not None and '.' not in self_term[1][1]:
                dyn = self.M.cls(self_term[1][1])          # Child().run(x): the receiver was constructed right here
            elif st.env.get('self') == self_term:
                dyn = self.dyn.get(len(self.frames))
        if dyn is None and getattr(fn, 'dyn_cls', None) is not None and not self.frames:
            dyn = fn.dyn_cls
        if dyn is None and fn.cls is not None and not self.frames and not fn.is_static:
            dyn = fn.cls            # an entry point summarised for its own class: self is (at least) an instance of that class
        if dyn is not None and fn.cls is not None and fn.cls not in dyn.mro():
            dyn = None
        env = {}
        ps = fn.params
        for i, p in enumerate(ps):
            if i == 0 and fn.cls is not None and not fn.is_static and p in ('self', 'cls'):
                env[p] = self_term if self_term is not None else ('var', p)
            else:
                env[p] = (args or {}).get(p, ('var', p))
        if fn.node.args.kwarg:
            kname = fn.node.args.kwarg.arg
            extra_kw = [(k, v) for k, v in (args or {}).items() if isinstance(k, str) and k not in ps and not k.startswith('*') and k != kname]
            if args is not None and kname not in args:
                env[kname] = ('dict', tuple((('str', k), v) for k, v in extra_kw))
            else:
                env[kname] = (args or {}).get(kname, ('var', kname))
        if fn.node.args.vararg:
            vname = fn.node.args.vararg.arg
            extra = []
            while args is not None and ('*%d' % len(extra)) in args:
                extra.append(args['*%d' % len(extra)])
            if extra or args is not None:
                env[vname] = ('tuple', tuple(extra))
            else:
                env[vname] = ('var', vname)
        if not self.frames and fn.cls is not None and fn.name != '__init__' and not fn.is_static and env.get('self') == ('var', 'self'):
            # tables the constructor computes once and nobody rewrites (a timetable, a rate table) are known when a method is analysed
            for loc_, val_ in self._ctor_tables(dyn or fn.cls).items():
                st.heap.setdefault(loc_, val_)
        if not self.frames:
            self._fresh_self = set()
        if not self.frames and fn.name == '__init__' and fn.cls is not None and env.get('self') == ('var', 'self') and state is None:
            self._fresh_self.add(('var', 'self'))
        outer_env = st.env
        if closure_env is not None:
            env = dict({k: v for k, v in closure_env.items() if k not in env}, **env)
        elif getattr(fn, 'parent', None) is not None and self.frames and self.frames[-1].qn == fn.parent.qn:
            # a nested function sees the variables of the function that defines it
            env = dict({k: v for k, v in outer_env.items() if k not in env}, **env)
        st.env = env
        self.frames.append(fn)
        self.dyn[len(self.frames)] = dyn
        try:
            over = self._body_override.pop(fn.qn, None)
            res = self.block(over if over is not None else fn.body(), st)
        finally:
            made = self._defs_in_frame.pop(len(self.frames), [])
            self.dyn.pop(len(self.frames), None)
            self.frames.pop()
        for key in made:
            lf_ = self.closures[key][0]
            for s_, oc_ in res:
                # closures see the final values of the enclosing function's variables - on the path that created them (the function object is bound in that path's
                # variables, or is what that path returns)
                if s_.exc is None and (any(v_ is lf_ for v_ in s_.env.values()) or (oc_ is not None and oc_[0] == 'return' and oc_[1] is lf_)):
                    self.closures[key][2] = dict(s_.env)
        out = []
        for s, oc in res:
            if s.exc is not None:
                p = Path(s, 'raise', None)
            elif oc is not None and oc[0] == 'return':
                p = Path(s, 'return', oc[1])
            else:
                p = Path(s, 'fall', NONE)
            p.local_env = s.env
            p.cm_frame = (s.env, dyn) if over is not None else None
            out.append(p)
        for p in out:
            p.outer_env = outer_env
        if not self.frames and (self.M.projections() or derived_exprs(self.M)):
            for p in out:
                lift_path(p, self.M.projections(), derived=derived_exprs(self.M))
        return out

    def _resolve_dyn(self, call_node, st):
        """targets of a call, with self.method(...) resolved in the dynamic class of self when that is known"""
        tg, how, layer = self.M.resolve_any(self.fn, call_node, self.tenv())
        f = call_node.func
        dyn = self.dyn.get(len(self.frames))
        if dyn is not None and isinstance(f, ast.Attribute) and isinstance(f.value, ast.Name) and f.value.id == 'self':
            m = dyn.lookup(f.attr)
            if m is not None and not m.is_property:
                tg = [m]
        return tg

    def _ctor_tables(self, cls):
        cache = self.M.__dict__.setdefault('_ctor_tables_cache', {})
        if cls.qn in cache:
            return cache[cls.qn]
        cache[cls.qn] = {}
        out = {}
        init = cls.lookup('__init__')
        if init is not None:
            try:
                sx = SymEx(self.M, policy=default_policy)
                ps = [p for p in sx.run(init, dyn=cls) if p.outcome in ('fall', 'return')]
            except Undecided:
                ps = []
            if len(ps) == 1:
                heap = ps[0].heap
                stored = {v: k for k, v in heap.items() if k[0] == 'attr' and k[1] == ('var', 'self') and v[0] == 'var'}
                for k, v in heap.items():
                    if not (k[0] == 'attr' and k[1] == ('var', 'self') and v[0] in ('dict', 'list', 'tuple', 'set') and v[1]):
                        continue
                    if self.M.field_written_outside_init(cls, k[2]):
                        continue
                    ok = True
                    def rep(z):
                        if z[0] == 'var' and z[1] in init.params:
                            return stored.get(z, ('var', '@ctor:' + z[1]))
                        return None
                    out[k] = T.replace(v, rep)
        cache[cls.qn] = out
        return out

    def run_entry(self, fn, args=None, self_term=None, dyn=None):
        """Summarise fn as callers see it: through its repo-defined decorators if it has any (else exactly run())."""
        decs = self._wrappers(fn) if fn.node.decorator_list else []
        if decs is None:
            raise Undecided('%s is wrapped by a decorator that is not modelled' % fn.qn)
        if not decs or args is not None:
            return self.run(fn, args=args, self_term=self_term, dyn=dyn)
        is_meth = fn.cls is not None and not fn.is_static
        ps = [p for p in fn.params if not (is_meth and p in ('self', 'cls') and p == fn.params[0])]
        bound = {p: ('var', p) for p in ps}
        st0 = State()
        st0.env = {'self': self_term or ('var', 'self')} if is_meth else {}
        host = self.M.module_func(fn.mod)
        out, seen = [], set()
        # callers may hand the arguments over by position or by keyword: a wrapper taking (*args, **kwargs) must treat both alike, so both are summarised
        for conv in ('positional', 'keyword'):
            self._kw_convention = conv == 'keyword'
            self.frames.append(host)
            try:
                res = self.inline_decorated(fn, decs, bound, (self_term or ('var', 'self')) if is_meth else None, st0.copy(), fn.node)
            except Undecided:
                if conv == 'positional':
                    raise
                res = []
            finally:
                self.frames.pop()
                self._kw_convention = False
            for s, v in res:
                p = Path(s, 'raise', None) if s.exc is not None else Path(s, 'return', v)
                p.local_env, p.outer_env = s.env, {}
                p.convention = conv
                k_ = (p.outcome, T.tkey(v) if v is not None and s.exc is None else (s.exc[1:3] if s.exc else None), tuple((T.tkey(c), b_) for c, b_, _ in p.conds),
                      tuple((T.tkey(e.loc), T.tkey(e.value) if e.value is not None else None, e.how) for e in p.flat_events() if e.kind == 'write'))
                if k_ in seen:
                    continue
                seen.add(k_)
                out.append(p)
        if self.M.projections() or derived_exprs(self.M):
            for p in out:
                lift_path(p, self.M.projections(), derived=derived_exprs(self.M))
        return out

    @property
    def fn(self):
        return self.frames[-1]

    def _consuming_names(self, fn):
        c = getattr(fn, '_consuming', None)
        if c is None:
            c = set()
            for n in ast.walk(fn.node):
                subs = []
                if isinstance(n, ast.Call):
                    subs = list(n.args) + [k.value for k in n.keywords]
                elif isinstance(n, (ast.For, ast.comprehension)):
                    subs = [n.iter]
                elif isinstance(n, (ast.Starred, ast.YieldFrom)):
                    subs = [n.value]
                elif isinstance(n, ast.Compare) and any(isinstance(o, (ast.In, ast.NotIn)) for o in n.ops):
                    subs = list(n.comparators)
                for s in subs:
                    if isinstance(s, ast.Starred):
                        s = s.value
                    if isinstance(s, ast.Name):
                        c.add(id(s))
            try:
                fn._consuming = c
            except Exception:
                pass
        return c

    def site(self, node):
        return '%s:%d' % (self.fn.path, getattr(node, 'lineno', 0))

    def tenv(self):
        return self.M.local_env(self.fn)

    # ------------------------------------------------------------------ statements
    def block(self, stmts, st):
        """-> list of (state, outcome) ; outcome None|('return',t)|('break',)|('continue',)"""
        cur = [(st, None)]
        for s in stmts:
            nxt = []
            for (x, oc) in cur:
                if oc is not None or x.exc is not None:
                    nxt.append((x, oc))
                    continue
                nxt.extend(self.stmt(s, x))
            cur = nxt
            if len(cur) > self.max_paths:
                raise Undecided('path explosion (> %d paths) in %s' % (self.max_paths, self.fn.qn))
        return cur

    def stmt(self, s, st):
        if isinstance(s, ast.Expr):
            if isinstance(s.value, ast.Constant):
                return [(st, None)]
            if isinstance(s.value, ast.YieldFrom) and isinstance(s.value.value, ast.Call):
                tg = self._resolve_dyn(s.value.value, st)
                if len(tg) == 1 and _is_generator(tg[0]):
                    return [(x, None) for x, _ in self.ev(s.value, st)]
            if isinstance(s.value, (ast.Yield, ast.YieldFrom)):
                out = []
                for x, v in self.ev(s.value.value, st) if s.value.value is not None else [(st, NONE)]:
                    out.append((x.ev(Ev('yield', value=v, site=self.site(s))) if x.exc is None else x, None))
                return out
            return [(x, None) for x, _ in self.ev(s.value, st)]
        if isinstance(s, ast.Pass):
            return [(st, None)]
        if isinstance(s, ast.Return):
            if s.value is None:
                return [(st, ('return', NONE))]
            return [(x, ('return', v)) for x, v in self.ev(s.value, st)]
        if isinstance(s, ast.Raise):
            exc = '?'
            out = []
            if s.exc is None:
                hd = st.env.get('@handling')
                if hd is not None and hd[1] not in ('?', None):
                    # a bare `raise` inside the handler of a modelled exception raises that exception again
                    owner = self.fn.cls.name if self.fn.cls is not None else (getattr(self, '_deco_owner', None) or [None])[-1]
                    if len(hd) > 2 and hd[2] is not None:
                        # ... and it is the SAME exception: raised where it was first raised, by whom it was first raised
                        x = st.ev(Ev('raise', exc=hd[1], site=hd[2][2], fn=hd[2][3], args=()))
                        x.exc = hd[2]
                        return [(x, None)]
                    x = st.ev(Ev('raise', exc=hd[1], site=self.site(s), fn=self.fn.qn, args=()))
                    x.exc = ('raise', hd[1], self.site(s), self.fn.qn, owner)
                    return [(x, None)]
                return [(st.copy(exc=('reraise', self.site(s))), None)]
            e = s.exc
            cname = ast.unparse(e.func) if isinstance(e, ast.Call) else ast.unparse(e)
            head = e.func if isinstance(e, ast.Call) else e
            if isinstance(head, ast.Name) and head.id in st.env:
                hv = st.env[head.id]
                if hv[0] == 'ext':
                    cname = hv[1].split('.')[-1]          # error_class = KeyError ; raise error_class(...)
                elif hv[0] == 'var' and hv[1].startswith('class:'):
                    cname = hv[1][6:]
            argsl = e.args if isinstance(e, ast.Call) else []
            res = self.seq(argsl, st)
            for x, vs in res:
                if x.exc is None:
                    x = x.ev(Ev('raise', exc=cname, site=self.site(s), fn=self.fn.qn, args=tuple(vs)))
                    owner = self.fn.cls.name if self.fn.cls is not None else (getattr(self, '_deco_owner', None) or [None])[-1]
                    x.exc = ('raise', cname, self.site(s), self.fn.qn, owner)
                out.append((x, None))
            return out
        if isinstance(s, ast.Assign):
            out = []
            for x, v in self.ev(s.value, st):
                cur = [x]
                if x.exc is None:
                    for t in s.targets:
                        nxt = []
                        for x1 in cur:
                            if x1.exc is not None:
                                nxt.append(x1)
                                continue
                            # a target forks only where a property setter that validates (or branches) runs
                            for x2 in self.assign_multi(t, v, x1, s):
                                if x2.exc is None and isinstance(t, ast.Name):
                                    if isinstance(s.value, ast.Attribute) and v[0] == 'attr':
                                        x2.env['@ast:' + t.id] = ('ast', id(s.value))     # price_of = self.handler.get_price : a bound method kept in a local
                                        self.closures[id(s.value)] = (None, s.value, None, self.fn)
                                    else:
                                        x2.env.pop('@ast:' + t.id, None)
                                nxt.append(x2)
                        cur = nxt
                out.extend((x1, None) for x1 in cur)
            return out
        if isinstance(s, ast.AnnAssign):
            if s.value is None:
                return [(st, None)]
            return [(y, None) for x, v in self.ev(s.value, st) for y in (self.assign_multi(s.target, v, x, s) if x.exc is None else [x])]
        if isinstance(s, ast.AugAssign):
            out = []
            load = ast.copy_location(_as_load(s.target), s.target)
            for x, old in self.ev(load, st):
                for y, v in self.ev(s.value, x):
                    if y.exc is None:
                        nv = self.binop(s.op, old, v)
                        if isinstance(s.target, ast.Name) and isinstance(s.op, ast.Add) and (v[0] == 'list' or _evident_sequence(v)) \
                                and not _is_local_container(old) and (old[0] == 'attr' or (old[0] == 'call' and old[1][0] in ('fn', 'meth'))):
                            # `xs += <list>` extends in place the object xs is bound to: when that is somebody else's list (an attribute, the answer of
                            # a call) rather than a container built here, the owner sees the change
                            y = y.ev(Ev('write', loc=old, value=nv, how='mut:extend', site=self.site(s), fn=self.fn.qn, old=None, delta=None, local=False))
                        if isinstance(s.target, ast.Name) and isinstance(s.op, ast.BitOr) and not _is_local_container(old) \
                                and (old[0] == 'attr' or (old[0] == 'call' and old[1][0] in ('fn', 'meth'))) and (v[0] in ('dict', 'set') or (v[0] == 'call' and v[1][0] in ('fn', 'meth'))):
                            # `d |= other` merges into the object d is bound to: somebody else's dict/set (an attribute, the answer of a call) changes for its owner too
                            y = y.ev(Ev('write', loc=old, value=nv, how='mut:update', site=self.site(s), fn=self.fn.qn, old=None, delta=None, local=False))
                        out.extend((y2, None) for y2 in self.assign_multi(s.target, nv, y, s, how='aug', old=old, delta=(v, type(s.op).__name__)))
                        continue
                    out.append((y, None))
            return out
        if isinstance(s, ast.Delete):
            x = st
            for t in s.targets:
                for y, loc in self.loc(t, x):
                    x = y.ev(Ev('write', loc=loc, value=None, how='del', site=self.site(s), fn=self.fn.qn, old=None, delta=None))
                    x.heap.pop(loc, None)
            return [(x, None)]
        if isinstance(s, ast.If):
            return self.if_(s, st)
        if isinstance(s, (ast.For, ast.While)):
            return self.loop(s, st)
        if isinstance(s, ast.Try):
            return self.try_(s, st)
        if isinstance(s, ast.With):
            return self.with_(s, st, 0)
        if isinstance(s, ast.Break):
            return [(st, ('break',))]
        if isinstance(s, ast.Continue):
            return [(st, ('continue',))]
        if isinstance(s, ast.FunctionDef):
            x = st.copy()
            g = getattr(self.fn, 'nested', {}).get(s.name)
            cid = next(self.uid)
            host = self.fn
            while getattr(host, 'parent', None) is not None:
                host = host.parent
            lf = ('localfn', s.name, host.qn)
            x.env[s.name] = lf
            # the closure: the nested function with the variables of its defining scope (updated to their final values when that scope returns);
            # keyed by the identity of the term object so that the term itself keeps its plain shape
            self.closures[('def', id(lf))] = [lf, s, dict(x.env), self.fn]
            self._defs_in_frame.setdefault(len(self.frames), []).append(('def', id(lf)))
            return [(x, None)]
        if isinstance(s, (ast.Import, ast.ImportFrom, ast.Global, ast.Nonlocal)):
            return [(st, None)]
        if isinstance(s, ast.Assert):
            return [(x, None) for x, _ in self.ev(s.test, st)]
        if isinstance(s, ast.Match):
            return self.block(_match_to_if(s, self.site(s)), st)
        raise Undecided('statement %s at %s' % (type(s).__name__, self.site(s)))

    def with_(self, s, st, idx):
        """`with` item idx of s.  A @contextmanager generator of the package (read through under the policy) runs in three steps, in this order:
        its statements up to the yield, the block, its statements after the yield (a `finally` also when the block raised)."""
        item = s.items[idx]

        def inner(y):
            return self.with_(s, y, idx + 1) if idx + 1 < len(s.items) else self.block(s.body, y)
        tg = self._resolve_dyn(item.context_expr, st) if isinstance(item.context_expr, ast.Call) and st.exc is None else []
        is_cm = len(tg) == 1 and any(ast.unparse(d_.func if isinstance(d_, ast.Call) else d_).split('.')[-1] == 'contextmanager' for d_ in tg[0].node.decorator_list)
        if not is_cm:
            out = []
            for y, v in self.ev(item.context_expr, st):
                if item.optional_vars is not None and y.exc is None:
                    y = self.assign(item.optional_vars, v, y, s)
                out.extend(inner(y) if y.exc is None else [(y, None)])
            return out
        g = tg[0]
        split = _split_cm(g.body())
        if split is None:
            raise Undecided('context manager %s: the place of its yield is not one this analysis follows (at %s)' % (g.qn, self.site(s)))
        prefix, yv, ytarget, suffix, final, after, handlers = split
        self._body_override[g.qn] = list(prefix) + [ast.copy_location(ast.Return(value=yv), prefix[-1] if prefix else g.node)]
        try:
            entered = self.ev(item.context_expr, st)
        finally:
            used = g.qn not in self._body_override
            self._body_override.pop(g.qn, None)
        out = []
        for y, v in entered:
            if y.exc is not None:
                out.append((y, None))
                continue
            frame = y.env.pop('@cm', None) if used else None
            if frame is None:
                # not read through under this policy: the manager stays an opaque call, its body does not run here
                if item.optional_vars is not None:
                    y = self.assign(item.optional_vars, v, y, s)
                out.extend(inner(y))
                continue
            genv, gdyn = frame
            y = y.ev(Ev('yield', value=v, site=g.site()))
            if item.optional_vars is not None:
                y = self.assign(item.optional_vars, v, y, s)
            for z, oc in inner(y):
                if isinstance(item.optional_vars, ast.Name) and v[0] == 'new' and z.env.get(item.optional_vars.id) is not v \
                        and z.env.get(item.optional_vars.id, ZERO)[0] == 'new' and z.env[item.optional_vars.id][1] == v[1]:
                    # the block updated the record it was handed: the generator's own name for it denotes the same object
                    gz = {k_: (z.env[item.optional_vars.id] if v_ is v else v_) for k_, v_ in genv.items()}
                else:
                    gz = genv
                if z.exc is not None:
                    if handlers:
                        raise Undecided('context manager %s handles exceptions of the block at %s' % (g.qn, self.site(s)))
                    if not final:
                        out.append((z, oc))
                        continue
                    e_ = z.exc
                    for w, oc2 in self._in_frame(g, gdyn, gz, final, z.copy(exc=None)):
                        if w.exc is None and (oc2 is None or oc2[0] != 'return'):
                            w.exc = e_
                        out.append((w, oc))
                    continue
                tail = ([ast.copy_location(ast.Assign(targets=[ytarget], value=ast.Constant(value=None)), ytarget)] if ytarget is not None else []) + list(suffix)
                # (statements after the try run only when nothing in it returned)
                res = self._in_frame(g, gdyn, gz, tail, z) if tail else [(z, None)]
                for w, oc2 in res:
                    if final and w.exc is None:
                        genv2 = w.env.pop('@cmenv', gz)
                        res2 = self._in_frame(g, gdyn, genv2, list(final) + (list(after) if oc2 is None else []), w)
                    elif w.exc is None and oc2 is None and after:
                        genv2 = w.env.pop('@cmenv', gz)
                        res2 = self._in_frame(g, gdyn, genv2, list(after), w)
                    else:
                        res2 = [(w, None)]
                    for u, _ in res2:
                        u.env.pop('@cmenv', None)
                        out.append((u, oc))
        return out

    def _in_frame(self, fn, dyn, env, stmts, st):
        """Run statements of `fn` (a generator resumed after its yield) on st with fn's own variables; the caller's variables come back afterwards."""
        saved = st.env
        x = st.ev(Ev('enter', fn=fn.qn, site=fn.site(), caller=self.fn.qn))
        x.env = dict(env)
        self.frames.append(fn)
        self.dyn[len(self.frames)] = dyn
        try:
            res = self.block(stmts, x)
        finally:
            self.dyn.pop(len(self.frames), None)
            self.frames.pop()
        out = []
        for y, oc in res:
            genv = y.env
            y.env = dict(saved)
            y.env['@cmenv'] = genv
            y.events = y.events + (Ev('exit', fn=fn.qn, outcome='raise' if y.exc is not None else 'fall'),)
            out.append((y, oc))
        return out

    def is_print_guard(self, s):
        if not self.skip_print_guards or s.orelse:
            return False
        t = s.test

        def is_flag(x):
            return (isinstance(x, ast.Attribute) and x.attr == 'PRINT_EVENTS') or (isinstance(x, ast.Name) and x.id == 'PRINT_EVENTS')
        ok = is_flag(t)
        if not ok and isinstance(t, ast.BoolOp) and isinstance(t.op, ast.And) and any(is_flag(v) for v in t.values):
            ok = not any(isinstance(n, ast.Call) for v in t.values for n in ast.walk(v))
        if not ok:
            return False
        for b in s.body:
            if not (isinstance(b, ast.Expr) and isinstance(b.value, ast.Call) and isinstance(b.value.func, ast.Name) and b.value.func.id == 'print'):
                return False
        return True

    def is_inert(self, stmts):
        """statements that only print (possibly under a print guard): no effect on any property"""
        for b in stmts:
            if isinstance(b, ast.Pass):
                continue
            if isinstance(b, ast.Expr) and isinstance(b.value, ast.Call) and isinstance(b.value.func, ast.Name) and b.value.func.id == 'print':
                continue
            if isinstance(b, ast.If) and self.is_print_guard(b):
                continue
            return False
        return True

    def if_(self, s, st):
        if self.is_print_guard(s):
            return [(st, None)]
        if self.skip_print_guards and not s.orelse and self.is_inert(s.body):
            return [(x, None) for x, _ in self.ev(s.test, st)]
        out = []
        for x, t in self.ev(s.test, st):
            if x.exc is not None:
                out.append((x, None))
                continue
            for y, b in self.decide(t, x, s):
                out.extend(self.block(s.body if b else s.orelse, y))
        return out

    def decide(self, t, st, node):
        """-> list of (state, bool)"""
        v = truth(t)
        if v is not None:
            return [(st, v)]
        h = t[0]
        if h == 'call' and t[1] == ('ext', 'BOOL') and len(t[2]) == 1:
            return self.decide(t[2][0], st, node)
        if h == 'not':
            return [(x, not b) for x, b in self.decide(t[1], st, node)]
        if h == 'and':
            cur = [(st, True)]
            for it in t[1]:
                nxt = []
                for x, b in cur:
                    if not b:
                        nxt.append((x, False))
                    else:
                        nxt.extend(self.decide(it, x, node))
                cur = nxt
            return cur
        if h == 'or':
            cur = [(st, False)]
            for it in t[1]:
                nxt = []
                for x, b in cur:
                    if b:
                        nxt.append((x, True))
                    else:
                        nxt.extend(self.decide(it, x, node))
                cur = nxt
            return cur
        if h == 'ite':
            out = []
            for x, b in self.decide(t[1], st, node):
                out.extend(self.decide(t[2] if b else t[3], x, node))
            return out
        if self.oracle is not None and h == 'call' and t[1] in (('ext', 'ANY'), ('ext', 'ALL')) and len(t[2]) == 1 and t[2][0][0] in ('list', 'tuple') and not t[3] \
                and 1 <= len(t[2][0][1]) <= 6:
            # any([a, b, c]) with the tests written out: decided test by test when an oracle can speak about them (the test itself stays one condition of the path)
            vs = [self.oracle.evalbool(z) if hasattr(self.oracle, 'evalbool') else None for z in t[2][0][1]]
            r = None
            if t[1][1] == 'ANY':
                r = True if any(v is True for v in vs) else (None if None in vs else False)
            else:
                r = False if any(v is False for v in vs) else (None if None in vs else True)
            if r is not None:
                x = st.copy()
                x.decided[T.tkey(t)] = r
                x.conds = st.conds + ((t, r, self.site(node)),)
                return [(x, r)]
        k = T.tkey(t)
        if k in st.decided:
            return [(st, st.decided[k])]
        if self.oracle and (self.M.projections() or derived_exprs(self.M)):
            # the oracle speaks about logical fields: show it the test with stored locations lifted to the properties that project them
            if getattr(self, '_lift_f', None) is None:
                self._lift_f = _lifter(self.M.projections(), derived_exprs(self.M))
            b = self.oracle(T.replace(t, self._lift_f), st)
        else:
            b = self.oracle(t, st) if self.oracle else None
        site = self.site(node)
        if b is not None:
            x = st.copy()
            x.decided[k] = b
            x.conds = st.conds + ((t, b, site),)
            return [(x, b)]
        out = []
        for b in (True, False):
            x = st.copy()
            x.decided[k] = b
            x.conds = st.conds + ((t, b, site),)
            out.append((x, b))
        return out

    # ------------------------------------------------------------------ loops
    def _assigned_names(self, stmts):
        out = set()
        for s in stmts:
            for n in ast.walk(s):
                if isinstance(n, ast.Name) and isinstance(n.ctx, (ast.Store, ast.Del)):
                    out.add(n.id)
                elif isinstance(n, ast.Call) and isinstance(n.func, ast.Attribute) and n.func.attr in MUTATORS and isinstance(n.func.value, ast.Name):
                    out.add(n.func.value.id)
                elif isinstance(n, ast.Subscript) and isinstance(n.ctx, (ast.Store, ast.Del)) and isinstance(n.value, ast.Name):
                    out.add(n.value.id)
        return out

    def _stored_names(self, stmts):
        out = set()
        for s in stmts:
            for n in ast.walk(s):
                if isinstance(n, ast.Name) and isinstance(n.ctx, (ast.Store, ast.Del)):
                    out.add(n.id)
        return out

    def _enum_members(self, v):
        """iterating an Enum class yields its members in definition order (list(Color), for c in Color)"""
        w = v
        while w[0] == 'call' and w[1] in (('ext', 'LIST'), ('ext', 'TUPLE')) and len(w[2]) == 1 and not w[3]:
            w = w[2][0]
        if not (w[0] == 'var' and w[1].startswith('class:')):
            return v
        c_ = self.M.cls(w[1][6:])
        if c_ is None or not any(bn.split('.')[-1] in ('Enum', 'IntEnum', 'IntFlag', 'Flag', 'StrEnum') for k_ in c_.mro() for bn in k_.base_names):
            return v
        out = []
        for name, expr in c_.class_attrs.items():
            if name.startswith('_') or c_.lookup(name) is not None:
                continue
            self.frames.append(self.M.module_func(c_.mod))
            try:
                r_ = self.ev(expr, State())
            except Undecided:
                return v
            finally:
                self.frames.pop()
            if len(r_) != 1 or r_[0][1][0] not in ('num', 'str', 'tuple'):
                return v
            lit = r_[0][1]
            if any(bn.split('.')[-1] in ('IntEnum', 'IntFlag', 'StrEnum') for k_ in c_.mro() for bn in k_.base_names):
                out.append(lit)
            else:
                m_ = self._enum_member(c_, name, lit, expr)
                if m_ not in out:           # (a name whose value repeats an earlier member's is an alias of it, not a member of its own)
                    out.append(m_)
        return ('list', tuple(out)) if out else v

    def _enum_members_dict(self, c_):
        """every NAME of the enumeration in definition order, aliases included, with the member it denotes (Class.__members__, Class[name])"""
        items_ = []
        for n0, e0 in c_.class_attrs.items():
            if n0.startswith('_') or c_.lookup(n0) is not None:
                continue
            self.frames.append(self.M.module_func(c_.mod))
            try:
                r0 = self.ev(e0, State())
            except Undecided:
                r0 = []
            finally:
                self.frames.pop()
            if len(r0) != 1 or r0[0][1][0] not in ('num', 'str', 'tuple'):
                return None
            items_.append((('str', n0), self._enum_member(c_, n0, r0[0][1], e0)))
        return ('dict', tuple(items_)) if items_ else None

    def _enum_member(self, c_, name, lit, node):
        """the member NAME = value of a plain Enum: a record (name, value) - plus the attributes a class-defined __init__(self, *value) assigns from the value"""
        # Enum semantics: a name bound to a value an earlier name already has is an ALIAS - Class.LATER is the earlier member itself
        if not getattr(self, '_in_alias_scan', False):
            self._in_alias_scan = True
            try:
                for n0, e0 in c_.class_attrs.items():
                    if n0 == name:
                        break
                    if n0.startswith('_') or c_.lookup(n0) is not None:
                        continue
                    self.frames.append(self.M.module_func(c_.mod))
                    try:
                        r0 = self.ev(e0, State())
                    except Undecided:
                        r0 = []
                    finally:
                        self.frames.pop()
                    if len(r0) == 1 and r0[0][1] == lit:
                        name, node = n0, e0
                        break
            finally:
                self._in_alias_scan = False
        fields = {'name': ('str', name), 'value': lit}
        init = c_.methods.get('__init__')
        if init is not None:
            args = list(lit[1]) if lit[0] == 'tuple' else [lit]
            self.frames.append(self.M.module_func(c_.mod))
            try:
                res = self.construct(c_, self.bind(init, args, []), State(), node)
            except Undecided:
                res = []
            finally:
                self.frames.pop()
            if len(res) == 1 and res[0][1][0] == 'new':
                for k_, v_ in res[0][1][2]:
                    fields.setdefault(k_, v_)
        return ('new', 'enum:' + c_.name, tuple(sorted(fields.items())))

    def loop(self, s, st):
        is_for = isinstance(s, ast.For)
        if is_for and isinstance(s.iter, ast.Call) and len(s.body) == 1 and isinstance(s.body[0], ast.Expr) and isinstance(s.body[0].value, ast.Yield) \
                and isinstance(s.target, ast.Name) and isinstance(s.body[0].value.value, ast.Name) and s.body[0].value.value.id == s.target.id and not s.orelse:
            # for v in g(...): yield v   ==   yield from g(...)
            tg = self._resolve_dyn(s.iter, st)
            if len(tg) == 1 and _is_generator(tg[0]):
                return [(x, None) for x, v in self.ev(ast.copy_location(ast.YieldFrom(value=s.iter), s), st)]
        heads0 = None
        if is_for and not self.suppress:
            heads = heads0 = [(x_, _literal_rows(self._enum_members(v_))) for x_, v_ in self.ev(s.iter, st)]
            # heads whose iterable is written out (a literal table, an emptied container) are run exactly; the others go through the general summary below
            pre_out, rest = [], []
            for h_st, h_it in heads:
                if h_st.exc is None and h_it in (('list', ()), ('tuple', ()), ('dict', ()), ('set', ())):
                    # nothing to iterate: the body never runs
                    pre_out.extend(self.block(s.orelse, h_st) if s.orelse else [(h_st, None)])
                elif h_st.exc is None and h_it[0] in ('tuple', 'list') and 1 <= len(h_it[1]) <= 8 and not any(z[0] == 'starred' for z in h_it[1]):
                    # a loop over a literal table runs its body once per row, in order: unrolled exactly (continue/break/return/raise included)
                    live, done = [h_st], []
                    for item in h_it[1]:
                        nxt = []
                        for s0 in live:
                            b0 = self.assign(s.target, item, s0, s, silent=True)
                            for y, oc in self.block(s.body, b0):
                                if y.exc is not None or (oc is not None and oc[0] == 'return'):
                                    done.append((y, oc))
                                elif oc is not None and oc[0] == 'break':
                                    done.append((y, ('broke',)))
                                else:
                                    nxt.append(y)
                        live = nxt
                    for y in live:
                        pre_out.extend(self.block(s.orelse, y) if s.orelse else [(y, None)])
                    for y, oc in done:
                        pre_out.append((y, None if oc == ('broke',) else oc))
                else:
                    rest.append((h_st, h_it))
            if not rest:
                return pre_out
            heads0 = rest
        lid = next(self.uid)
        out = list(pre_out) if heads0 is not None else []
        heads = (heads0 if heads0 is not None else self.ev(s.iter, st)) if is_for else [(st, None)]
        for x, it in heads:
            if x.exc is not None:
                out.append((x, None))
                continue
            body_names = self._assigned_names(s.body)
            body_names = {n for n in body_names if n in self._stored_names(s.body) or (n in x.env and _is_local_container(x.env[n]))}
            tgt_names = self._assigned_names([s.target]) if is_for else set()
            carried = {n for n in body_names if n in x.env and n not in tgt_names}
            # body state: loop-carried locals are fresh symbols ('lc', name, id)
            b = State(dict(x.env), dict(x.heap), (), (), dict(x.decided))
            for n in carried:
                b.env[n] = ('lc', n, lid)
            # loop-carried heap locations: first pass to discover which are written
            if is_for:
                bind_val = ('elem', it, lid)
                while it[0] == 'call' and it[1] == ('ext', 'builtins.iter') and len(it[2]) == 1 and not it[3]:
                    it = it[2][0]               # for x in iter(xs) visits xs
                    bind_val = ('elem', it, lid)
                dview = None
                if it[0] == 'call' and it[1][0] == 'meth' and it[1][1] in ('items', 'values', 'keys') and len(it[2]) == 1 and it[2][0][0] == 'comp' and it[2][0][1] == 'dict':
                    dview, dcomp = it[1][1], it[2][0]
                elif it[0] == 'comp' and it[1] == 'dict':
                    dview, dcomp = 'keys', it
                if dview is not None and dcomp[2][0] == 'tuple' and len(dcomp[2][1]) == 2:
                    # the views of {k(x): v(x) for x in src}, in order, are (k(x), v(x)) / v(x) / k(x) for x in src (keys taken as distinct: the table is
                    # keyed by what identifies x)
                    it = ('comp', 'gen', {'items': dcomp[2], 'values': dcomp[2][1][1], 'keys': dcomp[2][1][0]}[dview], dcomp[3])
                    bind_val = ('elem', it, lid)
                if it[0] == 'comp' and it[1] in ('gen', 'list') and len(it[3]) == 1 and not it[3][0][2] and all(z[0] == 'bv' for z in it[3][0][0]):
                    # for y in (f(x) for x in src): ...   ==   for x in src: y = f(x); ...
                    shape, src, _ = it[3][0]
                    el = ('elem', src, lid)
                    m_ = {shape[0]: el} if len(shape) == 1 else {bv: ('sub', el, num(k)) for k, bv in enumerate(shape)}
                    bind_val = T.replace(it[2], lambda z: m_.get(z) if z[0] == 'bv' else None)
                    it = src
                b = self.assign(s.target, bind_val, b, s, silent=True)
                test_t = None
            probe = self._loop_body(s, b, is_for)
            written = set()
            for p in probe:
                for e in p.flat_events(False):
                    if e.kind == 'write' and e.how in ('assign', 'aug') and e.loc in x.heap or (e.kind == 'write' and e.how in ('assign', 'aug')):
                        written.add(e.loc)
            # containers built on this path and held in a field (self.table = {} ... self.table[k] = v in the loop) are carried like local ones
            cbases = set()
            for p in probe:
                for e in p.flat_events(True):
                    if e.kind == 'write' and e.how == 'assign' and not e.d.get('local') and e.loc[0] == 'sub' and e.loc[1] in x.heap and _is_local_container(x.heap[e.loc[1]]):
                        cbases.add(e.loc[1])
            cbases -= written
            hb = b.copy()
            pre_heap = {}
            for loc in written:
                pre_heap[loc] = x.heap.get(loc, loc)
                hb.heap[loc] = ('lc', T.fmt(loc), lid)
            for loc in cbases:
                hb.heap[loc] = ('lc', T.fmt(loc), lid)
            paths = self._loop_body(s, hb, is_for) if (written or cbases) else probe
            # merge: additive updates become sums, everything else is havoc
            y = x.copy()
            normal = [p for p in paths if p.outcome in ('fall', 'continue')]
            for n in body_names | tgt_names:
                if n in carried:
                    deltas = []
                    for p in normal:
                        v = p.env.get(n)
                        try:
                            d = T.rat(v) - T.rat(('lc', n, lid))
                            dep = any(a[0] == 'lc' and a[-1] == lid for at in d.atoms() for a in T.subterms(at))
                        except Exception:
                            dep = True
                            d = None
                        deltas.append(None if dep else T.unrat(d))
                    vals = [p.env.get(n) for p in normal]
                    if deltas and all(d is not None for d in deltas) and all(T.teq(d, deltas[0]) for d in deltas):
                        y.env[n] = T.t_add(x.env[n], ('sum', lid, deltas[0])) if not (deltas[0] == ZERO) else x.env[n]
                    elif len(normal) == 2 and all(d is not None for d in deltas) and len(normal[0].conds) == 1 and len(normal[1].conds) == 1 \
                            and normal[0].conds[0][0] == normal[1].conds[0][0] and normal[0].conds[0][1] != normal[1].conds[0][1]:
                        # `if c: acc += a` (else `acc += b`): the per-element contribution is a conditional term
                        c_ = normal[0].conds[0][0]
                        dt_, df_ = (deltas[0], deltas[1]) if normal[0].conds[0][1] else (deltas[1], deltas[0])
                        y.env[n] = T.t_add(x.env[n], ('sum', lid, ('ite', c_, dt_, df_)))
                    elif deltas and all(d is not None for d in deltas) and len([d for d in deltas if d != ZERO]) >= 1 and \
                            all(T.teq(d, [d_ for d_ in deltas if d_ != ZERO][0]) for d in deltas if d != ZERO) and not any(c[0][0] == 'exc' for p in normal for c in p.conds):
                        # `if c1 and c2 (a chained comparison, nested ifs): acc += a`: one contribution under the disjunction of the paths that add it
                        conjs = []
                        for p, d in zip(normal, deltas):
                            if d != ZERO:
                                cs_ = tuple((c if b_ else mk_not(c)) for c, b_, _ in p.conds)
                                conjs.append(('and', cs_) if len(cs_) > 1 else (cs_[0] if cs_ else TRUE))
                        guard = ('or', tuple(conjs)) if len(conjs) > 1 else conjs[0]
                        y.env[n] = T.t_add(x.env[n], ('sum', lid, ('ite', guard, [d_ for d_ in deltas if d_ != ZERO][0], ZERO)))
                    elif vals and all(v is not None and _rooted(v, ('lc', n, lid)) for v in vals):
                        cmp_ = self._accum_to_comp(lid, x.env[n], paths, n, it, is_for)
                        y.env[n] = cmp_ if cmp_ is not None else ('accum', lid, x.env[n], tuple(vals))
                    else:
                        y.env[n] = ('havoc', n, lid)
                else:
                    y.env[n] = ('havoc', n, lid)
            for loc in written:
                deltas = []
                for p in normal:
                    v = p.heap.get(loc)
                    try:
                        d = T.rat(v) - T.rat(('lc', T.fmt(loc), lid))
                        dep = any(a[0] == 'lc' and a[-1] == lid for at in d.atoms() for a in T.subterms(at))
                    except Exception:
                        dep, d = True, None
                    deltas.append(None if dep else T.unrat(d))
                if deltas and all(d is not None for d in deltas) and all(T.teq(d, deltas[0]) for d in deltas):
                    y.heap[loc] = T.t_add(pre_heap[loc], ('sum', lid, deltas[0]))
                else:
                    y.heap[loc] = ('havoc', T.fmt(loc), lid)
            for loc in cbases:
                vals = [p.heap.get(loc) for p in normal]
                root_ = ('lc', T.fmt(loc), lid)
                if vals and all(v is not None and _rooted(v, root_) for v in vals):
                    cmp_ = self._accum_to_comp(lid, x.heap[loc], paths, T.fmt(loc), it, is_for, get=lambda p, loc=loc: p.heap.get(loc))
                    y.heap[loc] = cmp_ if cmp_ is not None else ('accum', lid, x.heap[loc], tuple(vals))
                else:
                    y.heap[loc] = ('havoc', T.fmt(loc), lid)
            test_t = None
            if not is_for:
                tt = self.ev(s.test, State(dict(b.env), dict(b.heap)))
                test_t = tt[0][1] if tt else None
            y = y.ev(Ev('loop', id=lid, iter=it if is_for else test_t, is_for=is_for, paths=paths, site=self.site(s), fn=self.fn.qn,
                        carried=sorted(carried), node=s, pre_env={n: x.env[n] for n in carried}))
            # a pure search loop  `for x in it: if c(x): raise/return`  is the test any(c(x) for x in it)
            search = None
            if is_for and len(paths) == 2 and not carried and not written:
                stay = [p for p in paths if p.outcome == 'fall']
                leave = [p for p in paths if p.outcome in ('raise', 'return')]
                if len(stay) == 1 and len(leave) == 1 and len(stay[0].conds) == 1 and len(leave[0].conds) == 1 and stay[0].conds[0][0] == leave[0].conds[0][0] \
                        and stay[0].conds[0][1] != leave[0].conds[0][1] and not [e for e in stay[0].events if e.kind in ('write', 'call') and e.d.get('layer', 1) != 0]:
                    c, v = leave[0].conds[0][0], leave[0].conds[0][1]
                    bv = ('bv', self.bv_depth)
                    el = ('elem', it, lid)
                    body_c = T.replace(c if v else mk_not(c), lambda z: bv if z == el else None)
                    if not any(z[0] == 'elem' and z[-1] == lid for z in T.subterms(body_c)):
                        search = ('call', ('ext', 'ANY'), (('comp', 'gen', body_c, (((bv,), it, ()),)),), ())
                        y.conds = y.conds + ((search, False, self.site(s)),)
            out.append((y, None))
            # exits from inside the body leave the function / raise
            for p in paths:
                if p.outcome in ('return', 'raise'):
                    z = x.copy()
                    z = z.ev(Ev('loop', id=lid, iter=it if is_for else test_t, is_for=is_for, paths=[p], site=self.site(s), fn=self.fn.qn,
                                carried=sorted(carried), node=s, partial=True, all_paths=paths))
                    if search is not None:
                        z.conds = z.conds + ((search, True, self.site(s)),)
                    else:
                        z.conds = z.conds + tuple((c, v, sx) for c, v, sx in p.conds)
                    if p.outcome == 'raise':
                        z.exc = p.state.exc
                        out.append((z, None))
                    else:
                        out.append((z, ('return', p.value)))
            if s.orelse:
                nxt = []
                for (z, oc) in out:
                    if oc is None and z.exc is None:
                        nxt.extend(self.block(s.orelse, z))
                    else:
                        nxt.append((z, oc))
                out = nxt
        return out

    def _accum_to_comp(self, lid, pre, paths, name, it, is_for, get=None):
        """An accumulation loop over an empty container with one append/setitem per (optionally filtered) element is the
        comprehension it spells: for x in it: if c: out.append(f(x))  ==  [f(x) for x in it if c]."""
        if not is_for:
            return None
        empty = pre in (('list', ()), ('dict', ()), ('set', ())) or (pre[0] == 'call' and pre[1][0] == 'ext' and pre[1][1] in ('LIST', 'DICT', 'SET', 'collections.OrderedDict')
                                                                    and not pre[2] and not pre[3])
        if not empty:
            return None
        root = ('lc', name, lid)
        ops = []
        normal_conds = []
        skipped = False
        for p in paths:
            if p.outcome == 'raise':
                continue
            if p.outcome not in ('fall', 'continue'):
                return None
            normal_conds.append({(T.tkey(c), b) for c, b, _ in p.conds})
            v = p.env.get(name) if get is None else get(p)
            if v == root:
                skipped = True
                continue
            if v[0] == 'call' and v[1][0] == 'ext' and v[1][1] in ('APPENDED', 'SETITEM') and v[2][0] == root and not v[3]:
                ops.append((p, v))
            else:
                return None
        if not ops:
            return None
        kinds = {v[1][1] for p, v in ops}
        if len(kinds) != 1:
            return None
        kind = kinds.pop()
        elts = []
        for p, v in ops:
            elt = v[2][1] if kind == 'APPENDED' else ('tuple', (v[2][1], v[2][2]))
            if len(v[2]) != (2 if kind == 'APPENDED' else 3):
                return None
            # conditions shared by every normally completing iteration guard against a refusal, they do not filter elements
            common = set.intersection(*normal_conds) if normal_conds else set()
            conds = tuple((c if b else mk_not(c)) for c, b, _ in p.conds if c[0] != 'exc' and (T.tkey(c), b) not in common)
            elts.append((elt, conds))
        # several appending paths with the same element: their conditions are alternatives of one filter
        if len(elts) > 1:
            if not all(T.teq(e[0], elts[0][0]) for e in elts):
                return None
            if not skipped and not any(p.outcome == 'raise' for p in paths):
                conds = ()              # every way through the body adds the same element: the branches (of something else computed alongside) filter nothing
            else:
                conds = (('or', tuple(('and', c) if len(c) > 1 else (c[0] if c else TRUE) for _, c in elts)),)
            elt = elts[0][0]
        else:
            elt, conds = elts[0]
        elem = ('elem', it, lid)
        idx = set()
        bare = [False]

        def scan(t, parent_is_sub=False):
            for sub in T.subterms(t):
                if sub[0] == 'sub' and sub[1] == elem and sub[2][0] == 'num' and sub[2][1].denominator == 1 and sub[2][1] >= 0:
                    idx.add(int(sub[2][1]))
        def count_bare(t):
            # occurrences of elem not directly under a constant subscript
            n_all = sum(1 for sub in T.subterms(t) if sub == elem)
            n_sub = sum(1 for sub in T.subterms(t) if sub[0] == 'sub' and sub[1] == elem and sub[2][0] == 'num')
            return n_all - n_sub
        terms = [elt] + list(conds)
        for t in terms:
            scan(t)
        nbare = sum(count_bare(t) for t in terms)
        # fresh bound variables: above the current depth AND above every bound variable already inside the element (parameters of a lambda it builds, ...)
        base = max([self.bv_depth] + [z[1] + 1 for t in terms for z in T.subterms(t) if z[0] == 'bv' and isinstance(z[1], int)])
        if idx and nbare == 0:
            n = max(idx) + 1
            bvs = tuple(('bv', base + i) for i in range(n))
            rep = lambda t: (bvs[int(t[2][1])] if (t[0] == 'sub' and t[1] == elem and t[2][0] == 'num' and t[2][1].denominator == 1 and 0 <= t[2][1] < n) else None)
        else:
            bvs = (('bv', base),)
            rep = lambda t: (bvs[0] if t == elem else None)

        def top_down(t):
            r = rep(t)
            if r is not None:
                return r
            if not isinstance(t, tuple) or not t or not isinstance(t[0], str):
                return t
            if t[0] == 'rat':
                return T.unrat(t[1].subst(lambda a: T.rat(top_down(a))))
            if t[0] in ('num', 'str', 'const', 'var', 'ext', 'fn', 'meth', 'mod', 'bv', 'havoc', 'lc'):
                return t
            return (t[0],) + tuple(_map_nested(z, top_down) for z in t[1:])
        elt2 = top_down(elt)
        conds2 = tuple(top_down(c) for c in conds)
        if any(sub[0] == 'lc' and sub[-1] == lid for t in (elt2,) + conds2 for sub in T.subterms(t)):
            return None
        ckind = {'APPENDED': 'list', 'SETITEM': 'dict'}[kind]
        if pre == ('set', ()) or (pre[0] == 'call' and pre[1] == ('ext', 'SET')):
            ckind = 'set'
        return ('comp', ckind, elt2, ((bvs, it, conds2),))

    def _loop_body(self, s, b, is_for):
        sts = [(b, None)]
        if not is_for:
            sts = []
            for x, t in self.ev(s.test, b):
                for y, v in self.decide(t, x, s):
                    if v:
                        sts.append((y, None))
        res = []
        for x, _ in sts:
            res.extend(self.block(s.body, x))
        paths = []
        for x, oc in res:
            if x.exc is not None:
                paths.append(Path(x, 'raise', None))
            elif oc is None:
                paths.append(Path(x, 'fall', None))
            elif oc[0] == 'return':
                paths.append(Path(x, 'return', oc[1]))
            else:
                paths.append(Path(x, oc[0], None))
        return paths

    def try_(self, s, st):
        out = []
        before = getattr(self, '_modelled_lookups', 0)
        catches_key = any(h.type is not None and any(z in ('KeyError', 'LookupError') for z in
                                                      ([ast.unparse(q) for q in h.type.elts] if isinstance(h.type, ast.Tuple) else [ast.unparse(h.type)])) for h in s.handlers)
        catches_value = any(h.type is not None and any(z == 'ValueError' for z in
                                                       ([ast.unparse(q) for q in h.type.elts] if isinstance(h.type, ast.Tuple) else [ast.unparse(h.type)])) for h in s.handlers)
        self.try_lookup += 1 if catches_key else 0
        self.try_value += 1 if catches_value else 0
        try:
            body = self.block(s.body, st)
        finally:
            self.try_lookup -= 1 if catches_key else 0
            self.try_value -= 1 if catches_value else 0
        # a body made only of modelled table lookups (and, under `except ValueError`, of int() conversions) raises nothing the model does not show
        only_lookups = getattr(self, '_modelled_lookups', 0) > before and not any(
            isinstance(n, ast.Call) and not (catches_value and isinstance(n.func, ast.Name) and n.func.id == 'int' and len(n.args) == 1 and not n.keywords)
            for b_ in s.body for n in ast.walk(b_))
        catch_all = any(h.type is None or (isinstance(h.type, ast.Name) and h.type.id in ('Exception', 'BaseException')) for h in s.handlers)
        for x, oc in body:
            if x.exc is not None:
                exc_cls = x.exc[1] if x.exc[0] == 'raise' else '?'
                handled = False
                for h in s.handlers:
                    hn = ast.unparse(h.type) if h.type is not None else None
                    hns = [ast.unparse(z) for z in h.type.elts] if isinstance(h.type, ast.Tuple) else [hn]
                    if hn is None or any(z in ('Exception', 'BaseException', 'LookupError' if exc_cls in ('KeyError', 'IndexError') else '-') or z == exc_cls for z in hns):
                        y = x.copy(exc=None)
                        if h.name:
                            y.env[h.name] = ('exc', exc_cls)
                        y.env['@handling'] = ('exc', exc_cls, x.exc if x.exc[0] == 'raise' and len(x.exc) > 3 else None)
                        out.extend(self.block(h.body, y))
                        handled = True
                        break
                if not handled:
                    out.append((x, oc))
            else:
                if oc is None and s.orelse:
                    out.extend(self.block(s.orelse, x))
                else:
                    out.append((x, oc))
        # an exception raised by a non-modelled call inside the body: handler entered from the try's start state
        for h in ([] if only_lookups else s.handlers):
            y = st.copy()
            hn = ast.unparse(h.type) if h.type is not None else 'BaseException'
            y = y.ev(Ev('except', exc=hn, site=self.site(h), fn=self.fn.qn))
            y.conds = y.conds + ((('exc', hn, self.site(h)), True, self.site(h)),)
            if h.name:
                y.env[h.name] = ('exc', hn)
            out.extend(self.block(h.body, y))
        if s.finalbody:
            nxt = []
            for x, oc in out:
                e = x.exc
                for y, oc2 in self.block(s.finalbody, x.copy(exc=None)):
                    if oc2 is None:
                        y.exc = e
                        nxt.append((y, oc))
                    else:
                        nxt.append((y, oc2))
            out = nxt
        return out

    # ------------------------------------------------------------------ assignment
    def loc(self, t, st):
        """location term of a store target: -> list of (state, loc)"""
        if isinstance(t, ast.Attribute):
            return [(x, ('attr', b, t.attr)) for x, b in self.ev(t.value, st)]
        if isinstance(t, ast.Subscript):
            out = []
            for x, b in self.ev(t.value, st):
                for y, i in self.ev(t.slice, x):
                    out.append((y, ('sub', b, i)))
            return out
        if isinstance(t, ast.Name):
            return [(st, ('var', t.id))]
        raise Undecided('store target %s' % type(t).__name__)

    def assign(self, t, v, st, node, how='assign', old=None, delta=None, silent=False):
        if isinstance(t, ast.Name):
            x = st.copy()
            x.env[t.id] = v
            return x
        if isinstance(t, (ast.Tuple, ast.List)):
            x = st
            items = None
            if v[0] in ('tuple', 'list') and len(v[1]) == len(t.elts):
                items = v[1]
            for i, e in enumerate(t.elts):
                x = self.assign(e, items[i] if items is not None else self.subscript(v, num(i), x), x, node, how, silent=silent)
            return x
        if isinstance(t, ast.Starred):
            return self.assign(t.value, ('starred', v), st, node, how, silent=silent)
        if isinstance(t, ast.Subscript) and isinstance(t.value, ast.Name) and t.value.id in st.env and _is_local_container(st.env[t.value.id]):
            r = self.ev(t.slice, st)
            x, k = r[0]
            x = x.copy()
            oldc = x.env[t.value.id]
            if oldc[0] == 'dict' and k[0] in ('str', 'num', 'const') and all(kk is not None and kk[0] in ('str', 'num', 'const') for kk, _ in oldc[1]):
                # a literal dict updated under a literal key is still a literal dict
                items = [(kk, (v if kk == k else vv)) for kk, vv in oldc[1]]
                if not any(kk == k for kk, _ in oldc[1]):
                    items.append((k, v))
                x.env[t.value.id] = ('dict', tuple(items))
            else:
                x.env[t.value.id] = ('call', ('ext', 'SETITEM'), (oldc, k, v), ())
            if not silent:
                x = x.ev(Ev('write', loc=('sub', ('var', t.value.id), k), value=v, how=how, site=self.site(node), fn=self.fn.qn, old=old,
                            delta=delta, local=True))
            return x
        if isinstance(t, ast.Attribute) and isinstance(t.value, ast.Name) and t.value.id in st.env and st.env[t.value.id][0] == 'new' \
                and not st.env[t.value.id][1].startswith('enum:'):
            # rec.field = v on a record built on this path and held in a local: the local now denotes the updated record (records are values here).
            # When the class routes the assignment through a property setter, what the setter does to the record is not followed: the local becomes opaque.
            rec = st.env[t.value.id]
            c_ = self.M.cls(rec[1])
            x = st.copy()
            if c_ is not None and c_.lookup(t.attr + '@setter') is not None:
                x.env[t.value.id] = ('havoc', '%s.%s=' % (t.value.id, t.attr), self.site(node))
            else:
                x.env[t.value.id] = ('new', rec[1], tuple(sorted([(k_, v_) for k_, v_ in rec[2] if k_ != t.attr] + [(t.attr, v)])))
            # the same object may be held in a field (ledger = self._ledger ; ledger.balance = v): the field's record changes with it
            held = [l_ for l_, hv_ in st.heap.items() if hv_ is rec and l_[0] == 'attr']
            for l_ in held:
                x.heap[l_] = x.env[t.value.id]
                if not silent:
                    x = x.ev(Ev('write', loc=('attr', l_, t.attr), value=v, how=how, site=self.site(node), fn=self.fn.qn, old=dict(rec[2]).get(t.attr), delta=delta))
            if not silent and not held:
                x = x.ev(Ev('write', loc=('attr', ('var', t.value.id), t.attr), value=v, how=how, site=self.site(node), fn=self.fn.qn, old=old, delta=delta, local=True))
            return x
        if isinstance(t, ast.Subscript) and isinstance(t.value, ast.Attribute) and isinstance(t.value.value, ast.Name) and t.value.value.id in st.env:
            # obj.field[k] = v where obj.field was bound, earlier on this path, to a container built here: the location is the field's element
            # (not an element of the container literal), and the field now holds the container with that element set
            base = ('attr', st.env[t.value.value.id], t.value.attr)
            oldc = st.heap.get(base)
            if oldc is not None and _is_local_container(oldc):
                r = self.ev(t.slice, st)
                x, k = r[0]
                x = x.copy()
                x.heap[base] = ('call', ('ext', 'SETITEM'), (oldc, k, v), ())
                if not silent:
                    x = x.ev(Ev('write', loc=('sub', base, k), value=v, how=how, site=self.site(node), fn=self.fn.qn, old=old, delta=delta))
                return x
        if isinstance(t, ast.Attribute) and not self.suppress and not silent and not getattr(self, '_no_setter', False):
            res = self._setter_results(t, v, st, node)
            if res is not None and len(res) == 1 and res[0][0].exc is None:
                return res[0][0]
        (x, loc), = self.loc(t, st)[:1]
        x = x.copy()
        if old is None:
            old = x.heap.get(loc, loc)
        x.heap[loc] = v
        # a store through one spelling of a location invalidates nothing else (object-insensitive model, see DESIGN 7)
        if not silent:
            x = x.ev(Ev('write', loc=loc, value=v, how=how, site=self.site(node), fn=self.fn.qn, old=old, delta=delta))
        return x

    def assign_multi(self, t, v, st, node, how='assign', old=None, delta=None):
        """assign() where the statement may fork: a property setter that validates what it is given ends some paths by raising"""
        if isinstance(t, ast.Attribute) and not self.suppress:
            res = self._setter_results(t, v, st, node)
            if res:
                return [x_ for x_, _ in res]
        self._no_setter = True
        try:
            return [self.assign(t, v, st, node, how=how, old=old, delta=delta)]
        finally:
            self._no_setter = False

    def _setter_results(self, t, v, st, node):
        if True:
            # obj.name = v where the class of obj routes the assignment through a property setter: the setter is what runs (it may keep the value somewhere
            # else, drop a kept figure, validate) - followed when it is one setter
            setter = None
            if isinstance(t.value, ast.Name) and t.value.id == 'self' and self.fn.cls is not None:
                k_ = self.dyn.get(len(self.frames)) or self.fn.cls
                setter = k_.lookup(t.attr + '@setter')
            elif not (isinstance(t.value, ast.Name) and t.value.id in ('self', 'cls')):
                try:
                    tys_ = [self.M.cls(n_) for n_ in self.M.expr_types(self.fn, t.value, self.tenv())]
                except Exception:
                    tys_ = []
                cands_ = {c_.lookup(t.attr + '@setter') for c_ in tys_ if c_ is not None}
                cands_.discard(None)
                if len(cands_) == 1 and all(c_ is None or c_.lookup(t.attr + '@setter') is not None for c_ in tys_):
                    setter = next(iter(cands_))
            if setter is not None and not any(fr.qn == setter.qn for fr in self.frames) and self.policy(self.fn, setter, len(self.frames)):
                r0 = self.ev(t.value, st)
                if len(r0) == 1 and r0[0][0].exc is None:
                    ps_ = [p_ for p_ in setter.pos_params if p_ not in ('self',)]
                    if len(ps_) == 1:
                        try:
                            return self.inline(setter, {ps_[0]: v}, r0[0][1], r0[0][0], node)
                        except Undecided:
                            return None
        return None

    # ------------------------------------------------------------------ expressions
    def seq(self, exprs, st):
        cur = [(st, [])]
        for e in exprs:
            nxt = []
            for x, vs in cur:
                if x.exc is not None:
                    nxt.append((x, vs + [ZERO]))
                    continue
                for y, v in self.ev(e, x):
                    nxt.append((y, vs + [v]))
            cur = nxt
        return cur

    def binop(self, op, a, b):
        try:
            if isinstance(op, ast.Add):
                if a[0] in ('str', 'fmt') or b[0] in ('str', 'fmt'):
                    return _concat(a, b)
                if a[0] in ('list', 'tuple') or b[0] in ('list', 'tuple') or _evident_sequence(a) or _evident_sequence(b):
                    return ('call', ('ext', 'CONCAT'), (a, b), ())
                return T.t_add(a, b)
            if isinstance(op, ast.Sub):
                return T.t_sub(a, b)
            if isinstance(op, ast.Mult):
                if a[0] in ('str', 'list') or b[0] in ('str', 'list'):
                    return ('call', ('ext', 'REPEAT'), (a, b), ())
                return T.t_mul(a, b)
            if isinstance(op, ast.Div):
                return T.t_div(a, b)
            if isinstance(op, ast.Pow):
                if b[0] == 'num' and b[1].denominator == 1 and 0 <= b[1] <= 4:
                    r = T.R(T.p_const(1))
                    for _ in range(int(b[1])):
                        r = r * T.rat(a)
                    return T.unrat(r)
                return ('pow', a, b)
            if isinstance(op, ast.Mod):
                if a[0] == 'str':
                    return _fold_fmt(('fmt', a, b if b[0] == 'tuple' else ('tuple', (b,))))
                if a[0] == 'fmt':
                    return ('fmt', a, b)
                return ('call', ('ext', 'MOD'), (a, b), ())
            if isinstance(op, ast.FloorDiv):
                return ('call', ('ext', 'FLOORDIV'), (a, b), ())
        except ZeroDivisionError:
            return ('call', ('ext', 'DIVZERO'), (a, b), ())
        return ('call', ('ext', 'OP_' + type(op).__name__), (a, b), ())

    def name(self, e, st):
        if e.id in st.env:
            v = st.env[e.id]
            if _single_use(v) and id(e) in self._consuming_names(self.fn):
                # a generator object bound to a local is exhausted by its first consumer: any later consumer sees it empty
                k = '@consumed:' + e.id
                if st.env.get(k) is v:
                    return ('list', ())
                st.env[k] = v
            return v
        if e.id in ('True', 'False', 'None'):
            return ('const', e.id)
        fn = self.fn
        t = self.M.resolve_name(fn.mod, e.id)
        from .model import Cls, Func
        if isinstance(t, Cls):
            return ('var', 'class:' + t.name)
        if isinstance(t, Func):
            return ('fn', t.qn)
        if isinstance(t, str):
            if t.startswith('mod:'):
                return ('mod', t[4:])
            gv = self.M.global_value(fn.mod, e.id)
            if gv is not None:
                v = self._global_term(gv[0], e.id, gv[1])
                if v is not None:
                    return v
            name = t[4:]
            return ('ext', T.API_CLASS.get(name, name))
        g = self.M.mod_globals.get(fn.mod, {}).get(e.id)
        if g is not None and isinstance(g, ast.Constant):
            return self.const(g)
        if g is not None:
            v = self._global_term(fn.mod, e.id, g)
            if v is not None:
                return v
            return ('attr', ('mod', fn.mod), e.id)
        host = fn
        while host is not None:
            if e.id in getattr(host, 'nested', {}):
                return ('localfn', e.id, host.qn)
            host = host.parent
        b = 'builtins.' + e.id
        return ('ext', T.API_CLASS.get(b, b)) if e.id in dir(__builtins__) or b in T.API_CLASS or True and e.id in _BUILTINS else ('var', e.id)

    def _global_term(self, mod, name, node):
        """value of a module-level table (literal containers, named tuples, tables of functions/lambdas, constructor calls on literals), else None"""
        key = (mod, name)
        if key in self._gcache:
            return self._gcache[key]
        self._gcache[key] = None
        v = None
        if isinstance(node, (ast.Dict, ast.List, ast.Set, ast.Call)) and self.M.global_is_mutated(mod, name):
            return None         # changed at run time: what it holds when read is not what the module body wrote
        if _table_like(node) and not isinstance(node, ast.Name):
            self.frames.append(self.M.module_func(mod))
            saved = self.bv_depth
            try:
                r = self.ev(node, State())
                if len(r) == 1 and r[0][0].exc is None:
                    v = r[0][1]
            except Undecided:
                v = None
            finally:
                self.frames.pop()
                self.bv_depth = saved
            if v is not None and v[0] in ('havoc',):
                v = None
        self._gcache[key] = v
        return v

    def const(self, e):
        v = e.value
        if v is None or isinstance(v, bool):
            return ('const', repr(v))
        if isinstance(v, (int, float)):
            return num(v)
        if isinstance(v, str):
            return ('str', v)
        return ('const', repr(v))

    def ev(self, e, st):
        """-> list of (state, term)"""
        if st.exc is not None:
            return [(st, ZERO)]
        if isinstance(e, ast.Constant):
            return [(st, self.const(e))]
        if isinstance(e, ast.Name):
            return [(st, self.name(e, st))]
        if isinstance(e, ast.Attribute):
            return self.attr(e, st)
        if isinstance(e, ast.Subscript):
            out = []
            for x, vs in self.seq([e.value, e.slice], st):
                b, i = vs
                if x.exc is None and b[0] == 'var' and b[1].startswith('class:') and isinstance(e.ctx, ast.Load) and not self.suppress:
                    # EnumClass[name]: the member of that name
                    ec_ = self.M.cls(b[1][6:])
                    if ec_ is not None and any(bn.split('.')[-1] == 'Enum' for k_ in ec_.mro() for bn in k_.base_names):
                        md_ = self._enum_members_dict(ec_)
                        if md_ is not None:
                            b = md_
                if x.exc is None and b == ('dict', ()) and isinstance(e.ctx, ast.Load) and not self.in_comp and not self.suppress and self.try_lookup:
                    # nothing is in an empty dict
                    self._modelled_lookups = getattr(self, '_modelled_lookups', 0) + 1
                    z = x.ev(Ev('raise', exc='KeyError', site=self.site(e), fn=self.fn.qn, args=(i,)))
                    z.exc = ('raise', 'KeyError', self.site(e), self.fn.qn, self.fn.cls.name if self.fn.cls is not None else None, 'lookup-miss')
                    out.append((z, ZERO))
                elif x.exc is None and b[0] == 'dict' and isinstance(e.ctx, ast.Load) and i[0] not in ('str', 'num', 'const', 'slice') and _const_keyed(b):
                    out.extend(self.dict_lookup(b, i, x, e, None))
                elif x.exc is None and self.try_lookup and isinstance(e.ctx, ast.Load) and b[0] in ('attr', 'var') and i[0] not in ('slice', 'num') \
                        and not self.in_comp and not self.suppress:
                    # inside `try: ... except KeyError`: the lookup succeeds when the key is present and raises KeyError when it is not
                    self._modelled_lookups = getattr(self, '_modelled_lookups', 0) + 1
                    for y, present in self.decide(('cmp', 'in', i, b), x, e):
                        if present:
                            out.append((y, self.subscript(b, i, y)))
                        else:
                            z = y.ev(Ev('raise', exc='KeyError', site=self.site(e), fn=self.fn.qn, args=(i,)))
                            z.exc = ('raise', 'KeyError', self.site(e), self.fn.qn, self.fn.cls.name if self.fn.cls is not None else None, 'lookup-miss')
                            out.append((z, ZERO))
                else:
                    out.append((x, self.subscript(b, i, x)))
            return out
        if isinstance(e, ast.Slice):
            parts = [p for p in (e.lower, e.upper, e.step)]
            cur = [(st, [])]
            for p in parts:
                nxt = []
                for x, vs in cur:
                    if p is None:
                        nxt.append((x, vs + [None]))
                    else:
                        for y, v in self.ev(p, x):
                            nxt.append((y, vs + [v]))
                cur = nxt
            return [(x, ('slice',) + tuple(vs)) for x, vs in cur]
        if isinstance(e, ast.BinOp):
            return [(x, self.binop(e.op, vs[0], vs[1]) if x.exc is None else ZERO) for x, vs in self.seq([e.left, e.right], st)]
        if isinstance(e, ast.UnaryOp):
            out = []
            for x, v in self.ev(e.operand, st):
                if isinstance(e.op, ast.USub):
                    out.append((x, T.t_neg(v)))
                elif isinstance(e.op, ast.UAdd):
                    out.append((x, v))
                elif isinstance(e.op, ast.Not):
                    out.append((x, mk_not(v)))
                else:
                    out.append((x, ('call', ('ext', 'INVERT'), (v,), ())))
            return out
        if isinstance(e, ast.BoolOp):
            return [(x, self.boolop(e.op, vs)) for x, vs in self.seq(e.values, st)]
        if isinstance(e, ast.Compare):
            out = []
            for x, vs in self.seq([e.left] + list(e.comparators), st):
                parts = []
                for i, op in enumerate(e.ops):
                    parts.append(self.compare(op, vs[i], vs[i + 1]))
                out.append((x, parts[0] if len(parts) == 1 else self.boolop(ast.And(), parts)))
            return out
        if isinstance(e, ast.IfExp) and self.in_comp:
            # inside a comprehension a conditional element stays a term: it must not fork the enclosing path
            out = []
            for x, vs in self.seq([e.test, e.body, e.orelse], st):
                tv = truth(vs[0])
                out.append((x, vs[1] if tv is True else (vs[2] if tv is False else ('ite', vs[0], vs[1], vs[2]))))
            return out
        if isinstance(e, ast.IfExp):
            out = []
            for x, t in self.ev(e.test, st):
                if x.exc is not None:
                    out.append((x, ZERO))
                    continue
                for y, b in self.decide(t, x, e):
                    out.extend(self.ev(e.body if b else e.orelse, y))
            return out
        if isinstance(e, ast.Call):
            res = [(x, _as_nt(v)) for x, v in self.call(e, st)]
            for x, v in res:
                if v[0] == 'call' and v[1] == ('ext', 'operator.methodcaller'):
                    self.closures[id(v)] = (v, e, None, self.fn)        # remembered with its syntax: applying it later is a method call
            return res
        if isinstance(e, (ast.Tuple, ast.List, ast.Set)):
            kind = {ast.Tuple: 'tuple', ast.List: 'list', ast.Set: 'set'}[type(e)]
            return [(x, (kind, tuple(vs))) for x, vs in self.seq(e.elts, st)]
        if isinstance(e, ast.Starred):
            return [(x, ('starred', v)) for x, v in self.ev(e.value, st)]
        if isinstance(e, ast.Dict):
            ks = [k for k in e.keys]
            out = []
            for x, vs in self.seq(e.values, st):
                cur = [(x, [])]
                for k in ks:
                    nxt = []
                    for y, kk in cur:
                        if k is None:
                            nxt.append((y, kk + [None]))
                        else:
                            for z, kv in self.ev(k, y):
                                nxt.append((z, kk + [kv]))
                    cur = nxt
                for y, kk in cur:
                    items = []
                    for k, v in zip(kk, vs):
                        if k is None and v[0] == 'dict':
                            items.extend(v[1])       # {**literal}
                        else:
                            items.append((k, v))
                    # later keys win
                    seen, res = {}, []
                    for k, v in items:
                        if k is not None and k in seen:
                            res[seen[k]] = (k, v)
                        else:
                            if k is not None:
                                seen[k] = len(res)
                            res.append((k, v))
                    out.append((y, ('dict', tuple(res))))
            return out
        if isinstance(e, (ast.ListComp, ast.SetComp, ast.GeneratorExp, ast.DictComp)):
            return self.comp(e, st)
        if isinstance(e, ast.Lambda):
            ps = [a.arg for a in e.args.args]
            x = st.copy()
            base = self.bv_depth
            for i, p in enumerate(ps):
                x.env[p] = ('bv', base + i)
            self.bv_depth += len(ps)
            try:
                res = self.ev(e.body, State(x.env, dict(x.heap)))
            finally:
                self.bv_depth = base
            body = res[0][1] if len(res) == 1 else ('havoc', 'lambda', self.site(e))
            # the closure itself, for when the lambda is CALLED (its effects then belong to the calling path)
            cenv = dict(st.env)
            dflt = {}
            for a_, d_ in zip(e.args.args[len(e.args.args) - len(e.args.defaults):], e.args.defaults):
                r_ = self.ev(d_, State(dict(st.env), dict(st.heap)))
                if len(r_) == 1:
                    dflt[a_.arg] = r_[0][1]         # lambda x, k=k: ...  binds k NOW (the early-binding idiom)
            cenv['@defaults'] = dflt
            # defaults travel with the value (position, term): a thunk stored in a record and called elsewhere is still `body` with those values
            lam = ('lambda', len(ps), body) if not dflt else ('lambda', len(ps), body, tuple((i_, dflt[p_]) for i_, p_ in enumerate(ps) if p_ in dflt), ('num', T.Fraction(base)))
            self.closures[id(lam)] = (lam, e, cenv, self.fn)
            return [(st, lam)]
        if isinstance(e, ast.JoinedStr):
            parts = []
            cur = st
            vals = [v.value for v in e.values if isinstance(v, ast.FormattedValue)]
            out = []
            plain = all(v.format_spec is None and v.conversion == -1 for v in e.values if isinstance(v, ast.FormattedValue))
            for x, vs in self.seq(vals, st):
                if plain:
                    tmpl = ''.join(v.value.replace('%', '%%') if isinstance(v, ast.Constant) else '%s' for v in e.values)
                else:
                    tmpl = ''.join(v.value if isinstance(v, ast.Constant) else '{!spec}' for v in e.values)
                out.append((x, _fold_fmt(('fmt', ('str', tmpl), ('tuple', tuple(vs))))))
            return out
        if isinstance(e, ast.FormattedValue):
            return self.ev(e.value, st)
        if isinstance(e, ast.YieldFrom) and isinstance(e.value, ast.Call):
            # `yield from g(...)` where g is a generator function of the package: g's yields are this function's yields, in place
            tg = self._resolve_dyn(e.value, st)
            if len(tg) == 1 and _is_generator(tg[0]) and not any(fr.qn == tg[0].qn for fr in self.frames) and not self.suppress:
                saved = self.policy
                self.policy = lambda a, b, d, _t=tg[0], _p=saved: True if b is _t else _p(a, b, d)
                try:
                    res = self.call(e.value, st)
                finally:
                    self.policy = saved
                return [(x, NONE) for x, v in res]
        if isinstance(e, (ast.Yield, ast.YieldFrom)):
            out = []
            for x, v in (self.ev(e.value, st) if e.value is not None else [(st, NONE)]):
                out.append((x.ev(Ev('yield', value=v, site=self.site(e))), ('yieldv',)))
            return out
        if isinstance(e, ast.NamedExpr):
            return [(self.assign(e.target, v, x, e), v) for x, v in self.ev(e.value, st)]
        raise Undecided('expression %s at %s' % (type(e).__name__, self.site(e)))

    def boolop(self, op, vs):
        kind = 'and' if isinstance(op, ast.And) else 'or'
        items = []
        for v in vs:
            tv = truth(v)
            if tv is not None:
                if kind == 'and' and tv is False:
                    return FALSE if not items else (kind, tuple(items + [FALSE]))
                if kind == 'or' and tv is True:
                    return v if not items else (kind, tuple(items + [v]))
                continue
            items.append(v)
        if not items:
            return TRUE if kind == 'and' else FALSE
        if len(items) == 1:
            return items[0]
        return (kind, tuple(items))

    def compare(self, op, a, b):
        o = {ast.Lt: '<', ast.LtE: '<=', ast.Gt: '>', ast.GtE: '>=', ast.Eq: '==', ast.NotEq: '!=', ast.Is: 'is',
             ast.IsNot: 'is not', ast.In: 'in', ast.NotIn: 'not in'}[type(op)]
        for x, y, first in ((a, b, True), (b, a, False)):
            if x[0] == 'ite':
                l = self.compare(op, x[2], y) if first else self.compare(op, y, x[2])
                r = self.compare(op, x[3], y) if first else self.compare(op, y, x[3])
                if l == r:
                    return l
                if l == TRUE and r == FALSE:
                    return x[1]
                if l == FALSE and r == TRUE:
                    return mk_not(x[1])
                return ('ite', x[1], l, r)
        if o in ('is', 'is not', '==', '!=') and a[0] == 'new' and b[0] == 'new' and a[1].startswith('enum:') and b[1].startswith('enum:'):
            return (TRUE if a == b else FALSE) if o in ('is', '==') else (FALSE if a == b else TRUE)
        if o in ('is', 'is not') and a[0] == 'new' and b[0] == 'new' and not a[1].startswith('enum:') and not b[1].startswith('enum:'):
            # two records built on this path: the same record (the very term: handed back as it was) is itself; records that differ in a field are two objects
            if a is b or a == b:
                return TRUE if o == 'is' else FALSE
            return FALSE if o == 'is' else TRUE
        if o in ('is', 'is not', '==', '!=') and NONE in (a, b):
            other = b if a == NONE else a
            if other[0] in ('lambda', 'fn', 'nt', 'dict', 'list', 'tuple', 'set', 'str', 'num', 'new', 'comp', 'localfn', 'fmt', 'rat', 'cmp', 'not', 'and', 'or') or \
                    (other[0] == 'const' and other[1] in ('True', 'False')):
                return FALSE if o in ('is', '==') else TRUE          # a function, a literal or a fresh object is not None
            if other[0] == 'call' and other[1][0] == 'ext' and (other[1][1] in _LIB_CLASSES or other[1][1].split('.')[-1][:1].isupper()) and '.' in other[1][1]:
                return FALSE if o in ('is', '==') else TRUE          # what a library class constructs (datetime.time(0, 0), pd.Timedelta(...)) is an object
            if other[0] == 'call' and other[1] == ('ext', 'GET') and len(other[2]) == 2:
                t = ('cmp', 'in', other[2][1], other[2][0])
                return mk_not(t) if o in ('is', '==') else t
        if o in ('in', 'not in'):
            # membership: "x in d.keys()" == "x in d"
            if b[0] == 'call' and b[1] == ('meth', 'keys') and len(b[2]) == 1:
                b = b[2][0]
            if b[0] in ('tuple', 'list', 'set') and a[0] in ('str', 'num') and all(z[0] in ('str', 'num') for z in b[1]):
                v = a in b[1]
                return TRUE if v == (o == 'in') else FALSE
            if b in (('dict', ()), ('list', ()), ('tuple', ()), ('set', ())):
                return FALSE if o == 'in' else TRUE
            if b[0] == 'dict' and a[0] in ('str', 'num') and _const_keyed(b):
                v = any(kk == a for kk, _ in b[1])
                return TRUE if v == (o == 'in') else FALSE
            t = ('cmp', 'in', a, b)
            return t if o == 'in' else mk_not(t)
        return mk_cmp(o, a, b)

    def subscript(self, b, i, st):
        k = ('sub', b, i)
        if k in st.heap:
            return st.heap[k]
        if b[0] in ('tuple', 'list') and i[0] == 'num' and i[1].denominator == 1:
            n = int(i[1])
            if -len(b[1]) <= n < len(b[1]) and not any(z[0] == 'starred' for z in b[1]):
                return b[1][n]
        if b[0] == 'dict' and i[0] in ('str', 'num', 'const'):
            for kk, v in b[1]:
                if kk == i:
                    return v
        if b[0] == 'call' and b[1] == ('ext', 'SETITEM') and len(b[2]) == 3 and b[2][1] == i:
            # what was just stored under this very key
            return b[2][2]
        if b[0] == 'new' and b[1] in NT_FIELDS and i[0] == 'num' and i[1].denominator == 1:
            fs = NT_FIELDS[b[1]]
            n = int(i[1])
            if -len(fs) <= n < len(fs):
                return dict(b[2]).get(fs[n], k)
        if b[0] == 'comp' and b[1] == 'dict' and len(b[3]) == 1 and not b[3][0][2] and b[2][0] == 'tuple' and len(b[3][0][0]) == 1 \
                and b[2][1][0] == b[3][0][0][0]:
            # {k: f(k) for k in keys}[i]  ==  f(i)   (for i among the keys)
            bv = b[3][0][0][0]
            return T.replace(b[2][1][1], lambda t: i if t == bv else None)
        if b[0] == 'comp' and b[1] == 'dict' and len(b[3]) == 1 and not b[3][0][2] and b[2][0] == 'tuple' and len(b[3][0][0]) == 2 \
                and b[2][1][0] == b[3][0][0][0] and b[3][0][1][0] == 'call' and b[3][0][1][1] == ('meth', 'items') and len(b[3][0][1][2]) == 1:
            # {k: f(k, v) for k, v in D.items()}[i]  ==  f(i, D[i])   (for i among the keys)
            kb, vb = b[3][0][0]
            src = b[3][0][1][2][0]
            m_ = {kb: i, vb: self.subscript(src, i, st)}
            return T.replace(b[2][1][1], lambda t: m_.get(t) if t[0] == 'bv' else None)
        return k

    def dict_lookup(self, b, i, st, node, default):
        """TABLE[key] / TABLE.get(key) on a literal table with a symbolic key: one outcome per entry (key == k), then the miss (KeyError, or `default`).
        Inside a comprehension the outcome stays a conditional term."""
        def eq(k):
            if k == ('const', 'True'):
                return i
            if k == ('const', 'False'):
                return mk_not(i)
            return self.compare(ast.Eq(), i, k)
        miss = default if default is not None else ('sub', b, i)
        if self.in_comp or self.suppress:
            t = miss
            for k, v in reversed(b[1]):
                t = ('ite', eq(k), v, t)
            return [(st, t)]
        self._modelled_lookups = getattr(self, '_modelled_lookups', 0) + 1
        out, pending = [], [st]
        for k, v in b[1]:
            nxt = []
            for s in pending:
                for y, bv in self.decide(eq(k), s, node):
                    if bv:
                        out.append((y, v))
                    else:
                        nxt.append(y)
            pending = nxt
        keys = [k for k, _ in b[1]]
        boolean = ('const', 'True') in keys and ('const', 'False') in keys and i[0] in ('cmp', 'not', 'and', 'or') or \
            (i[0] == 'call' and i[1] == ('ext', 'BOOL'))
        for s in pending:
            if boolean and ('const', 'True') in keys and ('const', 'False') in keys:
                continue
            # a preceding membership test on the same table rules the miss out (or in)
            known = None
            for c, v, _ in s.conds:
                if c[0] == 'cmp' and c[1] == 'in' and c[2] == i and (c[3] == b or (c[3][0] in ('tuple', 'list', 'set', 'dict') and
                                                                                 set(z if c[3][0] != 'dict' else z[0] for z in c[3][1]) == set(keys))):
                    known = v
            if known is True:
                continue
            if default is not None:
                out.append((s, default))
            else:
                y = s.ev(Ev('raise', exc='KeyError', site=self.site(node), fn=self.fn.qn, args=(i,)))
                y.exc = ('raise', 'KeyError', self.site(node), self.fn.qn, self.fn.cls.name if self.fn.cls is not None else None, 'table-miss')
                out.append((y, ZERO))
        return out

    def attr(self, e, st):
        out = []
        for x, b in self.ev(e.value, st):
            if x.exc is not None:
                out.append((x, ZERO))
                continue
            b = _unget(b)
            k = ('attr', b, e.attr)
            if k in x.heap:
                out.append((x, x.heap[k]))
                continue
            if b[0] == 'call' and b[1] == ('ext', 'inspect.signature') and len(b[2]) == 1 and b[2][0][0] == 'fn' and e.attr == 'parameters' and isinstance(e.ctx, ast.Load):
                # the parameter names of a known function, in order (iterating the mapping / testing membership goes by name)
                tgt_ = self.M.funcs.get(b[2][0][1]) or next((g_ for g_ in self.M.all_funcs() if g_.qn == b[2][0][1]), None)
                if tgt_ is not None and not tgt_.node.args.vararg and not tgt_.node.args.kwarg:
                    out.append((x, ('tuple', tuple(('str', n_) for n_ in tgt_.params))))
                    continue
            if b[0] == 'fn' and e.attr in ('__name__', '__qualname__') and isinstance(e.ctx, ast.Load):
                out.append((x, ('str', b[1].split('.')[-1] if e.attr == '__name__' else b[1])))
                continue
            if b[0] == 'mod':
                q = '%s.%s' % (b[1], e.attr)
                if q in self.M.funcs and isinstance(e.ctx, ast.Load):
                    out.append((x, ('fn', q)))            # module.function used as a value
                    continue
                g = self.M.mod_globals.get(b[1], {}).get(e.attr)
                if g is not None and isinstance(e.ctx, ast.Load) and b[1].split('.')[-1] != 'settings':
                    gv = self._global_term(b[1], e.attr, g)
                    if gv is not None:
                        out.append((x, gv))
                        continue
                out.append((x, k))
                continue
            if b[0] == 'ext':
                name = b[1] + '.' + e.attr
                if name in _NUM_CONSTS:
                    out.append((x, num(_NUM_CONSTS[name])))
                    continue
                out.append((x, ('ext', T.API_CLASS.get(name, name))))
                continue
            if b[0] == 'var' and b[1].startswith('class:') and isinstance(e.ctx, ast.Load):
                c_ = self.M.cls(b[1][6:])
                if c_ is not None and e.attr in c_.class_attrs and any(bn.split('.')[-1] in ('Enum', 'IntEnum', 'IntFlag', 'Flag', 'StrEnum') for k_ in c_.mro() for bn in k_.base_names):
                    # an enumeration member: IntEnum/StrEnum members are their values; plain Enum members are (name, value) records, equal only to themselves
                    self.frames.append(self.M.module_func(c_.mod))
                    try:
                        r_ = self.ev(c_.class_attrs[e.attr], State())
                    finally:
                        self.frames.pop()
                    if len(r_) == 1 and r_[0][1][0] in ('num', 'str', 'tuple'):
                        lit = r_[0][1]
                        if any(bn.split('.')[-1] in ('IntEnum', 'IntFlag', 'StrEnum') for k_ in c_.mro() for bn in k_.base_names):
                            out.append((x, lit))
                        else:
                            out.append((x, self._enum_member(c_, e.attr, lit, c_.class_attrs[e.attr])))
                        continue
                if c_ is not None and e.attr == '__members__' and any(bn.split('.')[-1] == 'Enum' for k_ in c_.mro() for bn in k_.base_names):
                    md_ = self._enum_members_dict(c_)
                    if md_ is not None:
                        out.append((x, md_))
                        continue
                m_ = c_.lookup(e.attr) if c_ is not None else None
                if m_ is not None and not m_.is_property:
                    out.append((x, ('fn', m_.qn)))          # Class.method used as a value
                    continue
            if b[0] == 'new':
                d = dict(b[2])
                if e.attr in d:
                    out.append((x, d[e.attr]))
                    continue
                c = self.M.cls(b[1][5:] if b[1].startswith('enum:') else b[1])
                m = c.lookup(e.attr) if c else None
                if m is not None and m.is_property:
                    out.extend(self.inline(m, {}, b, x, e))
                    continue
                if m is not None and isinstance(e.ctx, ast.Load):
                    out.append((x, ('attr', b, e.attr)))      # a bound method of the record, as a value
                    continue
                out.append((x, k))
                continue
            if isinstance(e.ctx, ast.Load) and (b in self._fresh_self):
                # an object under construction has no instance attribute that was not assigned on this path: the read finds the class-level default
                c_ = self.M.cls(b[1]) if b[0] == 'obj' else (self.dyn.get(len(self.frames)) or self.fn.cls)
                cv = None
                for k_ in (c_.mro() if c_ is not None else ()):
                    if e.attr in k_.class_attrs and k_.lookup(e.attr) is None:
                        self.frames.append(self.M.module_func(k_.mod))
                        try:
                            r_ = self.ev(k_.class_attrs[e.attr], State())
                        except Undecided:
                            r_ = []
                        finally:
                            self.frames.pop()
                        if len(r_) == 1 and r_[0][1][0] in ('num', 'str', 'const'):
                            cv = r_[0][1]
                        break
                if cv is not None:
                    out.append((x, cv))
                    continue
            if isinstance(e.ctx, ast.Load) and isinstance(e.value, ast.Name) and e.value.id == 'self' and b == x.env.get('self') and not self.suppress:
                # a setting kept in the class body and never assigned on an instance anywhere in the package (rounding = UnitRounding.WHOLE_UNITS):
                # reading it off self finds the class-level value of the class self is an instance of
                c_ = self.dyn.get(len(self.frames)) or self.fn.cls
                cc = self.M.class_constant(c_, e.attr) if c_ is not None else None
                if cc is not None and isinstance(cc[1], ast.Constant) and (cc[1].value is None or isinstance(cc[1].value, (bool, int, float, str))):
                    # `scale = None` in the class body, never assigned on an instance of this class or of a subclass: the instance reads the class's literal
                    r_ = self.ev(cc[1], State())
                    if len(r_) == 1:
                        out.append((x, r_[0][1]))
                        continue
                if cc is not None and not isinstance(cc[1], (ast.Constant, ast.List, ast.Dict, ast.Set, ast.ListComp, ast.DictComp)):
                    self.frames.append(self.M.module_func(cc[0].mod))
                    try:
                        r_ = self.ev(cc[1], State())
                    except Undecided:
                        r_ = []
                    finally:
                        self.frames.pop()
                    if len(r_) == 1 and r_[0][0].exc is None and r_[0][1][0] == 'new' and r_[0][1][1].startswith('enum:'):
                        out.append((x, r_[0][1]))
                        continue
            props = self.M.property_targets(self.fn, e, self.tenv()) if isinstance(e.ctx, ast.Load) else []
            dyn = self.dyn.get(len(self.frames))
            if dyn is not None and isinstance(e.value, ast.Name) and e.value.id == 'self' and b == x.env.get('self') and isinstance(e.ctx, ast.Load):
                m = dyn.lookup(e.attr)
                if m is not None and m.is_property:
                    props = [m]
            if len(props) == 1 and not self.suppress and self.policy(self.fn, props[0], len(self.frames)):
                out.extend(self.inline(props[0], {}, b, x, e))
                continue
            if props:
                x = x.ev(Ev('call', callee=[p.qn for p in props], args={'self': b}, site=self.site(e), fn=self.fn.qn, how='property', layer=2,
                            result=k, node=e))
            out.append((x, k))
        return out

    def comp(self, e, st):
        try:
            return self._comp(e, st)
        except Undecided as u:
            if 'forking comprehension' not in str(u) or self.suppress:
                raise
        # an element that forks (inlined multi-branch property): keep callees symbolic inside this comprehension
        self.suppress += 1
        try:
            return self._comp(e, st)
        finally:
            self.suppress -= 1

    def _comp(self, e, st):
        self.in_comp += 1
        try:
            return self._comp1(e, st)
        finally:
            self.in_comp -= 1

    def _comp_over_constants(self, e, st, kind):
        """A comprehension with one generator over a constant iterable is evaluated row by row (exactly what Python does): element expressions may then
        create lambdas, look tables up, etc.  Lambdas created in it close over the comprehension VARIABLE, which holds its last value once the
        comprehension is finished (late binding) unless bound through a default argument."""
        if len(e.generators) != 1 or any(isinstance(n, (ast.Yield, ast.YieldFrom, ast.NamedExpr)) for n in ast.walk(e)):
            return None
        g = e.generators[0]
        r = self.ev(g.iter, State(dict(st.env), dict(st.heap), (), (), dict(st.decided)))
        if len(r) != 1 or r[0][0].exc is not None:
            return None
        items = _const_items(self._enum_members(r[0][1]))
        if items is None or not (1 <= len(items) <= 12):
            return None
        names = sorted(self._assigned_names([g.target]))
        before = set(self.closures)
        out = []
        x = State(dict(st.env), dict(st.heap), (), (), dict(st.decided))
        for item in items:
            y = self.assign(g.target, item, x, e, silent=True)
            keep = True
            for c in g.ifs:
                rr = self.ev(c, y)
                if len(rr) != 1:
                    return None
                tv = truth(rr[0][1])
                if tv is None:
                    return None
                keep = keep and tv
            if not keep:
                continue
            if kind == 'dict':
                rr = self.seq([e.key, e.value], y)
                if len(rr) != 1 or rr[0][0].exc is not None:
                    return None
                out.append(('tuple', tuple(rr[0][1])))
            else:
                rr = self.ev(e.elt, y)
                if len(rr) != 1 or rr[0][0].exc is not None:
                    return None
                out.append(rr[0][1])
        last = self.assign(g.target, items[-1], x, e, silent=True)
        for cid in set(self.closures) - before:
            clo = self.closures[cid]
            if clo[2] is not None:
                for n in names:
                    clo[2][n] = last.env[n]
        if kind == 'dict':
            d = {}
            for o in out:
                d[o[1][0]] = o[1][1]
            return ('dict', tuple(d.items()))
        if kind == 'set':
            return ('set', tuple(dict.fromkeys(out)))
        return ('list', tuple(out))

    def _comp1(self, e, st):
        kind = {ast.ListComp: 'list', ast.SetComp: 'set', ast.GeneratorExp: 'gen', ast.DictComp: 'dict'}[type(e)]
        lit = self._comp_over_constants(e, st, kind) if not self.suppress else None
        if lit is not None:
            return [(st, lit)]
        x = State(dict(st.env), dict(st.heap), (), (), dict(st.decided))
        base = self.bv_depth
        gens = []
        evs = []
        try:
            for g in e.generators:
                r = self.ev(g.iter, x)
                if len(r) != 1:
                    raise Undecided('forking comprehension iterator at %s' % self.site(e))
                x, it = r[0]
                it = self._enum_members(it)         # for member in EnumClass: the members in definition order
                names = sorted(self._assigned_names([g.target]), key=lambda n: _first_pos(g.target, n))
                tv = []
                for n in names:
                    x = x.copy()
                    x.env[n] = ('bv', self.bv_depth)
                    tv.append(('bv', self.bv_depth))
                    self.bv_depth += 1
                shape = _target_shape(g.target, {n: x.env[n] for n in names})
                ifs = []
                for c in g.ifs:
                    r = self.ev(c, x)
                    if len(r) != 1:
                        raise Undecided('forking comprehension filter at %s' % self.site(e))
                    x, ct = r[0]
                    ifs.append(ct)
                gens.append((shape, it, tuple(ifs)))
            if kind == 'dict':
                r = self.seq([e.key, e.value], x)
                if len(r) != 1:
                    raise Undecided('forking comprehension element at %s' % self.site(e))
                x, (kt, vt) = r[0]
                elt = ('tuple', (kt, vt))
            else:
                r = self.ev(e.elt, x)
                if len(r) != 1:
                    # conditional element: fold to ite when effect-free
                    raise Undecided('forking comprehension element at %s' % self.site(e))
                x, elt = r[0]
        finally:
            self.bv_depth = base
        y = st
        if x.events:
            y = st.ev(Ev('comp', events=x.events, site=self.site(e), fn=self.fn.qn))
        used = {k: v for k, v in x.env.items() if k.startswith('@consumed:') and st.env.get(k) is not v}
        if used:
            y = y.copy()
            y.env.update(used)
        return [(y, _unroll_const_comp(_fuse_comp(('comp', kind, elt, tuple(gens)))))]

    # ------------------------------------------------------------------ calls
    def bind(self, callee, args, kwargs, skip_self=True):
        """positional/keyword terms -> {param: term}, applying constant defaults"""
        ps = callee.pos_params
        if skip_self and callee.cls is not None and not callee.is_static and ps and ps[0] in ('self', 'cls'):
            ps = ps[1:]
        b = {}
        for i, a in enumerate(args):
            if i < len(ps):
                b[ps[i]] = a
            else:
                b['*%d' % (i - len(ps))] = a
        for k, v in kwargs:
            b[k if k is not None else '**'] = v
        return b

    def apply_defaults(self, callee, bound, st):
        self.frames.append(callee)
        try:
            for p, d in callee.defaults().items():
                if p not in bound:
                    r = self.ev(d, State())
                    if len(r) == 1:
                        bound[p] = r[0][1]
        finally:
            self.frames.pop()
        return bound

    _TRANSPARENT_DECOS = ('property', 'staticmethod', 'classmethod', 'abstractmethod', 'setter', 'getter', 'wraps', 'lru_cache', 'cache', 'cached_property',
                          'contextmanager', 'dataclass', 'total_ordering', 'overload', 'final', 'override', 'cached_property')

    def _wrappers(self, callee):
        """decorator expressions of callee that wrap it (outermost first); None if one of them cannot be evaluated in the package"""
        out = []
        for d in callee.node.decorator_list:
            name = ast.unparse(d.func if isinstance(d, ast.Call) else d)
            if name.split('.')[-1] in self._TRANSPARENT_DECOS:
                continue
            head = d.func if isinstance(d, ast.Call) else d
            from .model import Func
            if isinstance(head, ast.Name):
                gv = self.M.global_value(callee.mod, head.id)
                if gv is not None and any(k_ in ast.unparse(gv[1]) for k_ in ('lru_cache', 'functools.cache')):
                    continue            # NAME = functools.lru_cache(...): memoisation, transparent for the value computed
            t = self.M.resolve_name(callee.mod, head.id) if isinstance(head, ast.Name) else None
            if not isinstance(t, Func):
                return None
            out.append(d)
        return out

    def inline_decorated(self, callee, decs, bound, self_term, st, node):
        """f = D(raw) (or F(args)(raw)): evaluate the decorator expression on the raw function, then call what it returned (a closure over raw)"""
        raw = ('fn', callee.qn)
        self._raw = getattr(self, '_raw', set()) | {callee.qn}
        try:
            val = raw
            modf = self.M.module_func(callee.mod)
            for d in reversed(decs):
                self.frames.append(modf)
                try:
                    self._force_inline = getattr(self, '_force_inline', 0) + 1       # a decorator factory (@memoised('a', 'b')) is read through like the decorator it returns
                    self._force_site = d
                    try:
                        r = self.ev(d, State())
                    finally:
                        self._force_inline -= 1
                        self._force_site = None
                    if len(r) != 1 or r[0][0].exc is not None or not _callable_value(r[0][1], self):
                        raise Undecided('decorator %s of %s does not evaluate to a function of the package' % (ast.unparse(d)[:40], callee.qn))
                    fake = ast.copy_location(ast.Call(func=d, args=[ast.Name(id='_raw_', ctx=ast.Load())], keywords=[]), callee.node)
                    self._force_inline = getattr(self, '_force_inline', 0) + 1       # applying a decorator is always read through, whatever its name
                    try:
                        rr = self.call_value(fake, r[0][1], [val], [], State())
                    finally:
                        self._force_inline -= 1
                finally:
                    self.frames.pop()
                rr = [(s_, v_) for s_, v_ in rr if s_.exc is None]
                if len(rr) != 1:
                    raise Undecided('decorator %s of %s does not return one value' % (ast.unparse(d)[:40], callee.qn))
                val = rr[0][1]
            if val == raw:
                return self.inline(callee, bound, self_term, st, node)
            if not _callable_value(val, self):
                raise Undecided('decorated %s is %s' % (callee.qn, fmt(val)[:60]))
            args = [self_term] if (self_term is not None and callee.cls is not None and not callee.is_static) else []
            rest = []
            while ('*%d' % len(rest)) in bound:
                rest.append(bound['*%d' % len(rest)])
            # positional parameters are handed over positionally (a wrapper may pick them out of *args), the rest by keyword
            pos_names = [p_ for p_ in callee.pos_params if not (callee.cls is not None and not callee.is_static and p_ in ('self', 'cls') and p_ == callee.pos_params[0])]
            pos = []
            for p_ in pos_names:
                if p_ in bound and not (getattr(self, '_kw_convention', False) and len(self.frames) <= 1):
                    pos.append(bound[p_])
                else:
                    break
            used = set(pos_names[:len(pos)])
            kwargs = [(k, t) for k, t in bound.items() if isinstance(k, str) and not k.startswith('*') and k not in used]
            fake = ast.copy_location(ast.Call(func=ast.Name(id=callee.name, ctx=ast.Load()), args=[], keywords=[]), node if hasattr(node, 'lineno') else callee.node)
            # a refusal raised by the wrapper is a refusal of the decorated method's class
            self._deco_owner = getattr(self, '_deco_owner', []) + [callee.cls.name if callee.cls is not None else None]
            try:
                return self.call_value(fake, val, args + pos + rest, kwargs, st)
            finally:
                self._deco_owner = self._deco_owner[:-1]
        finally:
            self._raw = self._raw - {callee.qn}

    def inline(self, callee, bound, self_term, st, node):
        """Run callee on st; -> list of (state, value). Raise paths carry state.exc."""
        if callee.node.decorator_list and callee.qn not in getattr(self, '_raw', ()):
            decs = self._wrappers(callee)
            if decs is None:
                raise Undecided('%s is wrapped by a decorator that is not modelled' % callee.qn)
            if decs:
                return self.inline_decorated(callee, decs, bound, self_term, st, node)
        if any(f.qn == callee.qn for f in self.frames):
            raise Undecided('recursion through %s' % callee.qn)
        bound = self.apply_defaults(callee, dict(bound), st)
        saved_env = st.env
        x = st.ev(Ev('enter', fn=callee.qn, site=self.site(node), caller=self.fn.qn))
        paths = self.run(callee, bound, self_term, x)
        out = []
        gen_ = _is_generator(callee) and not any(isinstance(n_, ast.YieldFrom) for n_ in ast.walk(callee.node))
        for p in paths:
            s = p.state.copy()
            s.env = dict(saved_env)
            if getattr(p, 'cm_frame', None) is not None:
                s.env['@cm'] = p.cm_frame
            s.events = s.events + (Ev('exit', fn=callee.qn, outcome=p.outcome),)
            val_ = p.value if p.value is not None else NONE
            if gen_ and (p.value is None or p.value == NONE) and p.outcome in ('fall', 'return') and s.exc is None:
                # a generator whose yields on this path are straight-line (none inside a loop): consumed, it is the sequence of the values it yields, in order
                new_ev = p.state.events[len(x.events):]
                ys_ = [e_ for e_ in new_ev if e_.kind == 'yield']
                looped_ = any(e_.kind == 'loop' and any(y_.kind == 'yield' for q_ in (list(e_.paths) + list(getattr(e_, 'all_paths', ()) or ())) for y_ in q_.flat_events()) for e_ in new_ev)
                if ys_ and not looped_:
                    val_ = ('list', tuple(e_.value for e_ in ys_))
            out.append((s, val_))
        return out

    def construct(self, cls, bound, st, node):
        init = cls.lookup('__init__')
        obj = ('obj', cls.name, next(self.uid))
        if init is None:
            return [(st, ('new', cls.name, ()))]
        self._fresh_self.add(obj)
        try:
            res = self.inline(init, bound, obj, st, node)
        finally:
            self._fresh_self.discard(obj)
        out = []
        for s, _ in res:
            fields = []
            for k in list(s.heap):
                if k[0] == 'attr' and k[1] == obj:
                    fields.append((k[2], s.heap.pop(k)))
            newt = ('new', cls.name, tuple(sorted(fields)))
            # writes to the fresh object are construction, not mutation of existing state
            s.events = tuple(e for e in s.events if not (e.kind == 'write' and e.loc[0] == 'attr' and e.loc[1] == obj))
            s.env = {k: (T.replace(v, lambda t: newt if t == obj else None) if _mentions(v, obj) else v) for k, v in s.env.items()}
            out.append((s, newt))
        return out

    def ctor_call(self, c, init, args, kwargs, st, e, how, layer):
        """Class(...) : a value class / record is constructed structurally, any other class is an opaque constructor call event"""
        fn = self.fn
        site = self.site(e)
        bound = self.bind(init, args, kwargs) if init else {}
        private_helper = c.name.startswith('_') and not c.name.startswith('__') and init is not None and self.frames and c.path == self.fn.path and not self.suppress
        if (c.name in self.value_classes and init is not None) or self.M.is_record_init(c) or private_helper:
            return self.construct(c, bound, st, e)
        rf = self.M.record_fields(c, c.name in self.value_classes)
        if rf is not None and not any(a[0] == 'starred' for a in args):
            # a dataclass / NamedTuple new to the tree: the object is its fields
            names = [n for n, _ in rf]
            vals = dict(zip(names, args))
            vals.update({k: v for k, v in kwargs if k in names})
            ok = True
            for n, d in rf:
                if n not in vals:
                    if d is None:
                        ok = False
                        break
                    self.frames.append(self.M.module_func(c.mod))
                    try:
                        r_ = self.ev(d, State())
                    finally:
                        self.frames.pop()
                    if len(r_) != 1:
                        ok = False
                        break
                    vals[n] = r_[0][1]
                    if vals[n][0] == 'call' and vals[n][1][0] == 'ext' and vals[n][1][1].endswith('field'):
                        df = dict(vals[n][3]).get('default')
                        fac = dict(vals[n][3]).get('default_factory')
                        if df is None and fac in (('ext', 'builtins.list'), ('ext', 'LIST')):
                            df = ('list', ())           # field(default_factory=list): a fresh empty list per object
                        elif df is None and fac in (('ext', 'builtins.dict'), ('ext', 'DICT')):
                            df = ('dict', ())
                        elif df is None and fac in (('ext', 'builtins.set'), ('ext', 'SET')):
                            df = ('set', ())
                        if df is None:
                            ok = False
                            break
                        vals[n] = df
            if ok and len(args) <= len(names):
                NT_FIELDS[c.name] = tuple(names)
                return [(st, ('new', c.name, tuple(sorted(vals.items()))))]
        x = st.ev(Ev('call', callee=[c.name + '.__init__'], args=bound, site=site, fn=fn.qn, how=how, layer=layer,
                     result=None, node=e, recv=None))
        return [(x, ('call', ('fn', c.name), tuple(args), tuple(sorted(kwargs, key=lambda kv: str(kv[0])))))]

    def call(self, e, st):
        f = e.func
        fn = self.fn
        if isinstance(f, ast.Name) and f.id in ('map', 'filter') and f.id not in st.env and self.M.resolve_name(fn.mod, f.id) is None \
                and len(e.args) >= 2 and not e.keywords and not any(isinstance(a, ast.Starred) for a in e.args):
            # map(F, IT) is the generator (F(x) for x in IT); filter(F, IT) is (x for x in IT if F(x))
            names = ['_m%d_%d' % (getattr(e, 'lineno', 0), k) for k in range(len(e.args) - 1)]
            if len(e.args) == 2:
                tgt, it = ast.Name(id=names[0], ctx=ast.Store()), e.args[1]
            else:
                tgt = ast.Tuple(elts=[ast.Name(id=n, ctx=ast.Store()) for n in names], ctx=ast.Store())
                it = ast.Call(func=ast.Name(id='zip', ctx=ast.Load()), args=list(e.args[1:]), keywords=[])
            loads = [ast.Name(id=n, ctx=ast.Load()) for n in names]
            if f.id == 'map':
                elt, ifs = ast.Call(func=e.args[0], args=loads, keywords=[]), []
            elif isinstance(e.args[0], ast.Constant) and e.args[0].value is None:
                elt, ifs = loads[0], [loads[0]]
            else:
                elt, ifs = loads[0], [ast.Call(func=e.args[0], args=loads, keywords=[])]
            if f.id == 'map' or len(e.args) == 2:
                g = ast.GeneratorExp(elt=elt, generators=[ast.comprehension(target=tgt, iter=it, ifs=ifs, is_async=0)])
                for n in ast.walk(g):
                    if not hasattr(n, 'lineno'):
                        ast.copy_location(n, e)
                return self.ev(g, st)
        if not self.suppress and e.args and not any(isinstance(a_, ast.Starred) for a_ in e.args) and all(k_.arg for k_ in e.keywords) \
                and isinstance(e.args[0], ast.Attribute) and self.M.ext_name(fn.mod, f) == 'functools.partial' and not isinstance(getattr(e, '_qs_partial', None), bool) \
                and self.M.ext_name(fn.mod, e.args[0]) is None:
            # partial(obj.method, a, k=v) is  lambda _a=a, _k=v: obj.method(_a, k=_k)  - the arguments bound NOW, the method looked up on the object when called;
            # read that way the call is resolved like any other call of obj.method (extra call-time arguments are not followed)
            names = ['_pa%d' % i_ for i_ in range(len(e.args) - 1)] + ['_pk_%s' % k_.arg for k_ in e.keywords]
            lam = ast.Lambda(
                args=ast.arguments(posonlyargs=[], args=[ast.arg(arg=n_) for n_ in names], vararg=None, kwonlyargs=[], kw_defaults=[], kwarg=None,
                                   defaults=list(e.args[1:]) + [k_.value for k_ in e.keywords]),
                body=ast.Call(func=e.args[0], args=[ast.Name(id=n_, ctx=ast.Load()) for n_ in names[:len(e.args) - 1]],
                              keywords=[ast.keyword(arg=k_.arg, value=ast.Name(id='_pk_%s' % k_.arg, ctx=ast.Load())) for k_ in e.keywords]))
            for n_ in ast.walk(lam):
                if not hasattr(n_, 'lineno'):
                    ast.copy_location(n_, e)
            ast.copy_location(lam, e)
            lam._qs_partial_lambda = True
            return self.ev(lam, st)
        if isinstance(f, ast.Attribute) and not self.suppress and f.attr in bound_callables(self.M) and not (isinstance(f.value, ast.Name) and f.value.id == 'self'
                                                                                                         and self.fn.cls is not None and self.fn.cls.lookup(f.attr) is not None):
            # obj.D(args) with D a callable bound from obj's own fields (see bound_callables): call what it is bound to
            bexpr = bound_callables(self.M)[f.attr]

            class _Sub(ast.NodeTransformer):
                def visit_Name(s_, n_):
                    return ast.copy_location(f.value, n_) if n_.id == 'self' else n_
            import copy as _copy
            if isinstance(bexpr, ast.Call):
                b2 = _Sub().visit(_copy.deepcopy(bexpr))
                node = ast.Call(func=b2.args[0], args=list(b2.args[1:]) + list(e.args), keywords=list(b2.keywords) + list(e.keywords))
            else:
                node = ast.Call(func=_Sub().visit(_copy.deepcopy(bexpr)), args=list(e.args), keywords=list(e.keywords))
            for n_ in ast.walk(node):
                if not hasattr(n_, 'lineno'):
                    ast.copy_location(n_, e)
            ast.copy_location(node, e)
            return self.call(node, st)
        # receiver / function value first, then arguments (Python evaluation order)
        out = []
        recv_states = [(st, None)]
        is_meth = isinstance(f, ast.Attribute)
        if is_meth:
            recv_states = self.ev(f.value, st)
        for x0, recv in recv_states:
            if x0.exc is not None:
                out.append((x0, ZERO))
                continue
            recv = _unget(recv)
            argn = list(e.args)
            kwn = [k for k in e.keywords]
            for x, vs in self.seq([a.value if isinstance(a, ast.Starred) else a for a in argn] + [k.value for k in kwn], x0):
                if x.exc is not None:
                    out.append((x, ZERO))
                    continue
                args = []
                for a, v in zip(argn, vs[:len(argn)]):
                    if isinstance(a, ast.Starred):
                        items = _seq_items(v)
                        if items is not None:
                            args.extend(items)           # f(*(a, b)) == f(a, b)
                        else:
                            args.append(('starred', v))
                    else:
                        args.append(v)
                kwargs = []
                for k, v in zip(kwn, vs[len(argn):]):
                    if k.arg is None and v[0] == 'dict' and all(kk is not None and kk[0] == 'str' for kk, _ in v[1]):
                        kwargs.extend((kk[1], vv) for kk, vv in v[1])        # f(**{'a': x}) == f(a=x)
                    else:
                        kwargs.append((k.arg, v))
                out.extend(self.call1(e, recv, args, kwargs, x))
        return out

    def call1(self, e, recv, args, kwargs, st):
        f = e.func
        fn = self.fn
        site = self.site(e)
        from .model import Cls
        # local nested function / lambda held in a local
        if isinstance(f, ast.Name) and f.id in st.env:
            fv = st.env[f.id]
            if fv[0] == 'localfn':
                r_ = self.call_localfn(e, fv, args, kwargs, st)
                if r_ is not None:
                    return r_
        # a function VALUE being called: a local holding a function/lambda/named-tuple type, or the result of a table lookup  TABLE[key](...)
        if (isinstance(f, ast.Name) and (f.id in st.env or self.M.global_value(fn.mod, f.id) is not None)) or isinstance(f, (ast.Subscript, ast.Call, ast.IfExp)):
            fvs = self.ev(f, st)
            if len(fvs) > 1 or (len(fvs) == 1 and _callable_value(fvs[0][1], self)):
                out = []
                for y, fv in fvs:
                    if y.exc is not None:
                        out.append((y, ZERO))
                    elif _callable_value(fv, self):
                        out.extend(self.call_value(e, fv, args, kwargs, y))
                    else:
                        out.extend(self.call_opaque(e, fv, args, kwargs, y))
                return out
        if isinstance(f, ast.Attribute) and not self.suppress and isinstance(f.value, ast.Name) and f.value.id == 'self' and self.fn.cls is not None:
            # self.prop(args): prop is a PROPERTY - what is called is the value the property answers (a class, a function), not a method of that name
            k_ = self.dyn.get(len(self.frames)) or self.fn.cls
            pm_ = k_.lookup(f.attr)
            if pm_ is not None and pm_.is_property:
                fvs = self.ev(ast.copy_location(ast.Attribute(value=f.value, attr=f.attr, ctx=ast.Load()), f), st)
                if fvs and all(y_.exc is not None or _callable_value(fv_, self) for y_, fv_ in fvs):
                    out = []
                    for y_, fv_ in fvs:
                        if y_.exc is not None:
                            out.append((y_, ZERO))
                        else:
                            out.extend(self.call_value(e, fv_, args, kwargs, y_))
                    return out
        if is_nt_attr(recv, f):
            return self.nt_method(e, recv, f.attr, args, kwargs, st)
        if isinstance(f, ast.Attribute) and f.attr in ('bind', 'bind_partial') and recv is not None and recv[0] == 'call' and recv[1] == ('ext', 'inspect.signature') \
                and len(recv[2]) == 1 and recv[2][0][0] == 'fn' and not any(a_[0] == 'starred' for a_ in args) and all(k_ is not None for k_, _ in kwargs):
            # inspect.signature(f).bind[_partial](*a, **kw): the arguments as f's parameters would receive them, name by name (read as its .arguments mapping)
            tgt = self.M.funcs.get(recv[2][0][1]) or next((g_ for g_ in self.M.all_funcs() if g_.qn == recv[2][0][1]), None)
            if tgt is not None and not tgt.node.args.vararg and len(args) <= len(tgt.pos_params):
                items = [(('str', n_), a_) for n_, a_ in zip(tgt.pos_params, args)]
                names = {n_ for (_, n_), _ in items}
                if all(k_ in tgt.params and k_ not in names for k_, _ in kwargs):
                    items += [(('str', k_), v_) for k_, v_ in kwargs]
                    return [(st, ('new', 'inspect.BoundArguments', (('arguments', ('dict', tuple(items))),)))]
        if isinstance(f, ast.Attribute) and recv is not None and recv[0] == 'new' and f.attr in dict(recv[2]) and not self.suppress:
            # a field of a record that holds a function (member.apply = operator.iadd; rec.factory = SomeClass.create): call the value it holds
            fv = dict(recv[2])[f.attr]
            if _callable_value(fv, self):
                return self.call_value(e, fv, args, kwargs, st)
            if fv[0] == 'ext':
                return self.call_opaque(e, fv, args, kwargs, st)
        if isinstance(f, ast.Attribute) and recv is not None and recv[0] == 'new' and recv[1].startswith('enum:'):
            # a method of an enumeration member: the member is known, so is its class
            ec = self.M.cls(recv[1][5:])
            em = ec.lookup(f.attr) if ec is not None else None
            if em is not None and not em.is_property and not self.suppress:
                bound = self.bind(em, args, kwargs)
                return self.inline(em, bound, recv, st, e)
        if isinstance(f, ast.Attribute) and isinstance(f.value, ast.Name) and st.env.get(f.value.id) is recv and recv is not None and recv[0] == 'new' \
                and not recv[1].startswith('enum:') and not self.suppress and not self.in_comp:
            # rec.method(...) on a record built on this path and held in a local, the method assigning fields of the record: records are values here,
            # so the call is run on a fresh object with the record's fields and every local bound to THIS record afterwards denotes the updated one
            rc = self.M.cls(recv[1])
            rm = rc.lookup(f.attr) if rc is not None else None
            if rm is not None and not rm.is_property and not rm.is_static and _writes_self(rm) and not any(fr.qn == rm.qn for fr in self.frames):
                obj = ('obj', rc.name, next(self.uid))
                y0 = st.copy()
                for k_, v_ in recv[2]:
                    y0.heap[('attr', obj, k_)] = v_
                self._fresh_self.add(obj)
                try:
                    res = self.inline(rm, self.bind(rm, args, kwargs), obj, y0, e)
                finally:
                    self._fresh_self.discard(obj)
                out = []
                for s_, rv in res:
                    fields = []
                    for k_ in list(s_.heap):
                        if k_[0] == 'attr' and k_[1] == obj:
                            fields.append((k_[2], s_.heap.pop(k_)))
                    newt = ('new', rc.name, tuple(sorted(fields)))
                    held = [l_ for l_, hv_ in st.heap.items() if hv_ is recv and l_[0] == 'attr']
                    if held:
                        # the record is (also) held in a field: what the method wrote is written to that field's record - seen by everybody who reads the field
                        l0 = held[0]
                        for l_ in held:
                            s_.heap[l_] = newt
                        for e_ in s_.events:
                            if e_.kind == 'write' and _mentions(e_.loc, obj):
                                e_.d['loc'] = T.replace(e_.loc, lambda t: l0 if t == obj else None)
                                if e_.d.get('value') is not None and _mentions(e_.d['value'], obj):
                                    e_.d['value'] = T.replace(e_.d['value'], lambda t: l0 if t == obj else None)
                                e_.d['local'] = False
                    else:
                        s_.events = tuple(e_ for e_ in s_.events if not (e_.kind == 'write' and e_.loc[0] == 'attr' and e_.loc[1] == obj))
                    s_.env = {k_: (newt if v_ is recv else (T.replace(v_, lambda t: newt if t == obj else None) if _mentions(v_, obj) else v_)) for k_, v_ in s_.env.items()}
                    if _mentions(rv, obj):
                        rv = T.replace(rv, lambda t: newt if t == obj else None)
                    out.append((s_, rv))
                return out
        if isinstance(f, ast.Attribute) and isinstance(f.value, ast.Name) and f.value.id in ('self', 'cls') and fn.cls is not None:
            # NAME = functools.partialmethod(method, *bound) in the class body: self.NAME(x) is self.method(*bound, x)
            holder = self.dyn.get(len(self.frames)) or fn.cls
            pm = None
            for k_ in holder.mro():
                if f.attr in k_.class_attrs:
                    pm = k_.class_attrs[f.attr]
                    break
            if isinstance(pm, ast.Call) and ast.unparse(pm.func).split('.')[-1] == 'partialmethod' and pm.args and isinstance(pm.args[0], ast.Name) \
                    and holder.lookup(pm.args[0].id) is not None:
                node = ast.Call(func=ast.Attribute(value=f.value, attr=pm.args[0].id, ctx=ast.Load()), args=list(pm.args[1:]) + list(e.args),
                                keywords=list(pm.keywords) + list(e.keywords))
                for n_ in ast.walk(node):
                    if not hasattr(n_, 'lineno'):
                        ast.copy_location(n_, e)
                return self.call(node, st)
        if isinstance(f, ast.Name) and ('@ast:' + f.id) in st.env and st.env.get(f.id, ZERO)[0] == 'attr':
            clo = self.closures.get(st.env['@ast:' + f.id][1])
            if clo is not None and clo[3] is self.fn:
                # the local holds a bound method: call it through the expression that produced it, so that typing resolves the callee
                node = ast.copy_location(ast.Call(func=clo[1], args=list(e.args), keywords=list(e.keywords)), e)
                return self.call(node, st)
        targets, how, layer = self.M.resolve_any(fn, e, self.tenv())
        if not targets and isinstance(f, ast.Name) and f.id in st.env and st.env[f.id][0] == 'attr':
            # a bound method passed around as a value: getter = self.get_portfolio_total_equity ; getter(pid)
            bm = st.env[f.id]
            for fr in reversed(self.frames):
                if fr.cls is not None and bm[1] in (('var', 'self'), st.env.get('self')):
                    m = fr.cls.lookup(bm[2])
                    if m is not None:
                        targets, how, layer, recv = [m], 'typed', 1, bm[1]
                        break
        if not targets and how.startswith('untyped-attr') and isinstance(f, ast.Attribute) and isinstance(f.value, ast.Name):
            # an untyped local (e.g. the loop variable of a helper that was handed a list): class-hierarchy resolution by method name
            from .model import CONTAINER_METHODS
            ch = self.M.cha(f.attr) if f.attr not in CONTAINER_METHODS else []
            if ch and recv is not None and recv[0] in ('elem', 'sub', 'attr', 'var', 'call'):
                targets, how, layer = ch, 'cha', 3
        dyn = self.dyn.get(len(self.frames))
        if dyn is not None and isinstance(f, ast.Attribute) and isinstance(f.value, ast.Name) and f.value.id == 'self' and recv == st.env.get('self'):
            m = dyn.lookup(f.attr)
            if m is not None and not m.is_property:
                targets, how, layer = [m], 'typed', 1
        # a receiver whose symbolic value is a constructed object resolves exactly
        if recv is not None and recv[0] in ('new', 'obj'):
            c = self.M.cls(recv[1])
            m = c.lookup(f.attr) if c else None
            if m is not None:
                targets, how, layer = [m], 'typed', 1
        if how.startswith('ctor:'):
            c = self.M.cls(how[5:])
            return self.ctor_call(c, targets[0] if targets else None, args, kwargs, st, e, how, layer)
        if targets:
            if len(targets) == 1 and not self.suppress and (self.policy(fn, targets[0], len(self.frames)) or
                                                            (getattr(self, '_force_inline', 0) and how in ('modfunc', 'func') and getattr(self, '_force_site', None) is e)):
                t = targets[0]
                self_term = recv
                if how in ('static', 'modfunc', 'func', 'nested') and not t.is_classmethod:
                    self_term = None
                if t.is_classmethod:
                    self_term = ('var', 'class:' + (t.cls.name if t.cls else '?'))
                if how == 'callable-obj':
                    # obj(...) : receiver is the callable object itself
                    r = self.ev(f, st)
                    self_term = r[0][1] if len(r) == 1 else recv
                if how == 'super':
                    self_term = st.env.get('self', ('var', 'self'))
                return self.inline(t, self.bind(t, args, kwargs, skip_self=not (t.is_static or t.cls is None)), self_term, st, e)
            bound = self.bind(targets[0], args, kwargs, skip_self=not (targets[0].is_static or targets[0].cls is None))
            self_term = recv
            if how == 'callable-obj':
                r = self.ev(f, st)
                self_term = r[0][1] if len(r) == 1 else recv
            res = ('call', ('fn', '|'.join(sorted(t.qn for t in targets))), ((self_term,) if self_term is not None else ()) + tuple(args),
                   tuple(sorted(kwargs, key=lambda kv: str(kv[0]))))
            x = st.ev(Ev('call', callee=[t.qn for t in targets], args=bound, site=site, fn=fn.qn, how=how, layer=layer,
                         result=res, node=e, recv=self_term))
            return [(x, res)]
        # external / builtin / untyped
        kws = tuple(sorted(kwargs, key=lambda kv: str(kv[0])))
        if isinstance(f, ast.Attribute):
            ext = self.M.ext_name(fn.mod, f) if not (isinstance(f.value, ast.Name) and f.value.id in st.env) else None
            if ext is not None:
                name = T.API_CLASS.get(ext, ext)
                if name == 'COPY' and len(args) == 1 and not kws:
                    return [(st, args[0])]
                if ext == 'dataclasses.replace' and self._dc_replace(args, kws) is not None:
                    return [(st, self._dc_replace(args, kws))]
                if ext in ('math.floor', 'math.ceil', 'math.trunc') and len(args) == 1:
                    # math.floor/ceil/trunc return an int: int(<class>(x))
                    inner = ('call', ('ext', name), tuple(args), ())
                    return [(st, ('call', ('ext', 'INT'), (inner,), ()))]
                args = _canon_reducer_args(('ext', name), args)
                name, args, kws = _canon_ext_call(name, args, kws)
                if name == 'IDENTITY':
                    return [(st, args[0])]
                res = ('call', ('ext', name), tuple(args), kws)
                x = st.ev(Ev('call', callee=['ext:' + name], args=dict(enumerate(args)), site=site, fn=fn.qn, how=how, layer=0,
                             result=res, node=e, recv=None, kwargs=dict(kws)))
                return [(x, res)]
            if recv is not None and recv[0] == 'ext':
                name = recv[1] + '.' + f.attr
                name = T.API_CLASS.get(name, name)
                if name == 'DICT.fromkeys' and 1 <= len(args) <= 2 and not kws and (len(args) == 1 or args[1][0] in ('num', 'str', 'const', 'var', 'attr', 'rat')):
                    # (an immutable value: every key may share it; a container built in the call would be ONE object under all keys - kept as the call it is)
                    bv = ('bv', self.bv_depth)
                    return [(st, ('comp', 'dict', ('tuple', (bv, args[1] if len(args) == 2 else NONE)), (((bv,), args[0], ()),)))]
                res = ('call', ('ext', name), tuple(args), kws)
                x = st.ev(Ev('call', callee=['ext:' + name], args=dict(enumerate(args)), site=site, fn=fn.qn, how=how, layer=0,
                             result=res, node=e, recv=None, kwargs=dict(kwargs)))
                return [(x, res)]
            if f.attr == 'format' and recv is not None and recv[0] == 'str' and not kws and recv[1].count('{}') == len(args) and '{' not in recv[1].replace('{}', ''):
                return [(st, _fold_fmt(('fmt', ('str', recv[1].replace('%', '%%').replace('{}', '%s')), ('tuple', tuple(args)))))]
            if f.attr == 'get' and 1 <= len(args) <= 2 and not kws and recv is not None and recv[0] == 'dict' and _const_keyed(recv) and \
                    args[0][0] not in ('str', 'num', 'const'):
                return self.dict_lookup(recv, args[0], st, e, args[1] if len(args) == 2 else NONE)
            if f.attr == 'get' and 1 <= len(args) <= 2 and not kws and recv is not None and recv[0] == 'dict' and args[0][0] in ('str', 'num', 'const'):
                for kk, vv in recv[1]:
                    if kk == args[0]:
                        return [(st, vv)]
                if _const_keyed(recv):
                    return [(st, args[1] if len(args) == 2 else NONE)]
            if f.attr == 'get' and len(args) == 1 and not kws and not _is_queue(self.M, fn, f.value, self.tenv(), recv):
                # d.get(k): the element when present, None otherwise
                return [(st, ('call', ('ext', 'GET'), (recv, args[0]), ()))]
            if recv is not None and recv[0] == 'str' and f.attr in T.STR_METHODS and not args and not kws:
                return [(st, ('str', T.STR_METHODS[f.attr](recv[1])))]          # 'DAILY'.lower() is 'daily'
            res = ('call', ('meth', f.attr), (recv,) + tuple(args), kws)
            x = st.ev(Ev('call', callee=['meth:' + f.attr], args=dict(enumerate(args)), site=site, fn=fn.qn, how=how, layer=0,
                         result=res, node=e, recv=recv, kwargs=dict(kwargs)))
            if f.attr in MUTATORS or (f.attr == 'get' and _is_queue(self.M, fn, f.value, self.tenv(), recv)):
                local = isinstance(f.value, ast.Name) and f.value.id in x.env and _is_local_container(x.env[f.value.id])
                wloc = recv if not local else ('var', f.value.id)
                if not local and isinstance(f.value, ast.Attribute) and _is_local_container(recv) and not self.suppress:
                    # obj.field.append(v) where the field is known to hold a container built on this path: the write is to the FIELD (its location), whose
                    # content grows accordingly
                    try:
                        (x_l, lt_), = self.loc(f.value, x)[:1]
                    except Exception:
                        lt_ = None
                    if lt_ is not None and lt_ != recv and x.heap.get(lt_) == recv:
                        wloc = lt_
                        if f.attr == 'append' and recv[0] == 'list' and len(args) == 1 and not kws:
                            x = x.copy()
                            x.heap[lt_] = ('list', recv[1] + (args[0],))
                x = x.ev(Ev('write', loc=wloc, value=res, how='mut:' + f.attr, site=site, fn=fn.qn,
                            old=None, delta=None, local=local))
                if local:
                    opn = {'append': 'APPENDED', 'add': 'APPENDED', 'update': 'UPDATED', 'extend': 'EXTENDED'}.get(f.attr, 'MUTATED_' + f.attr)
                    x.env[f.value.id] = ('call', ('ext', opn), (recv,) + tuple(args), kws)
                    if f.attr == 'append' and recv[0] == 'list' and len(args) == 1 and not kws and not any(z_[0] == 'starred' for z_ in recv[1]):
                        x.env[f.value.id] = ('list', recv[1] + (args[0],))          # a list written out so far, plus one: still a list written out
                    elif f.attr == 'extend' and recv[0] == 'list' and len(args) == 1 and not kws and args[0][0] in ('list', 'tuple') \
                            and not any(z_[0] == 'starred' for z_ in recv[1] + args[0][1]):
                        x.env[f.value.id] = ('list', recv[1] + args[0][1])
            return [(x, res)]
        r = self.ev(f, st)
        fv = r[0][1] if len(r) == 1 else ('havoc', 'callee', site)
        return self.call_opaque(e, fv, args, kwargs, st, how)

    def call_method_by_name(self, e, recv, mname, margs, mkw, st):
        """recv.<mname>(*margs) for a receiver known only as a term: class-hierarchy resolution by method name (None if no such method in the package)"""
        from .model import CONTAINER_METHODS
        tg = [t_ for t_ in (self.M.cha(mname) if mname not in CONTAINER_METHODS else []) if not t_.is_property]
        if not tg:
            return None
        fn = self.fn
        if len(tg) == 1 and not self.suppress and self.policy(fn, tg[0], len(self.frames)):
            return self.inline(tg[0], self.bind(tg[0], margs, mkw), recv, st, e)
        bound = self.bind(tg[0], margs, mkw)
        res = ('call', ('fn', '|'.join(sorted(t_.qn for t_ in tg))), (recv,) + tuple(margs), tuple(sorted(mkw, key=lambda kv: str(kv[0]))))
        x = st.ev(Ev('call', callee=[t_.qn for t_ in tg], args=bound, site=self.site(e), fn=fn.qn, how='cha', layer=3, result=res, node=e, recv=recv))
        return [(x, res)]

    def call_localfn(self, e, fv, args, kwargs, st):
        host = self.M.funcs.get(fv[2]) or self._find_nested_host(fv[2])
        g = host.nested.get(fv[1]) if host is not None else None
        if g is None:
            return None
        clo = self.closures.get(('def', id(fv)))
        if clo is not None and clo[0] is not fv:
            clo = None
        cenv = None
        if clo is not None:
            cenv = dict(clo[2])
            if any(fr is clo[3] for fr in self.frames) and clo[3] is self.fn:
                cenv.update({k: v for k, v in st.env.items() if k in cenv})      # still inside the defining scope: current values
        if any(fr.qn == g.qn for fr in self.frames):
            raise Undecided('recursion through %s' % g.qn)
        a_ = g.node.args
        known_ = {p_.arg for p_ in list(a_.posonlyargs) + list(a_.args) + list(a_.kwonlyargs)}
        if a_.kwarg is None and any(k_ is not None and k_ not in known_ for k_, _ in kwargs):
            # Python refuses the call (unexpected keyword argument): not a path of the function
            raise Undecided('%s is called with a keyword it does not take' % g.qn)
        bound = self.apply_defaults(g, self.bind(g, args, kwargs, skip_self=False), st)
        req_ = [p_.arg for p_ in list(a_.posonlyargs) + list(a_.args)][:len(a_.posonlyargs) + len(a_.args) - len(a_.defaults)]
        if any(p_ not in bound for p_ in req_) and not any(a2_[0] == 'starred' for a2_ in args) and not any(k_ is None for k_, _ in kwargs):
            # Python refuses the call (missing required argument - a wrapper that names its first parameter differently, called by keyword): not a path
            raise Undecided('%s is called without its parameter %s' % (g.qn, next(p_ for p_ in req_ if p_ not in bound)))
        saved_env = st.env
        x = st.ev(Ev('enter', fn=g.qn, site=self.site(e), caller=self.fn.qn))
        self._bind_rest_once = True
        paths = self.run(g, bound, None, x, closure_env=cenv)
        out = []
        for p in paths:
            s = p.state.copy()
            s.env = dict(saved_env)
            s.events = s.events + (Ev('exit', fn=g.qn, outcome=p.outcome),)
            out.append((s, p.value if p.value is not None else NONE))
        return out

    def call_value(self, e, fv, args, kwargs, st):
        """call of a first-class function value"""
        site = self.site(e)
        fn = self.fn
        if fv[0] == 'localfn':
            r_ = self.call_localfn(e, fv, args, kwargs, st)
            if r_ is not None:
                return r_
        if fv[0] == 'call' and fv[1] == ('ext', 'functools.wraps') and len(args) == 1 and not kwargs:
            return [(st, args[0])]          # functools.wraps(f)(w) is w
        if fv[0] == 'call' and fv[1] in (('ext', 'functools.lru_cache'), ('ext', 'functools.cache')) and len(args) == 1 and not kwargs and _callable_value(args[0], self):
            return [(st, args[0])]          # lru_cache(maxsize=n)(f) computes what f computes (memoisation is examined by C18, not here)
        if fv[0] == 'var' and fv[1].startswith('class:') and self.M.cls(fv[1][6:]) is not None:
            c_ = self.M.cls(fv[1][6:])            # a class held in a variable / table and called: construction
            return self.ctor_call(c_, c_.lookup('__init__'), args, kwargs, st, e, 'ctor:' + c_.name, 1)
        if fv[0] == 'attr' and fv[1][0] != 'mod':
            # a bound method obtained as a value (attrgetter('get_bid')(ds), getattr(ds, name)): call it on its receiver
            r_ = self.call_method_by_name(e, fv[1], fv[2], list(args), list(kwargs), st)
            if r_ is not None:
                return r_
        if fv[0] == 'nt':
            tname, fields = fv[1], tuple(fv[2].split(','))
            if len(args) == 1 and args[0][0] == 'starred' and not kwargs:
                # Quote(*pair): the sequence unpacked over the fields - a written-out one element by element, any other by position
                items_ = _seq_items(args[0][1])
                if items_ is None:
                    items_ = [self.subscript(args[0][1], num(k_), st) for k_ in range(len(fields))]
                if len(items_) == len(fields) and not any(a_[0] == 'starred' for a_ in items_):
                    args = list(items_)
            vals = dict(zip(fields, args))
            vals.update({k: v for k, v in kwargs if k in fields})
            dflt = NT_DEFAULTS.get(tname, {})
            for f_ in fields:
                if f_ not in vals and f_ in dflt:
                    vals[f_] = dflt[f_]
            if all(f_ in vals for f_ in fields) and not any(a[0] == 'starred' for a in args):
                return [(st, make_nt(tname, [vals[f_] for f_ in fields]))]
            return self.call_opaque(e, fv, args, kwargs, st)
        if fv[0] == 'fn' and fv[1] in self.M.funcs and self.M.funcs[fv[1]].is_classmethod and self.M.funcs[fv[1]].cls is not None:
            # Class.make used as a value is already bound to its class: the arguments are the ones after `cls`
            t = self.M.funcs[fv[1]]
            ct = ('var', 'class:' + t.cls.name)
            bound = self.bind(t, list(args), kwargs, skip_self=True)
            if not self.suppress and self.policy(fn, t, len(self.frames)) and not any(fr.qn == t.qn for fr in self.frames):
                return self.inline(t, bound, ct, st, e)
            res = ('call', ('fn', t.qn), (ct,) + tuple(args), tuple(sorted(kwargs, key=lambda kv: str(kv[0]))))
            x = st.ev(Ev('call', callee=[t.qn], args=bound, site=site, fn=fn.qn, how='func', layer=1, result=res, node=e, recv=ct))
            return [(x, res)]
        if fv[0] == 'fn' and fv[1] in self.M.funcs and self.M.funcs[fv[1]].cls is not None and not self.M.funcs[fv[1]].is_static and args \
                and not any(a[0] == 'starred' for a in args[:1]):
            t = self.M.funcs[fv[1]]           # Class.method(obj, ...) / the raw function inside a decorator's wrapper
            bound = self.bind(t, args[1:], kwargs, skip_self=True)
            if not self.suppress and (self.policy(fn, t, len(self.frames)) or t.qn in getattr(self, '_raw', ())) and not any(fr.qn == t.qn for fr in self.frames):
                return self.inline(t, bound, args[0], st, e)
            res = ('call', ('fn', t.qn), tuple(args), tuple(sorted(kwargs, key=lambda kv: str(kv[0]))))
            x = st.ev(Ev('call', callee=[t.qn], args=bound, site=site, fn=fn.qn, how='func', layer=1, result=res, node=e, recv=args[0]))
            return [(x, res)]
        if fv[0] == 'fn' and fv[1] in self.M.funcs:
            t = self.M.funcs[fv[1]]
            if t.cls is None or t.is_static:
                bound = self.bind(t, args, kwargs, skip_self=False)
                if not self.suppress and (self.policy(fn, t, len(self.frames)) or getattr(self, '_force_inline', 0)) and not any(fr.qn == t.qn for fr in self.frames):
                    return self.inline(t, bound, None, st, e)
                res = ('call', ('fn', t.qn), tuple(args), tuple(sorted(kwargs, key=lambda kv: str(kv[0]))))
                x = st.ev(Ev('call', callee=[t.qn], args=bound, site=site, fn=fn.qn, how='func', layer=1, result=res, node=e, recv=None))
                return [(x, res)]
        if fv[0] == 'call' and fv[1] in (('ext', 'operator.attrgetter'), ('ext', 'operator.itemgetter'), ('ext', 'operator.methodcaller')) and \
                len(args) == 1 and not kwargs and len(e.args) == 1 and fv[2] and all(z[0] == 'str' for z in fv[2][:1] if fv[1][1] != 'operator.itemgetter'):
            # attrgetter('a.b')(x) is x.a.b ; itemgetter(i)(x) is x[i] ; methodcaller('m', *a)(x) is x.m(*a)   -- rebuilt as syntax so that typing and properties apply
            kind = fv[1][1].split('.')[1]
            x_ast = e.args[0]
            if kind == 'attrgetter' and all(z[0] == 'str' for z in fv[2]):
                def chain(spec):
                    node = x_ast
                    for part in spec.split('.'):
                        node = ast.copy_location(ast.Attribute(value=node, attr=part, ctx=ast.Load()), e)
                    return node
                nodes = [chain(z[1]) for z in fv[2]]
                node = nodes[0] if len(nodes) == 1 else ast.copy_location(ast.Tuple(elts=nodes, ctx=ast.Load()), e)
                return self.ev(node, st)
            if kind == 'itemgetter':
                vals = [self.subscript(args[0], z, st) for z in fv[2]]
                return [(st, vals[0] if len(vals) == 1 else ('tuple', tuple(vals)))]
            src_ = e.func if isinstance(e.func, ast.Call) else None
            if src_ is None:
                clo = self.closures.get(id(fv))
                if clo is not None and clo[0] is fv and clo[3] is self.fn:
                    src_ = clo[1]
            if kind == 'methodcaller' and src_ is None and fv[2][0][0] == 'str':
                # the method caller was built elsewhere (passed in as an argument): apply it by name to the receiver, class-hierarchy resolution
                r_ = self.call_method_by_name(e, args[0], fv[2][0][1], list(fv[2][1:]), list(fv[3]), st)
                if r_ is not None:
                    return r_
            if kind == 'methodcaller' and src_ is not None and len(src_.args) >= 1:
                node = ast.Call(func=ast.Attribute(value=x_ast, attr=fv[2][0][1], ctx=ast.Load()), args=list(src_.args[1:]), keywords=list(src_.keywords))
                for n in ast.walk(node):
                    if not hasattr(n, 'lineno'):
                        ast.copy_location(n, e)
                return self.ev(node, st)
        if fv[0] == 'call' and fv[1] == ('ext', 'functools.partial') and fv[2]:
            # partial(f, *a, **k)(*b, **l) is f(*a, *b, **{**k, **l})
            inner = fv[2][0]
            args2 = list(fv[2][1:]) + list(args)
            kw2 = dict(fv[3])
            kw2.update(dict(kwargs))
            kw2 = sorted(kw2.items(), key=lambda kv: str(kv[0]))
            if _callable_value(inner, self):
                return self.call_value(e, inner, args2, kw2, st)
            return self.call_opaque(e, inner, args2, kw2, st)
        if fv[0] == 'lambda':
            clo = self.closures.get(id(fv))
            if clo is not None and clo[0] is fv and not self.suppress:
                _, node, env, host = clo
                ps = [a.arg for a in node.args.args]
                dflt = env.get('@defaults', {})
                if getattr(node, '_qs_partial_lambda', False) and (args or kwargs) and all(k_ in dflt for k_ in ps) and not any(a[0] == 'starred' for a in args):
                    # the stand-in for partial(obj.method, *bound): arguments given at call time come AFTER the bound ones
                    y = st.copy()
                    saved = st.env
                    y.env = {k_: v_ for k_, v_ in env.items() if k_ != '@defaults'}
                    y.env.update({k_: dflt[k_] for k_ in ps})
                    extra_a, extra_k = [], []
                    for i_, a_ in enumerate(args):
                        y.env['_px%d' % i_] = a_
                        extra_a.append(ast.Name(id='_px%d' % i_, ctx=ast.Load()))
                    for k_, v_ in kwargs:
                        y.env['_pxk_%s' % k_] = v_
                        extra_k.append(ast.keyword(arg=k_, value=ast.Name(id='_pxk_%s' % k_, ctx=ast.Load())))
                    body2 = ast.Call(func=node.body.func, args=list(node.body.args) + extra_a, keywords=[k_ for k_ in node.body.keywords if k_.arg not in dict(kwargs)] + extra_k)
                    for n_ in ast.walk(body2):
                        if not hasattr(n_, 'lineno'):
                            ast.copy_location(n_, node)
                    ast.copy_location(body2, node)
                    self.frames.append(host)
                    try:
                        res = self.ev(body2, y)
                    finally:
                        self.frames.pop()
                    out = []
                    for z, v in res:
                        z = z.copy()
                        z.env = dict(saved)
                        out.append((z, v))
                    return out
                given = dict(zip(ps, args))
                given.update({k_: v_ for k_, v_ in kwargs if k_ in ps})
                for k_ in ps:
                    if k_ not in given and k_ in dflt:
                        given[k_] = dflt[k_]
                if len(args) <= len(ps) and all(k_ in given for k_ in ps) and all(k_ in ps for k_, _ in kwargs) and not any(a[0] == 'starred' for a in args):
                    saved = st.env
                    y = st.copy()
                    y.env = {k_: v_ for k_, v_ in env.items() if k_ != '@defaults'}
                    # late binding: the closure sees the caller's current values of the variables it shares with its defining scope
                    if host is self.fn:
                        for k_, v_ in saved.items():
                            if k_ in y.env:
                                y.env[k_] = v_
                    y.env.update(given)
                    self.frames.append(host)
                    try:
                        res = self.ev(node.body, y)
                    finally:
                        self.frames.pop()
                    out = []
                    for z, v in res:
                        z = z.copy()
                        z.env = dict(saved)
                        out.append((z, v))
                    return out
            full = list(args)
            if len(fv) > 3 and not kwargs and len(args) < fv[1]:
                dm = dict(fv[3])
                full = list(args) + [dm.get(k_) for k_ in range(len(args), fv[1])]
            if len(full) == fv[1] and not kwargs and None not in full:
                # pure beta-reduction of the summarised body (missing trailing arguments take the defaults bound at creation)
                base = int(fv[4][1]) if len(fv) > 4 else self.bv_depth       # parameters are numbered from the depth at which the lambda was created
                m = {('bv', base + k_): a for k_, a in enumerate(full)}
                return [(st, T.replace(fv[2], lambda z: m.get(z) if z[0] == 'bv' else None))]
        return self.call_opaque(e, fv, args, kwargs, st)

    def _dc_replace(self, args, kws):
        """dataclasses.replace(record, f=v, ...) on a record built on this path: the same record with those fields set (the generated __init__ assigns each field
        from the argument of its name; a class with __post_init__ or a hand-written __init__ is not read this way)"""
        if len(args) != 1 or args[0][0] != 'new' or not kws:
            return None
        c = self.M.cls(args[0][1])
        if c is None or c.lookup('__post_init__') is not None or '__init__' in c.methods:
            return None
        if not any(ast.unparse(d.func if isinstance(d, ast.Call) else d).split('.')[-1] == 'dataclass' for d in c.node.decorator_list):
            return None
        have = dict(args[0][2])
        if any(k not in have for k, _ in kws):
            return None
        have.update(dict(kws))
        return ('new', args[0][1], tuple(sorted(have.items())))

    def nt_method(self, e, recv, name, args, kwargs, st):
        if recv[0] == 'nt':
            tname, fields = recv[1], tuple(recv[2].split(','))
            if name == '_make' and len(args) == 1:
                items = _seq_items(args[0])
                if items is None:
                    items = [self.subscript(args[0], num(k_), st) for k_ in range(len(fields))]
                if len(items) == len(fields):
                    return [(st, make_nt(tname, items))]
        else:
            tname = recv[1]
            fields = NT_FIELDS[tname]
            d = dict(recv[2])
            if name == '_replace' and not args:
                d.update({k: v for k, v in kwargs})
                return [(st, make_nt(tname, [d[f_] for f_ in fields]))]
            if name == '_asdict' and not args:
                return [(st, ('dict', tuple((('str', f_), d[f_]) for f_ in fields)))]
        return self.call_opaque(e, ('attr', recv, name), args, kwargs, st)

    def call_opaque(self, e, fv, args, kwargs, st, how='value'):
        site = self.site(e)
        fn = self.fn
        if (fv in (('ext', 'functools.lru_cache'), ('ext', 'functools.cache')) or (fv[0] == 'call' and fv[1] in (('ext', 'functools.lru_cache'), ('ext', 'functools.cache')))) \
                and len(args) == 1 and not kwargs and _callable_value(args[0], self):
            return [(st, args[0])]          # lru_cache(f) / lru_cache(maxsize=n)(f) / cache(f) computes what f computes (memoisation itself is C18's business)
        kws = tuple(sorted(kwargs, key=lambda kv: str(kv[0])))
        args = _canon_reducer_args(fv, args)
        if fv == ('ext', 'INT') and len(args) == 1 and not kws and args[0][0] == 'call' and args[0][1] == ('ext', 'INT'):
            return [(st, args[0])]
        if fv == ('ext', 'INT') and len(args) == 1 and not kws and self.try_value and not self.in_comp and not self.suppress and args[0][0] not in ('str', 'num'):
            # inside `try: ... except ValueError`: int(x) raises ValueError exactly when the number is NaN (an infinity raises OverflowError, which is not caught)
            self._modelled_lookups = getattr(self, '_modelled_lookups', 0) + 1
            out = []
            for y, isn in self.decide(('call', ('ext', 'ISNAN'), (args[0],), ()), st, e):
                if isn:
                    z = y.ev(Ev('raise', exc='ValueError', site=site, fn=fn.qn, args=(args[0],)))
                    z.exc = ('raise', 'ValueError', site, fn.qn, fn.cls.name if fn.cls is not None else None)
                    out.append((z, ZERO))
                else:
                    out.append((y, ('call', ('ext', 'INT'), (args[0],), ())))
            return out
        if fv == ('ext', 'FLOAT') and len(args) == 1 and not kws and args[0][0] != 'str':
            return [(st, args[0])]          # float(x) is the identity on numbers (over the reals)
        if fv[0] == 'ext' and len(args) == 1 and not kws and args[0] in (('list', ()), ('dict', ())) and fv[1] in _EMPTY_FOLD:
            return [(st, _EMPTY_FOLD[fv[1]])]
        if fv[0] == 'ext' and fv[1] in ('SORTED', 'LIST', 'builtins.reversed') and len(args) == 1 and args[0] in (('list', ()), ('tuple', ()), ('dict', ()), ('set', ())) \
                and all(k in ('key', 'reverse') for k, _ in kws):
            return [(st, ('list', ()))]          # nothing to order
        if fv == ('ext', 'COPY') and len(args) == 1 and not kws:
            return [(st, args[0])]
        if fv == ('ext', 'dataclasses.replace') and self._dc_replace(args, kws) is not None:
            return [(st, self._dc_replace(args, kws))]
        if fv in (('ext', 'LIST'), ('ext', 'TUPLE')) and len(args) == 1 and not kws and args[0][0] in ('tuple', 'list') and not any(z_[0] == 'starred' for z_ in args[0][1]) \
                and (all(z_[0] in ('str', 'num', 'const') for z_ in args[0][1]) or (args[0][0] == 'list' and fv[1] == 'LIST')):
            return [(st, ('list' if fv[1] == 'LIST' else 'tuple', args[0][1]))]          # list(('a', 'b')) of constants written out
        if fv == ('ext', 'builtins.getattr') and len(args) == 2 and not kws and args[1][0] == 'str' and len(e.args) == 2 and args[1][1].isidentifier():
            # getattr(x, 'name') is x.name
            return self.ev(ast.copy_location(ast.Attribute(value=e.args[0], attr=args[1][1], ctx=ast.Load()), e), st)
        if fv == ('ext', 'builtins.setattr') and len(args) == 3 and not kws and args[1][0] == 'str' and len(e.args) == 3 and args[1][1].isidentifier() \
                and not any(isinstance(a_, ast.Starred) for a_ in e.args):
            # setattr(x, 'name', v) is x.name = v
            tgt = ast.copy_location(ast.Attribute(value=e.args[0], attr=args[1][1], ctx=ast.Store()), e)
            return [(self.assign(tgt, args[2], st, e), NONE)]
        if fv[0] == 'ext' and fv[1].startswith('operator.') and not kws:
            opn = fv[1][9:].strip('_')
            bin_ = {'add': ast.Add, 'sub': ast.Sub, 'mul': ast.Mult, 'truediv': ast.Div, 'floordiv': ast.FloorDiv, 'mod': ast.Mod, 'pow': ast.Pow,
                    'iadd': ast.Add, 'isub': ast.Sub, 'imul': ast.Mult, 'itruediv': ast.Div}       # on numbers the in-place forms return the same value
            cmp_ = {'lt': ast.Lt, 'le': ast.LtE, 'eq': ast.Eq, 'ne': ast.NotEq, 'ge': ast.GtE, 'gt': ast.Gt, 'is': ast.Is, 'is_not': ast.IsNot}
            if opn in bin_ and len(args) == 2:
                return [(st, self.binop(bin_[opn](), args[0], args[1]))]
            if opn in cmp_ and len(args) == 2:
                return [(st, self.compare(cmp_[opn](), args[0], args[1]))]
            if opn == 'contains' and len(args) == 2:
                return [(st, self.compare(ast.In(), args[1], args[0]))]
            if opn == 'neg' and len(args) == 1:
                return [(st, T.t_neg(args[0]))]
            if opn == 'not' and len(args) == 1:
                return [(st, mk_not(args[0]))]
            if opn == 'getitem' and len(args) == 2:
                return [(st, self.subscript(args[0], args[1], st))]
            if opn in ('abs', 'index') and len(args) == 1:
                return [(st, ('call', ('ext', 'ABS'), (args[0],), ())) if opn == 'abs' else (st, args[0])]
        if fv == ('ext', 'DICT') and len(args) == 1 and not kws and args[0][0] in ('list', 'tuple') and \
                all(z[0] == 'tuple' and len(z[1]) == 2 for z in args[0][1]):
            d_ = {}
            for z in args[0][1]:
                d_[z[1][0]] = z[1][1]
            return [(st, ('dict', tuple(d_.items())))]
        if fv in (('ext', 'ANY'), ('ext', 'ALL')) and len(args) == 1 and not kws and args[0][0] == 'comp' and args[0][1] in ('gen', 'list') and len(args[0][3]) == 1:
            # any(e(x) for x in <written-out items> if c(x)): the tests written out one by one - [c(x1) and e(x1), c(x2) and e(x2), ...] (all: [not c(x1) or e(x1), ...])
            shape_, it_, ifs_ = args[0][3][0]
            items_ = _const_items(it_)
            if items_ is not None and len(shape_) == 1 and shape_[0][0] == 'bv' and ifs_:
                def fold_(t_):
                    return T.replace(t_, lambda z: dict(z[1][2]).get(z[2]) if z[0] == 'attr' and z[1][0] == 'new' and z[2] in dict(z[1][2]) else None)
                terms_ = []
                for v_ in items_:
                    rep_ = lambda z, v_=v_: v_ if z == shape_[0] else None
                    cs_ = [fold_(T.replace(q_, rep_)) for q_ in ifs_]
                    e_ = fold_(T.replace(args[0][2], rep_))
                    tvs_ = [truth(c_) for c_ in cs_]
                    if any(t_ is False for t_ in tvs_):
                        continue
                    cs_ = [c_ for c_, t_ in zip(cs_, tvs_) if t_ is None]
                    if fv[1] == 'ANY':
                        terms_.append(('and', tuple(cs_) + (e_,)) if cs_ else e_)
                    else:
                        terms_.append(('or', tuple(('not', c_) for c_ in cs_) + (e_,)) if cs_ else e_)
                args = [('list', tuple(terms_))]
        if fv == ('ext', 'itertools.islice') and len(args) == 2 and not kws and args[0][0] in ('list', 'tuple') and args[1][0] == 'num' and args[1][1].denominator == 1 \
                and not any(z[0] == 'starred' for z in args[0][1]):
            return [(st, ('list', tuple(args[0][1][:int(args[1][1])])))]          # the first n of a written-out sequence
        if fv == ('ext', 'functools.reduce') and len(args) == 2 and not kws and args[0] == ('ext', 'operator.add') and args[1][0] in ('list', 'tuple') and args[1][1] \
                and not any(z[0] == 'starred' for z in args[1][1]):
            tot = args[1][1][0]                                     # a left fold of + over a written-out sequence
            for z in args[1][1][1:]:
                tot = T.t_add(tot, z)
            return [(st, tot)]
        if fv == ('ext', 'functools.reduce') and len(args) == 3 and not kws and args[0] == ('ext', 'operator.add') and args[2] == ZERO:
            return self.call_opaque(e, ('ext', 'SUM'), [args[1]], [], st, how)        # a left fold of + from 0 is sum()
        if fv == ('ext', 'DICT') and len(args) == 1 and not kws and args[0][0] == 'comp' and args[0][1] in ('gen', 'list') and \
                args[0][2][0] == 'tuple' and len(args[0][2][1]) == 2:
            return [(st, ('comp', 'dict') + args[0][2:])]          # dict((k, v) for ...) is {k: v for ...}
        if fv == ('ext', 'SUM') and 1 <= len(args) <= 2 and not kws and args[0][0] in ('list', 'tuple') and not any(z[0] == 'starred' for z in args[0][1]) \
                and (len(args) == 1 or args[1][0] in ('num', 'rat')):
            tot = args[1] if len(args) == 2 else ZERO          # sum of a literal sequence is the sum of its items
            for z in args[0][1]:
                tot = T.t_add(tot, z)
            return [(st, tot)]
        if fv == ('ext', 'SUM') and len(args) == 2 and not kws and args[1] == ZERO:
            args = args[:1]                                         # sum(xs, 0) is sum(xs)
        if fv == ('ext', 'SUM') and len(args) == 1 and not kws and args[0][0] == 'call' and args[0][1] == ('meth', 'values') and len(args[0][2]) == 1 \
                and args[0][2][0][0] == 'comp' and args[0][2][0][1] == 'dict' and args[0][2][0][2][0] == 'tuple':
            dcomp = args[0][2][0]                                    # sum({k: v for ...}.values()) is sum(v for ...)  (keys distinct: one term per key)
            args = [('comp', 'gen', dcomp[2][1][1], dcomp[3])]
        if fv == ('ext', 'DICT') and len(args) == 1 and not kws:
            dc = _dict_of_zip(args[0], self.bv_depth)
            if dc is not None:
                return [(st, dc)]
        if fv[0] == 'ext':
            name, args, kws = _canon_ext_call(fv[1], args, kws)
            if name == 'IDENTITY':
                return [(st, args[0])]
            fv = ('ext', name)
            res = ('call', fv, tuple(args), kws)
        else:
            res = ('call', ('ext', 'APPLY'), (fv,) + tuple(args), kws)
            name = 'APPLY'
        x = st.ev(Ev('call', callee=['ext:' + name], args=dict(enumerate(args)), site=site, fn=fn.qn, how=how, layer=0, result=res,
                     node=e, recv=None, kwargs=dict(kwargs)))
        return [(x, res)]

    def _find_nested_host(self, qn):
        for f in self.M.all_funcs():
            if f.qn == qn:
                return f
        return None


_BUILTINS = set(dir(__builtins__)) if not isinstance(__builtins__, dict) else set(__builtins__)


NT_FIELDS = {}      # named-tuple type name -> field names in order


def _seq_items(v):
    if v[0] in ('tuple', 'list') and not any(z[0] == 'starred' for z in v[1]):
        return list(v[1])
    if v[0] == 'new' and v[1] in NT_FIELDS:
        d = dict(v[2])
        if all(f_ in d for f_ in NT_FIELDS[v[1]]):
            return [d[f_] for f_ in NT_FIELDS[v[1]]]
    return None


def make_nt(tname, values):
    return ('new', tname, tuple(sorted(zip(NT_FIELDS[tname], values))))


NT_DEFAULTS = {}    # named-tuple type name -> {field: default term}


def reduce_subscript(b, i):
    """value of b[i] for a comprehension-built dict b, as SymEx.subscript computes it (no heap): {k: f(k, v) for k, v in D.items()}[i] == f(i, D[i])"""
    class _St:
        heap = {}

    class _Sx:
        subscript = SymEx.subscript
    return _Sx().subscript(b, i, _St)


def _match_to_if(s, site):
    """match subject: case P1: B1 ... -> tmp = subject; if test(P1): binds; B1 elif ...  (value, singleton, or-, wildcard/capture and fixed-length sequence patterns)"""
    tmp = '_match_%d' % getattr(s, 'lineno', 0)

    def L(n):
        for x in ast.walk(n):
            if not hasattr(x, 'lineno'):
                ast.copy_location(x, s)
        return n

    def test(p, subj):
        """-> (test expr or None for always-true, [bindings as (name, expr)])"""
        if isinstance(p, ast.MatchValue):
            return ast.Compare(left=subj, ops=[ast.Eq()], comparators=[p.value]), []
        if isinstance(p, ast.MatchSingleton):
            return ast.Compare(left=subj, ops=[ast.Is()], comparators=[ast.Constant(value=p.value)]), []
        if isinstance(p, ast.MatchOr):
            ts = [test(q, subj) for q in p.patterns]
            if any(b for _, b in ts):
                raise Undecided('match: capture inside an or-pattern at %s' % site)
            if any(t is None for t, _ in ts):
                return None, []
            return ast.BoolOp(op=ast.Or(), values=[t for t, _ in ts]), []
        if isinstance(p, ast.MatchAs):
            if p.pattern is None:
                return None, ([(p.name, subj)] if p.name else [])
            t, b = test(p.pattern, subj)
            return t, b + ([(p.name, subj)] if p.name else [])
        if isinstance(p, ast.MatchSequence) and not any(isinstance(q, ast.MatchStar) for q in p.patterns):
            parts = [ast.Compare(left=ast.Call(func=ast.Name(id='len', ctx=ast.Load()), args=[subj], keywords=[]), ops=[ast.Eq()],
                                 comparators=[ast.Constant(value=len(p.patterns))])]
            binds = []
            for i, q in enumerate(p.patterns):
                t, b = test(q, ast.Subscript(value=subj, slice=ast.Constant(value=i), ctx=ast.Load()))
                if t is not None:
                    parts.append(t)
                binds += b
            return (parts[0] if len(parts) == 1 else ast.BoolOp(op=ast.And(), values=parts)), binds
        raise Undecided('match pattern %s at %s' % (type(p).__name__, site))

    subj = ast.Name(id=tmp, ctx=ast.Load())
    chain = None
    for case in reversed(s.cases):
        t, binds = test(case.pattern, subj)
        if case.guard is not None:
            guard = case.guard
            if binds:
                # the guard sees the captured names: they are plain projections of the subject, so the guard is evaluated on those projections
                import copy as _copy
                bm = dict(binds)

                class _Sub(ast.NodeTransformer):
                    def visit_Name(self, n):
                        if isinstance(n.ctx, ast.Load) and n.id in bm:
                            return ast.copy_location(_copy.deepcopy(bm[n.id]), n)
                        return n
                if any(isinstance(x, (ast.NamedExpr, ast.Lambda)) for x in ast.walk(guard)):
                    raise Undecided('match: guard with bindings of its own on a capturing pattern at %s' % site)
                guard = _Sub().visit(_copy.deepcopy(guard))
            t = guard if t is None else ast.BoolOp(op=ast.And(), values=[t, guard])
        body = [ast.Assign(targets=[ast.Name(id=n, ctx=ast.Store())], value=v) for n, v in binds] + list(case.body)
        if t is None:
            chain = body
        else:
            chain = [ast.If(test=t, body=body, orelse=chain or [])]
    out = [ast.Assign(targets=[ast.Name(id=tmp, ctx=ast.Store())], value=s.subject)] + (chain or [])
    return [L(x) for x in out]


def _literal_rows(it):
    """the rows of a literal table, however it is traversed: TABLE.items() / .values() / .keys() / TABLE itself, enumerate(ROWS), zip(ROWS, ROWS)"""
    if it[0] == 'call' and it[1] in (('meth', 'items'), ('meth', 'values'), ('meth', 'keys')) and len(it[2]) == 1 and it[2][0][0] == 'dict' and \
            all(k is not None for k, _ in it[2][0][1]):
        rows = it[2][0][1]
        if it[1][1] == 'items':
            return ('list', tuple(('tuple', (k, v)) for k, v in rows))
        return ('list', tuple((v if it[1][1] == 'values' else k) for k, v in rows))
    if it[0] == 'dict' and all(k is not None for k, _ in it[1]):
        return ('list', tuple(k for k, _ in it[1]))
    if it[0] == 'call' and it[1] == ('ext', 'ENUMERATE') and len(it[2]) == 1 and not it[3]:
        inner = _literal_rows(it[2][0])
        if inner[0] in ('list', 'tuple'):
            return ('list', tuple(('tuple', (num(i), v)) for i, v in enumerate(inner[1])))
    if it[0] == 'call' and it[1] == ('ext', 'ZIP') and len(it[2]) == 1 and not it[3] and it[2][0][0] == 'starred':
        # zip(*[(a(x), b(x), ...) for x in xs]): the transpose - one sequence per component
        rows = it[2][0][1]
        if rows[0] == 'comp' and rows[1] in ('list', 'gen') and rows[2][0] == 'tuple' and rows[2][1] and not any(z[0] == 'starred' for z in rows[2][1]):
            return ('list', tuple(('comp', 'list', comp_, rows[3]) for comp_ in rows[2][1]))
    if it[0] == 'call' and it[1] == ('ext', 'ZIP') and len(it[2]) >= 2 and not it[3]:
        cols = [_literal_rows(c) for c in it[2]]
        if all(c[0] in ('list', 'tuple') for c in cols):
            return ('list', tuple(('tuple', tuple(r)) for r in zip(*[c[1] for c in cols])))
    return it


def _is_generator(fn):
    def walk(n):
        for ch in ast.iter_child_nodes(n):
            if isinstance(ch, (ast.FunctionDef, ast.Lambda, ast.ClassDef)):
                continue
            if isinstance(ch, (ast.Yield, ast.YieldFrom)):
                return True
            if walk(ch):
                return True
        return False
    return walk(fn.node)


def _dict_of_zip(z, base):
    """dict(zip(d.keys(), [f(v) for v in d.values()]))  ==  {k: f(v) for k, v in d.items()}"""
    if not (z[0] == 'call' and z[1] == ('ext', 'ZIP') and len(z[2]) == 2 and not (set(dict(z[3])) - {'strict'})):
        return None         # (strict=True only adds a length check)
    ks, vs = z[2]
    while ks[0] == 'call' and ks[1] in (('ext', 'LIST'), ('ext', 'TUPLE')) and len(ks[2]) == 1:
        ks = ks[2][0]
    if ks[0] in ('tuple', 'list') and vs[0] in ('tuple', 'list') and not any(x_[0] == 'starred' for x_ in ks[1] + vs[1]) and all(k_[0] in ('str', 'num') for k_ in ks[1]):
        # dict(zip(('a', 'b', 'c'), (x, y)))  ==  {'a': x, 'b': y}: pairs up to the shorter of the two
        return ('dict', tuple(zip(ks[1], vs[1])))
    d = ks[2][0] if ks[0] == 'call' and ks[1] == ('meth', 'keys') and len(ks[2]) == 1 else ks
    # (k for k, _ in d.items()) is d's keys; a tuple/list made of the values first is the same values
    if ks[0] == 'comp' and ks[1] in ('list', 'gen') and len(ks[3]) == 1 and not ks[3][0][2] and len(ks[3][0][0]) == 2 and ks[2] == ks[3][0][0][0] \
            and ks[3][0][1][0] == 'call' and ks[3][0][1][1] == ('meth', 'items') and len(ks[3][0][1][2]) == 1:
        d = ks[3][0][1][2][0]
    while vs[0] == 'call' and vs[1] in (('ext', 'LIST'), ('ext', 'TUPLE')) and len(vs[2]) == 1 and not vs[3]:
        vs = vs[2][0]
    if vs == ('call', ('meth', 'values'), (d,), ()):
        kb, vb = ('bv', base), ('bv', base + 1)
        return ('comp', 'dict', ('tuple', (kb, vb)), (((kb, vb), ('call', ('meth', 'items'), (d,), ()), ()),))
    if vs[0] == 'call' and vs[1] == ('ext', 'itertools.repeat') and len(vs[2]) == 1 and not vs[3]:
        # dict(zip(keys, repeat(c)))  ==  {k: c for k in keys}
        kb = ('bv', base)
        return ('comp', 'dict', ('tuple', (kb, vs[2][0])), (((kb,), ks, ()),))
    if vs[0] == 'comp' and vs[1] in ('list', 'gen') and len(vs[3]) == 1 and len(vs[3][0][0]) == 1:
        shape, src, ifs = vs[3][0]
        if src == ('call', ('meth', 'values'), (d,), ()) and not ifs:
            kb, vb = ('bv', base), ('bv', base + 1)
            elt = T.replace(vs[2], lambda t: vb if t == shape[0] else None)
            return ('comp', 'dict', ('tuple', (kb, elt)), (((kb, vb), ('call', ('meth', 'items'), (d,), ()), ()),))
    return None


def _canon_ext_call(name, args, kws):
    """math.isclose(x, 0, rel_tol=0, abs_tol=t) tests |x| <= t, and so does numpy.isclose(x, 0, atol=t) whatever rtol is: one form, ISCLOSE(x, 0[, atol=t]) (default t = 1e-08)"""
    from fractions import Fraction
    if name == 'ROUND' and 1 <= len(args) <= 2 and not kws and all(a[0] == 'num' for a in args) and (len(args) == 1 or args[1][1].denominator == 1):
        # round(<literal>, n) is a literal
        v = round(float(args[0][1]), int(args[1][1])) if len(args) == 2 else round(float(args[0][1]))
        if Fraction(str(v)) == args[0][1] or args[0][1].denominator == 1:
            return 'IDENTITY', [num(v)], ()
    if name == 'ROUND' and len(args) == 2 and args[1] == NONE and not kws:
        return 'ROUND', list(args[:1]), ()          # round(x, None) is round(x)
    if name == 'ROUND' and len(args) == 1 and dict(kws).get('ndigits') == NONE and len(kws) == 1:
        return 'ROUND', list(args), ()
    if name in ('ISCLOSE', 'MISCLOSE') and len(args) == 2 and args[1] == ZERO:
        k = dict(kws)
        dflt = ('num', Fraction('1e-08'))
        tol = None
        if name == 'ISCLOSE' and set(k) <= {'atol', 'rtol'}:
            tol = k.get('atol', dflt)
        elif name == 'MISCLOSE' and set(k) <= {'abs_tol', 'rel_tol'} and ('rel_tol' not in k or (k['rel_tol'][0] == 'num' and 0 <= k['rel_tol'][1] < 1)):
            # |x| <= max(rel_tol * |x|, abs_tol): for rel_tol < 1 (default 1e-09) the relative part admits x == 0 only, so the test is |x| <= abs_tol (default 0.0)
            tol = k.get('abs_tol', ZERO)
        if tol is not None:
            return 'ISCLOSE', list(args), (() if tol == dflt else (('atol', tol),))
    return name, args, kws


def _as_nt(v):
    """namedtuple('T', fields) -> the named-tuple type ('nt', 'nt:T', fields)"""
    if v[0] == 'call' and v[1] in (('ext', 'collections.namedtuple'), ('ext', 'namedtuple')) and len(v[2]) >= 2 and v[2][0][0] == 'str':
        spec = v[2][1]
        fields = None
        if spec[0] == 'str':
            fields = spec[1].replace(',', ' ').split()
        elif spec[0] in ('list', 'tuple') and all(z[0] == 'str' for z in spec[1]):
            fields = [z[1] for z in spec[1]]
        if fields:
            tname = 'nt:' + v[2][0][1]
            NT_FIELDS[tname] = tuple(fields)
            dflt = dict(v[3]).get('defaults')
            if dflt is not None and dflt[0] in ('tuple', 'list'):
                NT_DEFAULTS[tname] = dict(zip(fields[len(fields) - len(dflt[1]):], dflt[1]))
            return ('nt', tname, ','.join(fields))
    return v


def _callable_value(fv, sx):
    if fv[0] == 'call' and fv[1] in (('ext', 'operator.attrgetter'), ('ext', 'operator.itemgetter'), ('ext', 'operator.methodcaller')):
        return True
    if fv[0] == 'call' and fv[1] in (('ext', 'functools.partial'), ('ext', 'functools.wraps')) and fv[2]:
        return True
    if fv[0] == 'localfn':
        return True
    if fv[0] == 'var' and fv[1].startswith('class:') and sx.M.cls(fv[1][6:]) is not None:
        return True
    if fv[0] == 'attr' and fv[1][0] != 'mod':
        from .model import CONTAINER_METHODS
        return fv[2] not in CONTAINER_METHODS and any(not t_.is_property for t_ in sx.M.cha(fv[2]))
    return fv[0] in ('nt', 'lambda') or (fv[0] == 'fn' and fv[1] in sx.M.funcs)


def is_nt_attr(recv, f):
    return isinstance(f, ast.Attribute) and recv is not None and ((recv[0] == 'nt' and f.attr in ('_make',)) or
                                                                  (recv[0] == 'new' and recv[1] in NT_FIELDS and f.attr in ('_replace', '_asdict')))


def _const_keyed(d):
    return d[0] == 'dict' and 0 < len(d[1]) <= 12 and all(k is not None and k[0] in ('str', 'num', 'const') for k, _ in d[1])


def _table_like(n):
    """module-level value that is data: literals, containers of them, names/attribute chains (functions, classes), lambdas, and calls on such arguments"""
    if isinstance(n, ast.Constant):
        return True
    if isinstance(n, (ast.Tuple, ast.List, ast.Set)):
        return all(_table_like(x) for x in n.elts)
    if isinstance(n, ast.Dict):
        return all(k is not None and _table_like(k) for k in n.keys) and all(_table_like(v) for v in n.values)
    if isinstance(n, ast.Name):
        return True
    if isinstance(n, ast.Attribute):
        return _table_like(n.value)
    if isinstance(n, ast.Lambda):
        return True
    if isinstance(n, ast.UnaryOp):
        return _table_like(n.operand)
    if isinstance(n, ast.BinOp):
        return _table_like(n.left) and _table_like(n.right)
    if isinstance(n, ast.Call):
        return _table_like(n.func) and all(_table_like(a) for a in n.args) and all(_table_like(k.value) for k in n.keywords)
    if isinstance(n, (ast.ListComp, ast.SetComp, ast.GeneratorExp, ast.DictComp)):
        parts = ([n.key, n.value] if isinstance(n, ast.DictComp) else [n.elt]) + [g.iter for g in n.generators] + [c for g in n.generators for c in g.ifs]
        return all(_table_like(p) for p in parts)
    if isinstance(n, ast.Compare):
        return _table_like(n.left) and all(_table_like(c) for c in n.comparators)
    if isinstance(n, ast.Starred):
        return _table_like(n.value)
    return False


_EMPTY_FOLD = {'SUM': ZERO, 'LEN': ZERO, 'ANY': ('const', 'False'), 'ALL': ('const', 'True')}


_NUM_CONSTS = {'calendar.MONDAY': 0, 'calendar.TUESDAY': 1, 'calendar.WEDNESDAY': 2, 'calendar.THURSDAY': 3, 'calendar.FRIDAY': 4, 'calendar.SATURDAY': 5,
               'calendar.SUNDAY': 6}


def _const_items(it):
    """the elements of a constant iterable (range of literals, literal sequence), else None"""
    it = _literal_rows(it)
    if it[0] == 'call' and it[1] == ('ext', 'RANGE') and 1 <= len(it[2]) <= 3 and not it[3] and all(a[0] == 'num' and a[1].denominator == 1 for a in it[2]):
        r = range(*[int(a[1]) for a in it[2]])
        return [num(v) for v in r] if len(r) <= 16 else None
    if it[0] in ('list', 'tuple') and len(it[1]) <= 16 and all(z[0] in ('num', 'str', 'const', 'tuple', 'comp') or (z[0] == 'new' and z[1].startswith('enum:')) for z in it[1]):
        return list(it[1])
    return None


def _unroll_const_comp(c):
    """a comprehension over a constant iterable is the literal it builds: {d: s for d in range(0, 5)} == {0: s, 1: s, 2: s, 3: s, 4: s}"""
    if c[0] != 'comp' or len(c[3]) != 1:
        return c
    shape, it, ifs = c[3][0]
    items = _const_items(it)
    if items is None or not all(z[0] == 'bv' for z in shape):
        return c
    out = []
    for v in items:
        if len(shape) == 1:
            m = {shape[0]: v}
        elif v[0] == 'tuple' and len(v[1]) == len(shape):
            m = dict(zip(shape, v[1]))
        else:
            return c
        rep = lambda z: m.get(z) if z[0] == 'bv' else None
        keep = True
        for q in ifs:
            tv = truth(T.replace(q, rep))
            if tv is None:
                return c
            keep = keep and tv
        if keep:
            out.append(T.replace(c[2], rep))
    if c[1] == 'dict':
        if not all(o[0] == 'tuple' and len(o[1]) == 2 for o in out):
            return c
        d = {}
        for o in out:
            d[o[1][0]] = o[1][1]
        return ('dict', tuple(d.items()))
    if c[1] == 'set':
        return ('set', tuple(dict.fromkeys(out)))
    return ('list', tuple(out))


def _fuse_comp(c):
    """(f(x) for x in (g(y) for y in it if p(y)) if q(x))  ==  (f(g(y)) for y in it if p(y) if q(g(y)));  a comprehension over nothing is empty"""
    kind, elt, gens = c[1], c[2], c[3]
    if any(g[1][0] == 'call' and g[1][1] == ('ext', 'builtins.iter') and len(g[1][2]) == 1 and not g[1][3] for g in gens):
        # a comprehension over iter(xs) visits xs
        gens = tuple((g[0], g[1][2][0], g[2]) if (g[1][0] == 'call' and g[1][1] == ('ext', 'builtins.iter') and len(g[1][2]) == 1 and not g[1][3]) else g for g in gens)
        return _fuse_comp(('comp', kind, elt, gens))
    if any(g[1] == ('list', ()) for g in gens):
        return ('dict', ()) if kind == 'dict' else ('list', ())
    if len(gens) == 1:
        shape, it, ifs = gens[0]
        # for k, v in {k2: g(k2) for ...}.items()  /  for x in list(<generator>)
        while it[0] == 'call' and it[1] in (('ext', 'LIST'), ('ext', 'TUPLE')) and len(it[2]) == 1 and not it[3] and it[2][0][0] == 'comp' and it[2][0][1] in ('gen', 'list'):
            it = it[2][0]
        # iterating a tuple/list copy of a dict view visits what the view holds, in the same order
        while it[0] == 'call' and it[1] in (('ext', 'LIST'), ('ext', 'TUPLE')) and len(it[2]) == 1 and not it[3] and it[2][0][0] == 'call' and it[2][0][1][0] == 'meth' \
                and it[2][0][1][1] in ('items', 'values', 'keys') and len(it[2][0][2]) == 1:
            it = it[2][0]
        # (v for k, v in D.items()) visits D.values(); (k for k, v in D.items()) visits D.keys()
        if it[0] == 'call' and it[1] == ('meth', 'items') and len(it[2]) == 1 and len(shape) == 2 and all(z[0] == 'bv' for z in shape) and kind != 'dict':
            used = {s_ for t_ in (elt,) + tuple(ifs) for s_ in T.subterms(t_) if s_[0] == 'bv'}
            if shape[0] not in used and shape[1] in used:
                f1 = lambda z: shape[0] if z == shape[1] else None
                return _fuse_comp(('comp', kind, T.replace(elt, f1), (((shape[0],), ('call', ('meth', 'values'), it[2], ()), tuple(T.replace(i, f1) for i in ifs)),)))
        if it[0] == 'call' and it[1] == ('meth', 'items') and len(it[2]) == 1 and it[2][0][0] == 'comp' and it[2][0][1] == 'dict' and len(shape) == 2 \
                and all(z[0] == 'bv' for z in shape) and it[2][0][2][0] == 'tuple' and not any(x[0] == 'comp' for x in T.subterms(elt)):
            inner = it[2][0]
            m_ = {shape[0]: inner[2][1][0], shape[1]: inner[2][1][1]}
            f2 = lambda z: m_.get(z) if z[0] == 'bv' else None
            last = inner[3][-1]
            return _simplify_access(('comp', kind, T.replace(elt, f2), tuple(inner[3][:-1]) + ((last[0], last[1], tuple(last[2]) + tuple(T.replace(i, f2) for i in ifs)),)))
        # {k: f(k, D[k]) for k in D}  visits what  {k: f(k, v) for k, v in D.items()}  visits (one spelling: the pairs)
        src_ = it[2][0] if (it[0] == 'call' and it[1] == ('meth', 'keys') and len(it[2]) == 1) else it
        if len(shape) == 1 and shape[0][0] == 'bv' and src_[0] in ('var', 'attr') and it[0] != 'comp':
            look = ('sub', src_, shape[0])
            nb = ('bv', shape[0][1] + 1)
            parts_ = (elt,) + tuple(ifs)
            if any(s_ == look for t_ in parts_ for s_ in T.subterms(t_)) and not any(s_ == nb for t_ in parts_ for s_ in T.subterms(t_)):
                f3 = lambda z: nb if z == look else None
                return _fuse_comp(('comp', kind, T.replace(elt, f3), (((shape[0], nb), ('call', ('meth', 'items'), (src_,), ()), tuple(T.replace(i, f3) for i in ifs)),)))
        gens = ((shape, it, ifs),)
    if len(gens) == 1 and kind != 'dict':
        shape, it, ifs = gens[0]
        if it[0] == 'comp' and it[1] in ('gen', 'list') and len(shape) == 1 and shape[0][0] == 'bv' \
                and not any(x[0] == 'comp' for x in T.subterms(elt)) and not any(x[0] == 'comp' for i in ifs for x in T.subterms(i)):
            bv, ielt, igens = shape[0], it[2], it[3]
            f = lambda z: ielt if z == bv else None
            elt2 = T.replace(elt, f)
            ifs2 = tuple(T.replace(i, f) for i in ifs)
            last = igens[-1]
            return _simplify_access(('comp', kind, elt2, tuple(igens[:-1]) + ((last[0], last[1], tuple(last[2]) + ifs2),)))
    return ('comp', kind, elt, tuple(gens)) if gens is not c[3] else c


def _simplify_access(t):
    """field of a record literal, component of a tuple literal: read through (needed after substituting a constructed record for a variable)"""
    def f(z):
        if z[0] == 'attr' and z[1][0] == 'new':
            d = dict(z[1][2])
            if z[2] in d:
                return d[z[2]]
        if z[0] == 'sub' and z[1][0] in ('tuple', 'list') and z[2][0] == 'num' and z[2][1].denominator == 1 and -len(z[1][1]) <= int(z[2][1]) < len(z[1][1]):
            return z[1][1][int(z[2][1])]
        if z[0] == 'sub' and z[1][0] == 'new' and z[1][1] in NT_FIELDS and z[2][0] == 'num' and z[2][1].denominator == 1:
            fs = NT_FIELDS[z[1][1]]
            n = int(z[2][1])
            if -len(fs) <= n < len(fs):
                return dict(z[1][2]).get(fs[n])
        return None
    return T.replace(t, f)


def _single_use(v):
    return isinstance(v, tuple) and len(v) > 1 and ((v[0] == 'comp' and v[1] == 'gen') or
                                                    (v[0] == 'call' and v[1] in (('ext', 'builtins.map'), ('ext', 'builtins.filter'), ('ext', 'ZIP'), ('ext', 'builtins.iter'),
                                                                                 ('ext', 'builtins.reversed'), ('ext', 'ENUMERATE'))))


REDUCERS = {'ANY', 'ALL', 'SUM', 'MAX', 'MIN', 'SORTED', 'SET', 'LIST', 'TUPLE', 'LEN', 'MEAN', 'STD', 'DICT'}


def _canon_reducer_args(fv, args):
    """any([...]) == any(...): a list comprehension consumed by a reducer is its generator; [x for x in it] consumed is `it`"""
    if fv[0] != 'ext' or fv[1] not in REDUCERS or not args or args[0][0] != 'comp':
        return args
    c = args[0]
    if c[1] != 'dict':
        c = _fuse_comp(c)
        if c[0] != 'comp':
            return [c] + list(args[1:])
    if c[1] == 'list' and fv[1] != 'LEN':
        c = ('comp', 'gen') + c[2:]
    if c[1] == 'gen' and len(c[3]) == 1 and not c[3][0][2] and len(c[3][0][0]) == 1 and c[2] == c[3][0][0][0]:
        return [c[3][0][1]] + list(args[1:])
    return [c] + list(args[1:])


def _map_nested(z, f):
    if isinstance(z, tuple):
        if z and isinstance(z[0], str) and z[0] in T._HEADS:
            return f(z)
        return tuple(_map_nested(y, f) for y in z)
    return z


def _concat(a, b):
    """string building: 'W-' + x  ==  'W-%s' % x  ==  f'W-{x}'  (one canonical ('fmt', template, args) form)"""
    def parts(t):
        if t[0] == 'str':
            return t[1].replace('%', '%%'), ()
        if t[0] == 'fmt' and t[1][0] == 'str' and t[2][0] == 'tuple':
            return t[1][1], t[2][1]
        return '%s', (t,)
    ta, aa = parts(a)
    tb, ab = parts(b)
    if not aa and not ab:
        return ('str', (ta + tb).replace('%%', '%'))
    return _fold_fmt(('fmt', ('str', ta + tb), ('tuple', tuple(aa) + tuple(ab))))


_LIB_CLASSES = {'datetime.time', 'datetime.date', 'datetime.datetime', 'datetime.timedelta', 'collections.deque', 'collections.defaultdict', 'queue.Queue',
                'functools.partial', 'operator.attrgetter', 'operator.itemgetter', 'operator.methodcaller', 'itertools.count', 'itertools.chain', 'itertools.repeat'}


def _fold_fmt(t):
    """a template filled with string constants only is a string constant ('get_%s' % 'bid' is 'get_bid')"""
    if t[0] == 'fmt' and t[1][0] == 'str' and t[2][0] == 'tuple' and t[2][1] and all(a_[0] == 'str' for a_ in t[2][1]):
        tmpl = t[1][1]
        if tmpl.replace('%%', '').count('%s') == len(t[2][1]) and tmpl.replace('%%', '').count('%') == len(t[2][1]):
            try:
                return ('str', tmpl % tuple(a_[1] for a_ in t[2][1]))
            except Exception:
                return t
    return t


def _unget(b):
    """d.get(k) used as a receiver denotes the element d[k]"""
    if b is not None and b[0] == 'call' and b[1] == ('ext', 'GET') and len(b[2]) == 2:
        return ('sub', b[2][0], b[2][1])
    return b


LOCAL_CONTAINER_OPS = ('APPENDED', 'UPDATED', 'EXTENDED', 'SETITEM')


def _evident_sequence(v):
    """v is certainly a list-like collection (not a number): list(...), sorted(...), .keys()/.values()/.items(), a list comprehension"""
    if v[0] == 'call' and v[1][0] == 'ext' and v[1][1] in ('LIST', 'SORTED', 'CONCAT', 'EXTENDED', 'APPENDED'):
        return True
    if v[0] == 'call' and v[1][0] == 'meth' and v[1][1] in ('keys', 'values', 'items') and len(v[2]) == 1:
        return True
    if v[0] == 'comp' and v[1] == 'list':
        return True
    return False


def _is_local_container(v):
    if v[0] in ('dict', 'list', 'set', 'accum', 'lc', 'comp'):
        return True
    if v[0] == 'call' and v[1][0] == 'ext' and (v[1][1] in LOCAL_CONTAINER_OPS or v[1][1].startswith('MUTATED_') or v[1][1] in ('DICT', 'LIST', 'SET', 'collections.OrderedDict', 'collections.deque')):
        return True
    if v[0] == 'call' and v[1] == ('ext', 'REPEAT') and len(v[2]) == 2 and v[2][0][0] in ('list', 'tuple'):
        return True         # [None] * n: a fresh list
    return False


def _rooted(v, root):
    """v is `root` extended by container operations only"""
    while True:
        if v == root:
            return True
        if v[0] == 'call' and v[1][0] == 'ext' and (v[1][1] in LOCAL_CONTAINER_OPS or v[1][1].startswith('MUTATED_')):
            v = v[2][0]
            continue
        if v[0] == 'accum':
            v = v[2]
            continue
        return False


def _mentions(t, obj):
    return any(s == obj for s in T.subterms(t)) if isinstance(t, tuple) else False


def _is_queue(M, fn, recv_node, env, recv=None):
    ts = M.expr_types(fn, recv_node, env)
    if any('queue.' in t for t in ts):
        return True
    # the symbolic value knows more than the local types when the queue was handed over as an argument or aliased in a local:
    # an element of a field that some class fills with queue objects
    if recv is not None and recv[0] == 'sub' and recv[1][0] == 'attr':
        fld = recv[1][2]
        return any('queue.' in t for c in M.classes.values() for t in M.elem_of(c, fld))
    return False


def _as_load(t):
    class L(ast.NodeTransformer):
        def generic_visit(self, n):
            n = super().generic_visit(n)
            if hasattr(n, 'ctx'):
                n.ctx = ast.Load()
            return n
    import copy
    return L().visit(copy.deepcopy(t))


def _first_pos(target, name):
    for i, n in enumerate(ast.walk(target)):
        if isinstance(n, ast.Name) and n.id == name:
            return i
    return 0


def _target_shape(t, m):
    if isinstance(t, ast.Name):
        return (m[t.id],)
    if isinstance(t, (ast.Tuple, ast.List)):
        out = ()
        for e in t.elts:
            out += _target_shape(e, m)
        return out
    return ()


# ---------------------------------------------------------------------- oracle helper (decision tables)
class Valuation:
    """Decides canonical tests from a finite description (DESIGN A6).

    order: {(a, b): '<'|'='|'>'} over fmt()-rendered operands;   facts: {rendered test: bool}.
    """

    def __init__(self, order=None, facts=None, isnone=None, member=None, nums=None, strs=None):
        self.order = dict(order or {})
        self.facts = dict(facts or {})
        self.isnone = dict(isnone or {})
        self.member = dict(member or {})
        self.nums = dict(nums or {})
        self.strs = dict(strs or {})
        self.unknown = []

    def value(self, t):
        """concrete number of a term under `nums`, or None"""
        from fractions import Fraction
        if t[0] == 'num':
            return t[1]
        s = fmt(t)
        if s in self.nums:
            return Fraction(self.nums[s])
        if t[0] == 'rat':
            try:
                r = t[1].subst(lambda a: (T.R(T.p_const(self.value(a))) if self.value(a) is not None else None))
            except ZeroDivisionError:
                return None
            if r.is_const():
                return r.const()
        if t[0] == 'call' and t[1][0] == 'ext' and len(t[2]) >= 1:
            import math
            name = t[1][1]
            vs = [self.value(a) for a in t[2]]
            if None not in vs and not t[3]:
                x = vs[0]
                if name == 'INT' and len(vs) == 1:
                    return Fraction(int(x))             # truncation toward zero
                if name == 'FLOOR' and len(vs) == 1:
                    return Fraction(math.floor(x))
                if name == 'CEIL' and len(vs) == 1:
                    return Fraction(math.ceil(x))
                if name == 'TRUNC' and len(vs) == 1:
                    return Fraction(math.trunc(x))
                if name == 'ROUND' and len(vs) == 1:
                    return Fraction(round(x))
                if name == 'ABS' and len(vs) == 1:
                    return abs(x)
                if name == 'FLOORDIV' and len(vs) == 2 and vs[1] != 0:
                    return Fraction(math.floor(vs[0] / vs[1]))
                if name == 'MAX':
                    return max(vs)
                if name == 'MIN':
                    return min(vs)
        if t[0] == 'call' and t[1][0] == 'meth' and t[1][1] in ('date', 'normalize', 'to_pydatetime', 'floor', 'toordinal') and len(t[2]) >= 1:
            # instants are numbers of days: the calendar date of an instant is its whole part
            x = self.value(t[2][0])
            if x is not None:
                import math
                if t[1][1] == 'to_pydatetime':
                    return x
                if t[1][1] == 'floor' and not (len(t[2]) == 2 and t[2][1] in (('str', 'D'), ('str', '1D'), ('str', 'd'))):
                    return None
                return Fraction(math.floor(x))
        if t[0] == 'call' and t[1] == ('ext', 'datetime.time') and not t[3] and 1 <= len(t[2]) <= 4 and all(a[0] == 'num' for a in t[2]):
            # a literal time of day, in minutes after midnight (the unit the hour tables give `dt.time()` in)
            a = [a_[1] for a_ in t[2]] + [Fraction(0)] * 4
            return a[0] * 60 + a[1] + a[2] / 60 + a[3] / 60000000
        if t[0] == 'call' and t[1] == ('ext', 'pandas.Timedelta') and not t[2]:
            # a duration in days
            kws = dict(t[3])
            unit = {'days': Fraction(1), 'hours': Fraction(1, 24), 'minutes': Fraction(1, 1440), 'seconds': Fraction(1, 86400), 'weeks': Fraction(7)}
            if kws and all(k in unit and self.value(v) is not None for k, v in kws.items()):
                return sum(unit[k] * self.value(v) for k, v in kws.items())
        return None

    def evalbool(self, t):
        """truth value of a boolean term under this valuation, or None"""
        tv = truth(t)
        if tv is not None:
            return tv
        h = t[0]
        if h == 'not':
            x = self.evalbool(t[1])
            return None if x is None else not x
        if h in ('and', 'or'):
            vs = [self.evalbool(z) for z in t[1]]
            if h == 'and':
                if any(v is False for v in vs):
                    return False
                return None if None in vs else True
            if any(v is True for v in vs):
                return True
            return None if None in vs else False
        if h == 'ite':
            c = self.evalbool(t[1])
            return None if c is None else self.evalbool(t[2] if c else t[3])
        if h == 'call' and t[1] in (('ext', 'ANY'), ('ext', 'ALL')) and len(t[2]) == 1 and t[2][0][0] in ('list', 'tuple') and not t[3]:
            # any([...]) / all([...]) over tests written out one by one
            vs = [self.evalbool(z) for z in t[2][0][1]]
            if t[1][1] == 'ANY':
                return True if any(v is True for v in vs) else (None if None in vs else False)
            return False if any(v is False for v in vs) else (None if None in vs else True)
        return self(t)

    def rel(self, a, b):
        if (a, b) in self.order:
            return self.order[(a, b)]
        if (b, a) in self.order:
            return {'<': '>', '=': '=', '>': '<'}[self.order[(b, a)]]
        return None

    def __call__(self, t, st=None):
        s = fmt(t)
        if s in self.facts:
            return self.facts[s]
        if t[0] == 'cmp' and t[1] == '==' and self.strs:
            for x, y in ((t[2], t[3]), (t[3], t[2])):
                if y[0] == 'str' and fmt(x) in self.strs:
                    return self.strs[fmt(x)] == y[1]
        if t[0] == 'cmp' and t[1] == 'in' and self.strs and fmt(t[2]) in self.strs:
            if t[3][0] == 'dict' and all(k is not None and k[0] in ('str', 'num', 'const') for k, _ in t[3][1]):
                return any(k == ('str', self.strs[fmt(t[2])]) for k, _ in t[3][1])
            try:
                return self.strs[fmt(t[2])] in T.const_eval(t[3])
            except Exception:
                pass
        if t[0] == 'cmp' and t[1] == 'in' and self.nums:
            # x in range(a, b) / frozenset(range(n)) / set(range(n)): a whole number of that span
            r_ = t[3]
            while r_[0] == 'call' and r_[1][0] == 'ext' and r_[1][1] in ('FROZENSET', 'SET', 'LIST', 'TUPLE', 'builtins.frozenset') and len(r_[2]) == 1 and not r_[3]:
                r_ = r_[2][0]
            if r_[0] == 'call' and r_[1][0] == 'ext' and r_[1][1] in ('RANGE', 'builtins.range') and 1 <= len(r_[2]) <= 2 and all(z[0] == 'num' for z in r_[2]) and not r_[3]:
                x = self.value(t[2])
                if x is not None:
                    lo_, hi_ = (0, r_[2][0][1]) if len(r_[2]) == 1 else (r_[2][0][1], r_[2][1][1])
                    return x.denominator == 1 and lo_ <= x < hi_
        if t[0] == 'cmp' and t[1] == 'in' and self.nums and t[3][0] in ('tuple', 'list', 'set') and all(z[0] == 'num' for z in t[3][1]):
            x = self.value(t[2])
            if x is not None:
                return any(x == z[1] for z in t[3][1])
        if t[0] == 'cmp' and t[1] == '==' and t[2][0] in ('cmp', 'not', 'and', 'or') and t[3][0] in ('cmp', 'not', 'and', 'or'):
            # (a > 0) == (b > 0): two truth values compared
            x, y = self.evalbool(t[2]), self.evalbool(t[3])
            if x is not None and y is not None:
                return x == y
        if t[0] == 'cmp' and self.nums and t[1] in ('<', '<=', '=='):
            x, y = self.value(t[2]), self.value(t[3])
            if x is not None and y is not None:
                return {'<': x < y, '<=': x <= y, '==': x == y}[t[1]]
        if t[0] == 'cmp':
            op, a, b = t[1], fmt(t[2]), fmt(t[3])
            if op in ('<', '<=', '=='):
                r = self.rel(a, b)
                if r is not None:
                    return {'<': r == '<', '<=': r in '<=', '==': r == '='}[op]
            if op == 'is' and t[3] == NONE or op == 'is' and t[2] == NONE:
                o = a if t[3] == NONE else b
                if o in self.isnone:
                    return self.isnone[o]
                # an operand the valuation orders against other quantities is a number, not None
                if any(o in k for k in self.order) or o in self.nums:
                    return False
            if op == '==' and (t[3] == NONE or t[2] == NONE):
                o = a if t[3] == NONE else b
                if o in self.isnone:
                    return self.isnone[o]
            if op == 'in':
                if (a, b) in self.member:
                    return self.member[(a, b)]
        self.unknown.append(s)
        return None


def eval_property(sx, fn_context, clsname, prop, self_term, state):
    """Evaluate `<self_term>.<prop>` (a @property or method-less field of class clsname) in `state` -> list of (state, term)."""
    c = sx.M.cls(clsname)
    m = c.lookup(prop) if c else None
    if m is None:
        k = ('attr', self_term, prop)
        return [(state, state.heap.get(k, k))]
    sx.frames.append(fn_context)
    try:
        fake = ast.Attribute(value=ast.Name(id='self', ctx=ast.Load()), attr=prop, ctx=ast.Load())
        fake.lineno = m.node.lineno
        return sx.inline(m, {}, self_term, state, fake)
    finally:
        sx.frames.pop()
