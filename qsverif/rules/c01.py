"""C01 - cash conservation (DESIGN section 4, C01: S1..S6)."""
import ast

from .. import terms as T
from ..lib import (writers_of_attr, calls_named, summarise, heap_writes, delta, same, under, V, A, ROUND2, normal, raising,
                   cond_str, loc_attr, reflection_sites, no_inline, inline_only, find_terms)
from ..symex import Undecided, default_policy
from ..terms import fmt, ZERO, num

GETTERS_CASH_BALANCES = ('get_account_cash_balance',)     # hands out the dict itself when currency is None


def _history_elsewhere(ctx):
    """Portfolio.history is a property that is not the plain projection of one stored list (it is rebuilt from columns, or read off a ledger object whose own methods
    append to it): the rule, which counts appends to `history`, does not see where entries are recorded"""
    c = ctx.M.cls('Portfolio')
    m = c.lookup('history') if c is not None else None
    if m is None or not m.is_property:
        return False
    proj = [ch for ch, (cn_, pn_) in ctx.M.projections().items() if pn_ == 'history' and cn_ == 'Portfolio']
    if not proj:
        return True
    # a projection into a helper object: followed only when nothing but Portfolio's own code appends to it
    return any(len(ch) > 1 for ch in proj)


def port_policy(caller, callee, depth):
    """inline private helpers and properties, keep public repo calls as events"""
    return default_policy(caller, callee, depth)


def check(ctx):
    from ..lib import discarded_results
    ctx.sub(discarded_results, 'C01.S6', ('qstrader/broker/',), 'balances and aggregates are computed by the steps the code actually applies to each item')
    M = ctx.M
    ctx.sub(s1_ownership)
    ctx.sub(s2_deltas)
    ctx.sub(s3_transfers)
    ctx.sub(s4_one_debit_per_fill)
    ctx.sub(s5_history)
    ctx.sub(s6_aggregates)
    ctx.sub(s3b_refused_movements)
    from . import c04
    ctx.sub(c04.s2_s3_update)          # a fill is debited to the portfolio whose queue the order came from
    # closed-world premise of the name-based ownership scans: attribute writes are spelled with their names.  setattr with a name drawn from constants of the
    # same module is still closed (the candidate names are known); anything wider leaves the premise - and with it the scans - open, which is reported as such
    import ast as _ast
    refl = [r for r in reflection_sites(M) if r[2] in ('setattr', 'delattr', 'exec', 'eval', '__dict__', '__setattr__', 'vars', 'globals')]
    guarded = {'cash', 'cash_balances', 'history', 'portfolios', 'open_orders', 'positions', 'pos_handler', 'buy_quantity', 'sell_quantity'}
    open_sites = []
    for fn_, n_, kind in refl:
        if kind in ('setattr', 'delattr') and isinstance(n_, _ast.Call) and len(n_.args) >= 2:
            a1 = n_.args[1]
            if isinstance(a1, _ast.Constant) and isinstance(a1.value, str):
                names = {a1.value}
            else:
                names = {x_.value for x_ in _ast.walk(M.mods[fn_.mod][1]) if isinstance(x_, _ast.Constant) and isinstance(x_.value, str) and x_.value.isidentifier()} \
                    if isinstance(a1, _ast.Name) and a1.id not in fn_.params else None
            if names is not None and not (names & {'cash', 'cash_balances', 'history', 'portfolios', 'open_orders'}):
                continue
        open_sites.append((fn_, n_, kind))
    if open_sites:
        ctx.undecided('C01.closed-world', 'attribute writes are spelled with their names (no open-ended reflection)', open_sites[0][0].site(open_sites[0][1]),
                      '%s in %s: the name-based ownership scans cannot see what it writes' % (open_sites[0][2], open_sites[0][0].qn))
    else:
        ctx.holds('C01.closed-world', 'attribute writes are spelled with their names (%d reflective writes, all over constant names of their own module)' % len(refl), None)


# ------------------------------------------------------------------------------------------------ S1
def s1_ownership(ctx):
    M = ctx.M
    ws = writers_of_attr(M, 'cash')
    ctx.floor('C01.S1', 'writers of Portfolio.cash', len(ws), 1)
    for w in ws:
        ok = w.fn.cls is not None and w.fn.cls.name in M.owner_family('Portfolio')
        ctx.require(ok, 'C01.S1', 'writer of .cash in %s' % w.fn.qn, w.where,
                    'cash balance written outside class Portfolio ("nothing else ever changes a cash balance")',
                    key='C01.S1|cash|%s' % w.fn.qn)
    ws = writers_of_attr(M, 'cash_balances', getters=GETTERS_CASH_BALANCES)
    ctx.floor('C01.S1', 'writers of SimulatedBroker.cash_balances', len(ws), 1)
    for w in ws:
        ok = w.fn.cls is not None and w.fn.cls.name in M.owner_family('SimulatedBroker')
        ctx.require(ok, 'C01.S1', 'writer of .cash_balances in %s' % w.fn.qn, w.where,
                    'master cash written outside class SimulatedBroker', key='C01.S1|cash_balances|%s' % w.fn.qn)
    # public entry points that (transitively, through private helpers) change a balance: exactly the tabled movements
    expected = {'Portfolio': {'__init__': 'cash', 'subscribe_funds': 'cash', 'withdraw_funds': 'cash', 'transact_asset': 'cash'},
                'SimulatedBroker': {'__init__': 'cash_balances', 'subscribe_funds_to_account': 'cash_balances',
                                    'withdraw_funds_from_account': 'cash_balances', 'subscribe_funds_to_portfolio': 'cash_balances',
                                    'withdraw_funds_from_portfolio': 'cash_balances'}}
    for cname, table in expected.items():
        c = ctx.cls(cname)
        attr = 'cash' if cname == 'Portfolio' else 'cash_balances'
        for name, m in sorted(c.methods.items()):
            if name.startswith('_') and name != '__init__':
                continue
            if '@' in name:
                continue        # a property setter is how an assignment `obj.cash = v` is carried out: the assignments are the writers (ownership rule above)
            try:
                ps = summarise(ctx, m, policy=port_policy)
            except Undecided as e:
                if name in table:
                    raise
                continue
            writes = any(heap_writes(p, attr) for p in ps)
            if name in table:
                ctx.require(writes, 'C01.S1', '%s.%s is a tabled cash movement' % (cname, name), m.site(),
                            'the method no longer writes %s on any path' % attr)
            else:
                ctx.require(not writes, 'C01.S1', '%s.%s does not move cash' % (cname, name), m.site(),
                            'a public method outside the tabled movements writes %s' % attr, key='C01.S1|entry|%s.%s' % (cname, name))


# ------------------------------------------------------------------------------------------------ S2
def _one_cash_write(ctx, rule, qn, p, attr, expected_delta, what):
    ws = heap_writes(p, attr)
    where = ws[0].site if ws else ctx.fn(qn).site()
    if not ctx.require(len(ws) == 1, rule, '%s: %s written exactly once on path [%s]' % (qn, attr, cond_str(p)), where,
                       '%d writes: %s' % (len(ws), [str(w) for w in ws]), key='%s|%s|count' % (rule, qn)):
        return None
    w = ws[0]
    d = delta(w)
    ok = d is not None and same(p, d, expected_delta)
    if not ok and d is not None:
        from ..lib import unread_atoms
        ur = unread_atoms(ctx.M, d, expected_delta, fn=ctx.fn(qn))
        if ur:
            ctx.undecided(rule, '%s: %s changes by %s on path [%s]' % (qn, attr, what, cond_str(p)), w.site,
                          'delta is %s: %s is a stored or computed figure this rule does not relate to the expected operands' % (fmt(d)[:120], fmt(ur[0])[:60]))
            return w
    ctx.require(ok, rule, '%s: %s changes by %s on path [%s]' % (qn, attr, what, cond_str(p)), w.site,
                'delta is %s, expected %s' % (fmt(d) if d is not None else 'not additive', fmt(expected_delta)), key='%s|%s|delta' % (rule, qn))
    return w


def s2_deltas(ctx):
    amount = V('amount')
    txn = V('txn')
    cost = T.t_add(T.t_mul(A(txn, 'price'), A(txn, 'quantity')), A(txn, 'commission'))
    table = [
        ('Portfolio.subscribe_funds', 'cash', amount, '+amount'),
        ('Portfolio.withdraw_funds', 'cash', T.t_neg(amount), '-amount'),
        ('Portfolio.transact_asset', 'cash', T.t_neg(cost), '-(price*quantity + commission)'),
        ('SimulatedBroker.subscribe_funds_to_account', 'cash_balances', amount, '+amount'),
        ('SimulatedBroker.withdraw_funds_from_account', 'cash_balances', T.t_neg(amount), '-amount'),
        ('SimulatedBroker.subscribe_funds_to_portfolio', 'cash_balances', T.t_neg(amount), '-amount'),
        ('SimulatedBroker.withdraw_funds_from_portfolio', 'cash_balances', amount, '+amount'),
    ]
    for qn, attr, exp, what in table:
        ps = summarise(ctx, qn, policy=port_policy)
        nps = normal(ps)
        ctx.require(len(nps) >= 1, 'C01.S2', '%s has a normal path' % qn, ctx.fn(qn).site())
        for p in nps:
            w = _one_cash_write(ctx, 'C01.S2', qn, p, attr, exp, what)
            if w is not None and attr == 'cash_balances':
                base_key = w.loc[0] == 'sub' and w.loc[2] == A('self', 'base_currency')
                ctx.require(base_key, 'C01.S2', '%s: the balance written is the base-currency balance' % qn, w.site, fmt(w.loc))
            if w is not None:
                ctx.sample({'rule': 'C01.S2', 'function': qn, 'path': cond_str(p), 'location': fmt(w.loc), 'delta': fmt(delta(w))})
        for p in raising(ps):
            ws = heap_writes(p, attr)
            ctx.require(not ws, 'C01.S2', '%s: no balance write on refused path [%s]' % (qn, cond_str(p)), ws[0].site if ws else None,
                        key='C01.S2|%s|write-on-raise' % qn)
    # constructor: cash starts as the starting cash (broker: the initial funds on the base currency, 0 elsewhere)
    ps = summarise(ctx, 'Portfolio._initialise_portfolio_with_cash', policy=port_policy)
    for p in normal(ps):
        ws = heap_writes(p, 'cash')
        ok = len(ws) == 1 and T.teq(_uncopy(ws[0].value), A('self', 'starting_cash'))
        ctx.require(ok, 'C01.S2', 'Portfolio opens with cash = starting_cash on path [%s]' % cond_str(p), ws[0].site if ws else None,
                    [fmt(w.value) for w in ws])
    calls = calls_named(ctx.M, '_initialise_portfolio_with_cash')
    ctx.require(all(f.qn == 'Portfolio.__init__' for f, _ in calls) and len(calls) == 1, 'C01.S2',
                '_initialise_portfolio_with_cash is called once, from Portfolio.__init__', calls[0][0].site(calls[0][1]) if calls else None)


def _uncopy(t):
    while t[0] == 'call' and t[1] in (('ext', 'copy.copy'), ('ext', 'copy.deepcopy'), ('ext', 'COPY'), ('ext', 'FLOAT')) and len(t[2]) == 1:
        t = t[2][0]
    return t


# ------------------------------------------------------------------------------------------------ S3
def s3_transfers(ctx):
    amount = V('amount')
    for qn, callee, sign in (('SimulatedBroker.subscribe_funds_to_portfolio', 'Portfolio.subscribe_funds', -1),
                             ('SimulatedBroker.withdraw_funds_from_portfolio', 'Portfolio.withdraw_funds', +1)):
        ps = summarise(ctx, qn, policy=port_policy)
        for p in normal(ps):
            cs = [e for e in p.flat_events() if e.kind == 'call' and callee in e.callee]
            other = [e for e in p.flat_events() if e.kind == 'call' and any(c.startswith('Portfolio.') and c != callee and
                                                                            c.split('.')[1] in ('subscribe_funds', 'withdraw_funds', 'transact_asset') for c in e.callee)]
            where = cs[0].site if cs else ctx.fn(qn).site()
            ok = len(cs) == 1 and not other
            ctx.require(ok, 'C01.S3', '%s: exactly one %s per normal path [%s]' % (qn, callee, cond_str(p)), where,
                        '%d calls, %d other portfolio cash calls' % (len(cs), len(other)), key='C01.S3|%s|pair-count' % qn)
            if len(cs) == 1:
                a = cs[0].args.get('amount')
                ctx.require(a is not None and same(p, a, amount), 'C01.S3', '%s passes its own amount, unmodified, to %s' % (qn, callee), cs[0].site,
                            'argument is %s' % (fmt(a) if a is not None else None), key='C01.S3|%s|amount' % qn)
                recv = cs[0].d.get('recv')
                ok = recv is not None and recv[0] == 'sub' and recv[1] == A('self', 'portfolios') and recv[2] == V('portfolio_id')
                ctx.require(ok, 'C01.S3', '%s credits/debits the portfolio named by its portfolio_id argument' % qn, cs[0].site, fmt(recv) if recv else None)
                ws = heap_writes(p, 'cash_balances')
                if len(ws) == 1:
                    d = delta(ws[0])
                    tot = T.t_add(d, T.t_mul(num(-sign), a)) if d is not None and a is not None else None
                    ctx.require(tot is not None and T.teq(under(p, tot), ZERO), 'C01.S3', '%s is zero-sum between master and portfolio' % qn,
                                ws[0].site, 'master delta %s, portfolio amount %s' % (fmt(d) if d is not None else None, fmt(a) if a is not None else None),
                                key='C01.S3|%s|zero-sum' % qn)
                    ctx.sample({'rule': 'C01.S3', 'function': qn, 'portfolio_call': callee, 'amount': fmt(a), 'master_delta': fmt(d)})


# ------------------------------------------------------------------------------------------------ S4
def s4_one_debit_per_fill(ctx):
    M = ctx.M
    calls = calls_named(M, 'transact_asset')
    ctx.floor('C01.S4', 'call sites of transact_asset', len(calls), 1)
    from ..lib import private_closure
    fill_path = private_closure(M, {'SimulatedBroker.update', 'SimulatedBroker._execute_order'})      # the broker's own private steps of filling an order
    for f, n in calls:
        ctx.require(f.qn in fill_path and f.qn != 'SimulatedBroker.update' or f.qn == 'SimulatedBroker._execute_order', 'C01.S4', 'transact_asset called from %s' % f.qn, f.site(n),
                    'a fill is debited only through the order-execution steps of SimulatedBroker', key='C01.S4|caller|%s' % f.qn)
    ps = summarise(ctx, 'SimulatedBroker._execute_order', policy=port_policy)
    for p in normal(ps):
        cs = [e for e in p.flat_events() if e.kind == 'call' and 'Portfolio.transact_asset' in e.callee]
        where = cs[0].site if cs else ctx.fn('SimulatedBroker._execute_order').site()
        if not ctx.require(len(cs) == 1, 'C01.S4', '_execute_order debits exactly once on path [%s]' % cond_str(p), where, __import__('qsverif.lib', fromlist=['read_marker']).read_marker(ctx, p) + '%d calls' % len(cs),
                           key='C01.S4|count'):
            continue
        txn = cs[0].args.get('txn')
        ok = txn is not None and txn[0] == 'new' and txn[1] == 'Transaction'
        if not ctx.require(ok if ok else None, 'C01.S4', 'the debited object is a freshly built Transaction', cs[0].site, fmt(txn) if txn else None):
            continue
        f = dict(txn[2])
        fee = [e for e in p.flat_events() if e.kind == 'call' and any(c.endswith('.calc_total_cost') or c == 'meth:calc_total_cost' for c in e.callee)]
        if f.get('commission') is None or f.get('quantity') is None:
            ctx.undecided('C01.S4', 'the commission debited is the unmodified result of the one fee-model call [%s]' % cond_str(p), cs[0].site,
                          'the Transaction record does not show its commission/quantity: %s' % fmt(txn)[:120])
            continue
        ctx.require(len(fee) == 1 and T.teq(f.get('commission'), fee[0].result), 'C01.S4',
                    'the commission debited is the unmodified result of the one fee-model call [%s]' % cond_str(p), cs[0].site,
                    'commission=%s' % fmt(f.get('commission', ZERO)), key='C01.S4|commission')
        ctx.require(T.teq(f.get('quantity'), A('order', 'quantity')), 'C01.S4', 'the quantity debited is the order quantity [%s]' % cond_str(p),
                    cs[0].site, 'quantity=%s' % fmt(f.get('quantity', ZERO)), key='C01.S4|quantity')
        recv = cs[0].d.get('recv')
        ctx.require(recv is not None and recv == ('sub', A('self', 'portfolios'), V('portfolio_id')), 'C01.S4',
                    'the fill is debited to the portfolio the order was queued for', cs[0].site, fmt(recv) if recv else None)
    # Transaction carries what it is given: fields are the constructor arguments
    ps = summarise(ctx, 'Transaction.__init__', policy=port_policy)
    for p in normal(ps):
        for fld in ('quantity', 'price', 'commission', 'dt', 'asset'):
            ws = [w for w in heap_writes(p, fld)]
            ctx.require(len(ws) == 1 and ws[0].value == V(fld), 'C01.S4', 'Transaction.%s is the constructor argument' % fld,
                        ws[0].site if ws else None, [fmt(w.value) for w in ws])


# ------------------------------------------------------------------------------------------------ S5
def _event_fields(ctx, p, qn):
    """the PortfolioEvent appended to self.history on this path -> list of field dicts"""
    out = []
    for e in p.flat_events():
        if e.kind == 'write' and e.how.startswith('mut:') and loc_attr(e.loc) == 'history':
            if e.how != 'mut:append':
                ctx.violation('C01.S5', '%s mutates history by %s' % (qn, e.how), e.site, 'history is append-only', key='C01.S5|%s|%s' % (qn, e.how))
                continue
            arg = e.value[2][1] if e.value and e.value[0] == 'call' and len(e.value[2]) > 1 else None
            out.append((e, arg))
    return out


def s5_history(ctx):
    M = ctx.M
    # (self.history of a class outside Portfolio's family - a price history kept by a signal buffer - is another field that happens to share the name)
    ws = writers_of_attr(M, 'history', owner='Portfolio')
    ctx.floor('C01.S5', 'writers of Portfolio.history', len(ws), 1)
    for w in ws:
        how = w.how
        ok = w.fn.cls is not None and w.fn.cls.name in M.owner_family('Portfolio') and (how.startswith('mut:append') or (how.startswith('assign:field') and w.fn.name == '__init__'))
        ctx.require(ok, 'C01.S5', 'history writer %s in %s' % (how, w.fn.qn), w.where, 'history is written only by append inside Portfolio (and bound once in __init__)',
                    key='C01.S5|writer|%s|%s' % (w.fn.qn, how.split(':')[0] + ':' + how.split(':')[1]))
    amount, txn = V('amount'), V('txn')
    cost = T.t_add(T.t_mul(A(txn, 'price'), A(txn, 'quantity')), A(txn, 'commission'))
    cash0 = A('self', 'cash')
    for qn, kind in (('Portfolio.subscribe_funds', 'sub'), ('Portfolio.withdraw_funds', 'wd'), ('Portfolio.transact_asset', 'txn')):
        ps = summarise(ctx, qn, policy=port_policy)
        for p in ps:
            evs = _event_fields(ctx, p, qn)
            cw = heap_writes(p, 'cash')
            if p.outcome == 'raise':
                ctx.require(not evs, 'C01.S5', '%s: no history entry on refused path [%s]' % (qn, cond_str(p)), evs[0][0].site if evs else None,
                            key='C01.S5|%s|event-on-raise' % qn)
                continue
            where = evs[0][0].site if evs else ctx.fn(qn).site()
            if len(evs) != (1 if cw else 0) and _history_elsewhere(ctx):
                ctx.undecided('C01.S5', '%s: one history entry per cash movement on path [%s]' % (qn, cond_str(p)), where,
                              '%d entries seen for %d cash writes; Portfolio.history is no longer a list kept in a field of that name (or a plain projection of one)' % (len(evs), len(cw)))
                continue
            if not ctx.require(len(evs) == (1 if cw else 0), 'C01.S5', '%s: one history entry per cash movement on path [%s]' % (qn, cond_str(p)), where,
                               __import__('qsverif.lib', fromlist=['read_marker']).read_marker(ctx, p) + '%d entries for %d cash writes' % (len(evs), len(cw)), key='C01.S5|%s|pairing' % qn):
                continue
            if not evs:
                continue
            e, ev = evs[0]
            if not (ev is not None and ev[0] == 'new' and ev[1] == 'PortfolioEvent'):
                ctx.undecided('C01.S5', '%s appends a PortfolioEvent' % qn, e.site, fmt(ev) if ev else None)
                continue
            f = dict(ev[2])
            if kind == 'sub':
                exp = {'credit': [ROUND2(amount)], 'debit': [ZERO], 'balance': [ROUND2(T.t_add(cash0, amount))]}
            elif kind == 'wd':
                exp = {'debit': [ROUND2(amount)], 'credit': [ZERO], 'balance': [ROUND2(T.t_sub(cash0, amount))]}
            else:
                longside = None
                for c, v, _ in p.conds:
                    s = fmt(c)
                    if s in ('txn.direction <= 0',):
                        longside = not v
                    elif s in ('0 < txn.direction',):
                        longside = v
                    elif s in ('txn.quantity <= 0',):
                        longside = not v
                    elif s in ('0 < txn.quantity',):
                        longside = v
                bal = [ROUND2(T.t_sub(cash0, cost))]
                if longside is None:
                    ctx.undecided('C01.S5', 'transact_asset: side of the entry decided by the sign of the fill', e.site, cond_str(p))
                    continue
                if longside:
                    exp = {'debit': [ROUND2(cost)], 'credit': [ZERO], 'balance': bal}
                else:
                    exp = {'debit': [ZERO], 'credit': [T.t_neg(ROUND2(cost)), ROUND2(T.t_neg(cost))], 'balance': bal}
            for fld, alts in exp.items():
                got = f.get(fld)
                ok = got is not None and any(same(p, got, a) for a in alts)
                if not ok and got is not None:
                    from ..lib import unread_atoms
                    ur = unread_atoms(ctx.M, got, list(alts), fn=ctx.fn(qn))
                    if ur:
                        ctx.undecided('C01.S5', '%s: history %s = %s on path [%s]' % (qn, fld, fmt(alts[0]), cond_str(p)), e.site,
                                      'recorded %s: %s is not related by this rule to the expected operands' % (fmt(got)[:100], fmt(ur[0])[:60]))
                        continue
                ctx.require(ok, 'C01.S5', '%s: history %s = %s on path [%s]' % (qn, fld, fmt(alts[0]), cond_str(p)), e.site,
                            'recorded %s' % (fmt(got) if got is not None else None), key='C01.S5|%s|%s' % (qn, fld))
            ctx.sample({'rule': 'C01.S5', 'function': qn, 'path': cond_str(p), 'event': {k: fmt(v) for k, v in f.items() if k in ('debit', 'credit', 'balance', 'type')}})
    # constructor path: an opening entry iff starting_cash > 0, amount = balance = starting_cash
    ps = summarise(ctx, 'Portfolio._initialise_portfolio_with_cash', policy=port_policy)
    sc = A('self', 'starting_cash')
    for p in normal(ps):
        evs = _event_fields(ctx, p, 'Portfolio._initialise_portfolio_with_cash')
        pos = None
        for c, v, _ in p.conds:
            if fmt(c) == 'self.starting_cash <= 0':
                pos = not v
            elif fmt(c) == '0 < self.starting_cash':
                pos = v
        if pos is None:
            ctx.undecided('C01.S5', 'opening entry guarded by starting_cash > 0', ctx.fn('Portfolio._initialise_portfolio_with_cash').site(), cond_str(p))
            continue
        from ..lib import read_marker
        if len(evs) != (1 if pos else 0) and (not read_marker(ctx, p) or _history_elsewhere(ctx)):
            # entries are recorded through something this rule does not follow (a ledger object's own method, columns behind a property)
            ctx.undecided('C01.S5', 'opening history entry iff starting_cash > 0 [%s]' % cond_str(p), ctx.fn('Portfolio._initialise_portfolio_with_cash').site(),
                          '%d entries seen; the history is kept through calls or storage the rule does not read' % len(evs))
            continue
        ctx.require(len(evs) == (1 if pos else 0), 'C01.S5', 'opening history entry iff starting_cash > 0 [%s]' % cond_str(p),
                    evs[0][0].site if evs else None, key='C01.S5|init|pairing')
        if pos and evs and evs[0][1] is not None and evs[0][1][0] == 'new':
            f = dict(evs[0][1][2])
            ctx.require(same(p, f.get('credit', ZERO), ROUND2(sc)) and same(p, f.get('balance', ZERO), ROUND2(sc)) and f.get('debit') == ZERO,
                        'C01.S5', 'opening entry records credit = balance = round(starting_cash, 2)', evs[0][0].site,
                        {k: fmt(v) for k, v in f.items()}, key='C01.S5|init|fields')


# ------------------------------------------------------------------------------------------------ S6
def s6_aggregates(ctx):
    M = ctx.M
    M.call_graph()
    builtin_methods = set(dir(str)) | set(dir(dict)) | set(dir(list)) | set(dir(float)) | set(dir(tuple)) | set(dir(set))
    for fn, n, how in M._unresolved:
        if isinstance(n.func, ast.Attribute) and n.func.attr in builtin_methods and how.startswith('unresolved-attr'):
            # a method of a built-in type (txn.asset.upper()): the receiver is a string / dict / list, whatever class its NAME made the typing guess
            continue
        if fn.cls is not None and fn.cls.name in ('SimulatedBroker', 'Portfolio', 'PositionHandler', 'Position'):
            ctx.violation('C01.S6', 'call %s in %s does not resolve to any definition' % (ast.unparse(n.func), fn.qn), fn.site(n),
                          'R-RESOLVE: %s - the call raises AttributeError when reached ("totals are always obtainable")' % how,
                          key='C01.S6|resolve|%s|%s' % (fn.qn, n.func.attr if isinstance(n.func, ast.Attribute) else '?'))
    for qn, getter, prop in (('SimulatedBroker.get_account_total_equity', 'SimulatedBroker.get_portfolio_total_equity', 'total_equity'),
                             ('SimulatedBroker.get_account_total_market_value', 'SimulatedBroker.get_portfolio_total_market_value', 'total_market_value')):
        fn = ctx.fn(qn)
        ps = summarise(ctx, qn, policy=lambda a, b, d: default_policy(a, b, d) and not b.name.startswith('get_') and not b.is_property)
        ok = len(ps) == 1 and ps[0].outcome == 'return'
        if not ctx.require(ok if ok else None, 'C01.S6', '%s has a single normal path' % qn, fn.site(), [p.describe() for p in ps][:4]):
            continue
        p = ps[0]
        loops = [e for e in p.events if e.kind == 'loop']
        if not loops and p.value is not None:
            # comprehension form: {pid: figure(p) for p in portfolios} with 'master' = sum(figure(p) for p in portfolios)
            cur, master_c = p.value, None
            while cur[0] == 'call' and cur[1] == ('ext', 'SETITEM'):
                if cur[2][1] == ('str', 'master'):
                    master_c = cur[2][2]
                cur = cur[2][0]
            if master_c is not None and master_c[0] == 'call' and master_c[1] == ('ext', 'SUM') and len(master_c[2]) == 1 and master_c[2][0][0] == 'comp' \
                    and len(master_c[2][0][3]) == 1:
                comp = master_c[2][0]
                shape, it, ifs = comp[3][0]
                ctx.require(fmt(it) in ('self.portfolios.values()', 'self.portfolios.items()', 'self.portfolios') and not ifs, 'C01.S6',
                            '%s sums over all portfolios' % qn, fn.site(), 'iterates %s%s' % (fmt(it), ' with a filter' if ifs else ''), key='C01.S6|%s|iter' % qn)
                pv = shape[-1]
                body = comp[2]
                good = (body[0] == 'attr' and body[1] == pv and body[2] == prop) or (body[0] == 'call' and body[1] == ('fn', getter)) or \
                    (body[0] == 'call' and body[1] == ('fn', 'Portfolio.' + prop))
                ctx.require(good, 'C01.S6', '%s sums the per-portfolio %s' % (qn, prop), fn.site(), fmt(body)[:120], key='C01.S6|%s|summand' % qn)
                if cur[0] == 'comp' and cur[1] == 'dict' and cur[2][0] == 'tuple':
                    same = T.replace(cur[2][1][1], lambda z: pv if z == cur[3][0][0][-1] else None) == body
                    ctx.require(same, 'C01.S6', "%s: 'master' sums exactly the figures reported per portfolio" % qn, fn.site(), '%s vs %s' % (fmt(cur[2][1][1])[:60], fmt(body)[:60]),
                                key='C01.S6|%s|consistent' % qn)
                ctx.sample({'rule': 'C01.S6', 'function': qn, 'master': fmt(master_c)[:160]})
                continue
        if not ctx.require(len(loops) == 1 if len(loops) == 1 else None, 'C01.S6', '%s iterates the portfolios once' % qn, fn.site(), '%d loops' % len(loops)):
            continue
        lp = loops[0]
        it = fmt(lp.iter)
        ctx.require(it in ('self.portfolios.values()', 'self.portfolios', 'self.portfolios.items()', 'self.portfolios.keys()', 'LIST(self.portfolios.values())'),
                    'C01.S6', '%s sums over all portfolios' % qn, lp.site, 'iterates %s' % it, key='C01.S6|%s|iter' % qn)
        bodies = lp.paths
        ctx.require(len(bodies) == 1 and bodies[0].outcome == 'fall' and not bodies[0].conds, 'C01.S6', '%s: no portfolio is skipped (unconditional loop body)' % qn,
                    lp.site, [b.describe() for b in bodies], key='C01.S6|%s|filter' % qn)
        ret = p.value
        master = None
        cur = ret
        while cur is not None and cur[0] == 'call' and cur[1] == ('ext', 'SETITEM'):
            if cur[2][1] == ('str', 'master'):
                master = cur[2][2]
                break
            cur = cur[2][0]
        if master is None and ret[0] == 'dict':
            master = dict((k, v) for k, v in ret[1]).get(('str', 'master'))
        if not ctx.require(master is not None if master is not None else None, 'C01.S6', "%s stores the total under 'master'" % qn, fn.site(), fmt(ret)[:200]):
            continue
        ok = master[0] == 'sum' and master[1] == lp.id
        if not ctx.require(ok, 'C01.S6', "%s: 'master' is the sum, from zero, of the per-portfolio figure" % qn, lp.site, fmt(master), key='C01.S6|%s|sum' % qn):
            continue
        body = master[2]
        good = body[0] == 'call' and body[1] == ('fn', getter)
        if not good:
            # direct read of the portfolio property is the same figure
            good = body[0] == 'attr' and body[2] == prop
        ctx.require(good, 'C01.S6', '%s sums the per-portfolio %s' % (qn, prop), lp.site, fmt(body), key='C01.S6|%s|summand' % qn)
        ctx.sample({'rule': 'C01.S6', 'function': qn, 'master': fmt(master)})


# ------------------------------------------------------------------------------------------------ S3b
def s3b_refused_movements(ctx):
    """A refused movement moves no cash: no explicit raise is reachable after a balance or history write (zero-sum on the refused path too)."""
    from ..vbm import dirty_raises
    prot = {'cash_balances': 'master cash', 'cash': 'portfolio cash', 'history': 'history'}
    for e in ('SimulatedBroker.subscribe_funds_to_portfolio', 'SimulatedBroker.withdraw_funds_from_portfolio', 'SimulatedBroker.subscribe_funds_to_account',
              'SimulatedBroker.withdraw_funds_from_account', 'Portfolio.subscribe_funds', 'Portfolio.withdraw_funds', 'Portfolio.transact_asset'):
        reps, nraise, npaths = dirty_raises(ctx, e, protected=prot)
        for r in reps:
            inst = '%s: refusal %s in %s leaves every balance and the history untouched' % (e, r['exc'], r['fn'])
            if r['writes'] and r.get('implicit'):
                # not an explicit refusal: the possible miss of a table lookup that happens to sit inside a try block (see C15.S1); whether the key can be absent is
                # not bounded by this analysis
                ctx.undecided('C01.S3b', inst, r['site'], 'possible miss of a table lookup, not an explicit refusal')
                continue
            ctx.require(not r['writes'], 'C01.S3b', inst, r['site'], 'writes that may precede the refusal: ' + '; '.join('%s via %s at %s' % w[:3] for w in r['writes'][:4]),
                        key='C01.S3b|%s|%s:%s' % (e, r['fn'], r['exc']))
