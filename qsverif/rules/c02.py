"""C02 - holdings equal the net of fills and are valued at the latest price (DESIGN C02: S1..S5)."""
import ast

from .. import terms as T
from ..lib import (writers_of_attr, summarise, heap_writes, delta, same, under, V, A, normal, raising, cond_str, loc_attr,
                   inline_all, no_inline, find_terms)
from ..symex import SymEx, State, Undecided, default_policy, eval_property
from ..terms import fmt, ZERO, num, rat

TX = V('transaction')
Q = A(TX, 'quantity')


def check(ctx):
    from ..lib import discarded_results
    ctx.sub(discarded_results, 'C02.S5', ('qstrader/broker/',), 'holdings and marks are applied to the items they were prepared for')
    ctx.sub(s1_ownership)
    ctx.sub(s2_net_delta)
    ctx.sub(s3_presence)
    ctx.sub(s3_presence_through)
    ctx.sub(s4_report)
    ctx.sub(s5_valuation)
    ctx.sub(mark_loop, 'C02.S5')
    ctx.sub(refused_fill, 'C02.S2')


def s1_ownership(ctx):
    M = ctx.M
    for attr, owner, floor in (('buy_quantity', 'Position', 1), ('sell_quantity', 'Position', 1), ('current_price', 'Position', 1),
                               ('positions', 'PositionHandler', 1)):
        ws = writers_of_attr(M, attr)
        ctx.floor('C02.S1', 'writers of %s.%s' % (owner, attr), len(ws), floor)
        for w in ws:
            ok = w.fn.cls is not None and w.fn.cls.name == owner
            ctx.require(ok, 'C02.S1', 'writer of .%s in %s' % (attr, w.fn.qn), w.where, '%s is written only inside class %s' % (attr, owner),
                        key='C02.S1|%s|%s' % (attr, w.fn.qn))
    # which methods of Position change the quantities: the constructor and transact (through its helpers) only
    c = ctx.cls('Position')
    for name, m in sorted(c.methods.items()):
        if m.is_property or (name.startswith('_') and name != '__init__'):
            continue
        if any(isinstance(d_, ast.Attribute) and d_.attr in ('setter', 'deleter') for d_ in m.node.decorator_list):
            continue            # assigning the attribute is the caller's act, as with a plain field
        ps = summarise(ctx, m, policy=default_policy)
        wq = any(heap_writes(p, 'buy_quantity') or heap_writes(p, 'sell_quantity') for p in ps)
        if name in ('__init__', 'transact'):
            ctx.require(wq, 'C02.S1', 'Position.%s sets the quantities' % name, m.site())
        elif name == 'open_from_transaction':
            pass
        else:
            ctx.require(not wq, 'C02.S1', 'Position.%s does not change the quantities' % name, m.site(), key='C02.S1|entry|%s' % name)


def _dq(p, attr):
    ws = heap_writes(p, attr)
    tot = ZERO
    for w in ws:
        d = delta(w)
        if d is None:
            return None
        tot = T.t_add(tot, d)
    return tot


def s2_net_delta(ctx):
    qn = 'Position.transact'
    ps = summarise(ctx, qn, policy=default_policy)
    nps = normal(ps)
    ctx.floor('C02.S2', 'normal paths of Position.transact', len(nps), 3)
    for p in nps:
        db, ds = _dq(p, 'buy_quantity'), _dq(p, 'sell_quantity')
        where = ctx.fn(qn).site()
        if db is None or ds is None:
            ctx.violation('C02.S2', 'Position.transact changes the quantities additively [%s]' % cond_str(p), where, key='C02.S2|additive')
            continue
        dn = T.t_sub(db, ds)
        zero_path = any(fmt(c) == 'INT(FLOOR(transaction.quantity)) == 0' and v for c, v, _ in p.conds) or \
            any(fmt(c) in ('transaction.quantity == 0', '0 == transaction.quantity') and v for c, v, _ in p.conds)
        if zero_path:
            ctx.require(T.teq(dn, ZERO), 'C02.S2', 'zero-quantity fill leaves the net quantity unchanged', where, fmt(dn), key='C02.S2|zero')
        else:
            ws = heap_writes(p, 'buy_quantity') + heap_writes(p, 'sell_quantity')
            ctx.require(same(p, dn, Q), 'C02.S2', 'Position.transact changes net quantity by exactly the fill quantity [%s]' % cond_str(p),
                        ws[0].site if ws else where, 'net quantity changes by %s' % fmt(dn), key='C02.S2|delta')
            ctx.sample({'rule': 'C02.S2', 'path': cond_str(p), 'd_buy': fmt(db), 'd_sell': fmt(ds), 'd_net': fmt(dn)})
    # every path that is not the tabled zero-quantity idiom must not skip the fill
    early = [p for p in nps if not heap_writes(p, 'buy_quantity') and not heap_writes(p, 'sell_quantity')]
    for p in early:
        ok = any(fmt(c) in ('INT(FLOOR(transaction.quantity)) == 0', 'transaction.quantity == 0', '0 == transaction.quantity') and v for c, v, _ in p.conds)
        ctx.require(ok, 'C02.S2', 'a fill is skipped only when its quantity is zero [%s]' % cond_str(p), ctx.fn(qn).site(), key='C02.S2|skip')
    # opening a position: net = q on both branches
    ps = summarise(ctx, 'Position.open_from_transaction', policy=default_policy)
    for p in normal(ps):
        v = p.value
        if not (v is not None and v[0] == 'new' and v[1] == 'Position'):
            ctx.undecided('C02.S2', 'open_from_transaction returns a Position', ctx.fn('Position.open_from_transaction').site(), fmt(v) if v else None)
            continue
        f = dict(v[2])
        net = T.t_sub(f.get('buy_quantity', ZERO), f.get('sell_quantity', ZERO))
        bq_, sq_ = f.get('buy_quantity'), f.get('sell_quantity')
        if bq_ is None or sq_ is None or bq_ == V('buy_quantity') or sq_ == V('sell_quantity'):
            # the constructed object does not show the two quantities as values handed to its constructor (kept elsewhere / passed through under their own names)
            ctx.undecided('C02.S2', 'a new position opens with net quantity = fill quantity [%s]' % cond_str(p), ctx.fn('Position.open_from_transaction').site(), fmt(net)[:80])
            continue
        ctx.require(same(p, net, Q), 'C02.S2', 'a new position opens with net quantity = fill quantity [%s]' % cond_str(p),
                    ctx.fn('Position.open_from_transaction').site(), fmt(net), key='C02.S2|open')
        ctx.require(same(p, f.get('current_price', ZERO), A(TX, 'price')), 'C02.S5', 'a new position is valued at its fill price [%s]' % cond_str(p),
                    ctx.fn('Position.open_from_transaction').site(), fmt(f.get('current_price', ZERO)), key='C02.S5|open-price')
    # net_quantity itself
    ps = summarise(ctx, 'Position.net_quantity')
    ok = len(ps) == 1 and T.teq(ps[0].value, T.t_sub(A('self', 'buy_quantity'), A('self', 'sell_quantity')))
    ctx.require(ok, 'C02.S2', 'net_quantity = buy_quantity - sell_quantity', ctx.fn('Position.net_quantity').site(), [fmt(p.value) for p in ps],
                key='C02.S2|net_quantity')


def s3_presence(ctx):
    qn = 'PositionHandler.transact_position'
    fn = ctx.fn(qn)
    ps = summarise(ctx, qn, policy=default_policy)
    nps = normal(ps)
    ctx.floor('C02.S3', 'normal paths of transact_position', len(nps), 4)
    asset = A(TX, 'asset')
    loc = ('sub', A('self', 'positions'), asset)
    deferred = []
    ctx._c02_deferred = deferred
    for p in nps:
        held = None
        for c, v, _ in p.conds:
            if fmt(c) in ('transaction.asset in self.positions',):
                held = v
        if held is None:
            ctx.undecided('C02.S3', 'transact_position branches on membership of the asset', fn.site(), cond_str(p))
            continue
        ins = [w for w in heap_writes(p, 'positions') if w.how == 'assign' and w.loc == loc]
        dels = [w for w in heap_writes(p, 'positions') if w.how == 'del' or w.how.startswith('mut:pop')]
        other = [w for w in heap_writes(p, 'positions') if w not in ins and w not in dels]
        ctx.require(not other, 'C02.S3', 'only insert and delete touch the positions table [%s]' % cond_str(p), other[0].site if other else None,
                    key='C02.S3|other')
        ctx.require(len(ins) == (0 if held else 1), 'C02.S3', 'a position is inserted iff the asset is not held [%s]' % cond_str(p),
                    ins[0].site if ins else fn.site(), key='C02.S3|insert')
        tr = [e for e in p.flat_events() if e.kind == 'call' and 'Position.transact' in e.callee]
        ctx.require(len(tr) == (1 if held else 0) and all(e.args.get('transaction') == TX for e in tr), 'C02.S3',
                    'a held position is transacted exactly once with the fill [%s]' % cond_str(p), tr[0].site if tr else fn.site(), key='C02.S3|transact')
        # the final test: net quantity of the stored position == 0, delete exactly on its true branch
        obj = ins[0].value if ins else loc
        if obj[0] == 'new':
            f = dict(obj[2])
            net = T.t_sub(f.get('buy_quantity', ZERO), f.get('sell_quantity', ZERO))
        else:
            net = T.t_sub(('attr', obj, 'buy_quantity'), ('attr', obj, 'sell_quantity'))
        zero = None
        for c, v, _ in p.conds:
            if c[0] == 'cmp' and c[1] == '==' and (c[2] == ZERO or c[3] == ZERO):
                o = c[3] if c[2] == ZERO else c[2]
                if T.teq(o, net) or T.teq(o, T.t_neg(net)):
                    zero = v
        unread_test = [c for c, v, _ in p.conds if any(s_[0] == 'call' and s_[1][0] == 'fn' for s_ in T.subterms(c))
                       and fmt(c) not in ('transaction.asset in self.positions',)]
        if zero is None:
            # whether to drop the position is decided by what a call answered (what the fill did to the exposure, as the position itself reports it): read the whole
            # step with that call followed to the end (s3_presence_through), once
            deferred.append(cond_str(p)[:80])
            continue
        if zero is None:
            ctx.violation('C02.S3', 'every path ends by testing whether the position\'s net quantity is zero [%s]' % cond_str(p), fn.site(),
                          'no test `net_quantity == 0` of the stored position on this path (expected net = %s)' % fmt(net), key='C02.S3|test')
            continue
        ctx.require(len(dels) == (1 if zero else 0), 'C02.S3', 'the position is removed iff its net quantity is zero [%s]' % cond_str(p),
                    dels[0].site if dels else fn.site(), '%d deletions' % len(dels), key='C02.S3|delete')
        ctx.sample({'rule': 'C02.S3', 'held': held, 'net_zero': zero, 'inserted': len(ins), 'deleted': len(dels)})


def s3_presence_through(ctx):
    """transact_position with every callee followed (the position's own transact, the classification of what the fill did): on every accepting path that ends with
    the asset held before, the entry is deleted exactly when the net quantity the fill leaves behind is zero - whatever intermediate answer the deletion is hung on"""
    deferred = getattr(ctx, '_c02_deferred', [])
    if not deferred:
        return
    from ..vbm import all_inline
    from ..symex import Undecided
    qn = 'PositionHandler.transact_position'
    fn = ctx.fn(qn)
    what = 'the position is removed iff its net quantity is zero'
    try:
        ps = normal(summarise(ctx, qn, policy=all_inline, max_paths=2000))
    except Undecided as u:
        ctx.undecided('C02.S3', what, fn.site(), str(u)[:140])
        return
    loc = ('sub', A('self', 'positions'), A(TX, 'asset'))
    judged = 0
    for p in ps:
        held = next((v for c, v, _ in p.conds if fmt(c) == 'transaction.asset in self.positions'), None)
        # (the final state, with stored locations read as the logical fields they project: _valuation.bought is buy_quantity)
        from ..symex import _lifter
        lift_ = _lifter(ctx.M.projections(), None)
        heapL = dict(p.heap)
        for k_, v_ in list(p.heap.items()):
            kl_ = T.replace(k_, lift_)
            if kl_ != k_:
                heapL[kl_] = T.replace(v_, lift_) if isinstance(v_, tuple) else v_
        obj_ = p.heap.get(loc)
        if held is None and obj_ is None:
            continue
        if not held and obj_ is not None and obj_[0] == 'new' and not ({'buy_quantity', 'sell_quantity'} & set(dict(obj_[2]))):
            continue        # the new position keeps its quantities under other names: not read here
        if not held and obj_ is not None and obj_[0] == 'new':
            f_new = dict(obj_[2])
            net_post = T.t_sub(f_new.get('buy_quantity', ZERO), f_new.get('sell_quantity', ZERO))         # the position just opened
        elif held:
            post = lambda f_: heapL.get(('attr', loc, f_), ('attr', loc, f_))
            net_post = T.t_sub(post('buy_quantity'), post('sell_quantity'))
        else:
            continue
        zero = None
        for c, v, _ in p.conds:
            if c[0] == 'cmp' and c[1] == '==' and ZERO in (c[2], c[3]):
                o = c[3] if c[2] == ZERO else c[2]
                if T.teq(o, net_post) or T.teq(o, T.t_neg(net_post)):
                    zero = v
        dels = [w for w in heap_writes(p, 'positions') if w.how == 'del' or w.how.startswith('mut:pop')]
        if zero is None:
            unread = [c for c, v, _ in p.conds if any(s_[0] == 'call' and (s_[1][0] == 'fn' or s_[1] == ('ext', 'APPLY')) for s_ in T.subterms(c))]
            if unread:
                ctx.undecided('C02.S3', what + ' [%s]' % cond_str(p)[:80], fn.site(), 'decided by %s' % fmt(unread[0])[:100])
            else:
                ctx.violation('C02.S3', 'every path ends by testing whether the position\'s net quantity is zero [%s]' % cond_str(p)[-110:], fn.site(),
                              'READ: no test `net_quantity == 0` of the stored position on this path (net quantity left behind: %s)' % fmt(net_post)[:80], key='C02.S3|test')
            continue
        judged += 1
        ctx.require(len(dels) == (1 if zero else 0), 'C02.S3', what + ' [%s]' % cond_str(p)[-110:], dels[0].site if dels else fn.site(),
                    '%d deletion(s) although the net quantity left behind (%s) is %szero' % (len(dels), fmt(net_post)[:60], '' if zero else 'not '), key='C02.S3|delete')
    if not judged:
        ctx.undecided('C02.S3', what, fn.site(), 'decided by an answer this rule could not relate to the net quantity: %s' % deferred[0])


def s4_report(ctx):
    qn = 'Portfolio.portfolio_to_dict'
    fn = ctx.fn(qn)

    FIGURES = ('net_quantity', 'market_value', 'unrealised_pnl', 'realised_pnl', 'total_pnl')

    def no_props(caller, callee, depth):
        # the five reported figures of a Position stay symbolic; whatever else the report goes through (a breakdown record, its properties, a helper) is read through
        if callee.cls is not None and callee.cls.name == 'Position' and callee.name in FIGURES:
            return False
        if default_policy(caller, callee, depth) and not (callee.is_property and callee.cls is not None and callee.cls.name in ('Position', 'Portfolio', 'PositionHandler')):
            return True
        from ..symex import _writes_self
        return depth <= 5 and callee.path.endswith('portfolio/position.py') and callee.name != '__init__' and not _writes_self(callee)
    sx = SymEx(ctx.M, policy=no_props)
    ps = sx.run_entry(fn)
    ctx.paths_explored += len(ps)
    nps = normal(ps)
    if not ctx.require(len(nps) == 1 if len(nps) == 1 else None, 'C02.S4', 'portfolio_to_dict has one normal path', fn.site(), len(nps)):
        return
    v = nps[0].value
    if not (v is not None and v[0] == 'comp' and v[1] == 'dict' and len(v[3]) == 1):
        ctx.undecided('C02.S4', 'the holdings report is one row per position (loop or comprehension)', fn.site(), fmt(v)[:160] if v else None)
        return
    tg, it, ifs = v[3][0]
    ctx.require(fmt(it) in ('self.pos_handler.positions.items()',) and len(tg) == 2, 'C02.S4', 'the holdings report covers every open position', fn.site(), fmt(it), key='C02.S4|iter')
    ctx.require(not ifs, 'C02.S4', 'no position is skipped in the report', fn.site(), [fmt(c) for c in ifs], key='C02.S4|skip')
    if len(tg) != 2:
        return
    key, row = v[2][1]
    pos = tg[1]
    ctx.require(key == tg[0], 'C02.S4', 'rows are keyed by the asset', fn.site(), fmt(key), key='C02.S4|key')
    if row[0] != 'dict':
        ctx.undecided('C02.S4', 'report row is a dict literal', fn.site(), fmt(row)[:120])
        return
    d = {k[1]: x for k, x in row[1] if k is not None and k[0] == 'str'}
    table = {'quantity': 'net_quantity', 'market_value': 'market_value', 'unrealised_pnl': 'unrealised_pnl', 'realised_pnl': 'realised_pnl', 'total_pnl': 'total_pnl'}
    spelled = {'net_quantity': T.t_sub(('attr', pos, 'buy_quantity'), ('attr', pos, 'sell_quantity'))}
    spelled['market_value'] = T.t_mul(('attr', pos, 'current_price'), spelled['net_quantity'])
    spelled['total_pnl'] = T.t_add(('attr', pos, 'realised_pnl'), ('attr', pos, 'unrealised_pnl'))      # the identity C03-S1 establishes
    for k, prop in table.items():
        if k not in d:
            ctx.violation('C02.S4', "report row has key '%s'" % k, fn.site(), sorted(d), key='C02.S4|key|%s' % k)
            continue
        got = d[k]
        ok = got == ('attr', pos, prop) or (got[0] == 'call' and got[1] == ('fn', 'Position.' + prop)) or (prop in spelled and T.teq(got, spelled[prop]))
        if not ok and prop == 'market_value':
            ok = T.teq(got, T.t_mul(('attr', pos, 'current_price'), ('attr', pos, 'net_quantity')))
        ctx.require(ok, 'C02.S4', "report '%s' is the position's %s" % (k, prop), fn.site(), 'reported %s' % fmt(got)[:160], key='C02.S4|value|%s' % k)
    ctx.sample({'rule': 'C02.S4', 'row': {k: fmt(x)[:60] for k, x in d.items()}})


def s5_valuation(ctx):
    net = T.t_sub(A('self', 'buy_quantity'), A('self', 'sell_quantity'))
    ps = summarise(ctx, 'Position.market_value')
    ok = len(ps) == 1 and T.teq(ps[0].value, T.t_mul(A('self', 'current_price'), net))
    ctx.require(ok, 'C02.S5', 'market_value = current_price * net_quantity', ctx.fn('Position.market_value').site(), [fmt(p.value) for p in ps],
                key='C02.S5|market_value')
    # sum over all positions
    from .c03 import linear_sum, POS, main_sum_path

    def no_props(caller, callee, depth):
        # the per-position figures stay symbolic (market_value is checked above); helpers of the handler itself (a shared totals step) are read through
        if callee.is_property or depth > 5:
            return False
        own = callee.cls is not None and callee.cls.name in ('PositionHandler', 'Portfolio') and not callee.name.startswith('total_') and callee.name != '__init__'
        return default_policy(caller, callee, depth) or own
    tfn = ctx.fn('PositionHandler.total_market_value')
    ps = summarise(ctx, 'PositionHandler.total_market_value', policy=no_props)
    mp = main_sum_path(ps)
    nps = [mp] if mp is not None and mp.value is not None else []
    ls = None
    if len(nps) == 1:
        try:
            ls = linear_sum(nps[0].value, nps[0]) if nps[0].value != ZERO else None
        except Exception:
            ls = None
    if ls is None:
        ctx.undecided('C02.S5', 'total_market_value is a sum over the positions', tfn.site(), [fmt(p.value)[:160] if p.value is not None else p.outcome for p in ps][:3])
    else:
        total, its, ifs = ls
        ok = bool(its) and all(i in ('self.positions.items()', 'self.positions.values()') for i in its) and not ifs and \
            (T.teq(total, A(POS, 'market_value')) or T.teq(total, T.t_mul(A(POS, 'current_price'), T.t_sub(A(POS, 'buy_quantity'), A(POS, 'sell_quantity')))) or
             T.teq(total, T.t_mul(A(POS, 'current_price'), A(POS, 'net_quantity'))))
        ctx.require(ok, 'C02.S5', 'total_market_value sums market_value over every open position', tfn.site(),
                    'sums %s over %s%s' % (fmt(total)[:120], its, (' where ' + ', '.join(fmt(q)[:60] for q in ifs)) if ifs else ''), key='C02.S5|total_market_value')
    ps = summarise(ctx, 'Portfolio.total_equity', policy=default_policy)
    ok = len(ps) == 1 and ps[0].value is not None
    if ok:
        v = ps[0].value
        rest = T.t_sub(v, A('self', 'cash'))
        ok = rest[0] == 'call' and rest[1] == ('fn', 'PositionHandler.total_market_value') and rest[2] == (A('self', 'pos_handler'),)
        if not ok:
            # the handler's total read through (spelled out here, or the handler's method inlined): the same sum over the portfolio's own positions
            try:
                l2 = linear_sum(rest, ps[0])
            except Exception:
                l2 = None
            ok = l2 is not None and not l2[2] and bool(l2[1]) and all(i in ('self.pos_handler.positions.items()', 'self.pos_handler.positions.values()') for i in l2[1]) and \
                (T.teq(l2[0], A(POS, 'market_value')) or T.teq(l2[0], T.t_mul(A(POS, 'current_price'), T.t_sub(A(POS, 'buy_quantity'), A(POS, 'sell_quantity')))))
    ctx.require(ok, 'C02.S5', 'total_equity = total_market_value + cash', ctx.fn('Portfolio.total_equity').site(), [fmt(p.value) for p in ps],
                key='C02.S5|total_equity')
    # every non-zero fill re-marks the position at the fill price
    ps = summarise(ctx, 'Position.transact', policy=default_policy)
    for p in normal(ps):
        if not (heap_writes(p, 'buy_quantity') or heap_writes(p, 'sell_quantity')):
            continue
        cs = [e for e in p.flat_events() if e.kind == 'call' and 'Position.update_current_price' in e.callee]
        cw = [w for w in heap_writes(p, 'current_price')]
        ok = (len(cs) == 1 and cs[0].args.get('market_price') == A(TX, 'price')) or (len(cw) >= 1 and cw[-1].value == A(TX, 'price'))
        ctx.require(ok, 'C02.S5', 'a fill re-marks the position at the fill price [%s]' % cond_str(p), (cs[0].site if cs else ctx.fn('Position.transact').site()),
                    key='C02.S5|fill-mark')
    ps = summarise(ctx, 'Position.update_current_price', policy=default_policy)
    nps = normal(ps)
    for p in nps:
        cw = heap_writes(p, 'current_price')
        if not cw and any(v_ and c_[0] == 'cmp' and c_[1] == '==' and {c_[2], c_[3]} == {A(V('self'), 'current_price') if False else ('attr', V('self'), 'current_price'), V('market_price')}
                          for c_, v_, _ in p.conds):
            # nothing to store: on this path the price given IS the price held (tested for equality)
            ctx.holds('C02.S5', 'update_current_price stores the given price [%s]: the path tested that it equals the price already held' % cond_str(p)[:80], ctx.fn('Position.update_current_price').site())
            continue
        ctx.require(len(cw) == 1 and cw[0].value == V('market_price'), 'C02.S5', 'update_current_price stores the given price [%s]' % cond_str(p),
                    cw[0].site if cw else ctx.fn('Position.update_current_price').site(),
                    __import__('qsverif.lib', fromlist=['read_marker']).read_marker(ctx, p) + str([fmt(w.value) for w in cw]), key='C02.S5|store')
    ctx.require(len(nps) >= 1, 'C02.S5', 'update_current_price has an accepting path', ctx.fn('Position.update_current_price').site())
    # portfolio-level mark: every accepted mark of a held asset reaches the position with the given price
    qn = 'Portfolio.update_market_value_of_asset'
    # (the mark may be passed to the position through the portfolio's own handler)
    ps = summarise(ctx, qn, policy=lambda a_, b_, d_: default_policy(a_, b_, d_) or (d_ <= 3 and b_.cls is not None and b_.cls.name == 'PositionHandler' and not b_.name.startswith('__')))
    for p in normal(ps):
        held = None
        for c, v, _ in p.conds:
            if fmt(c) == 'asset in self.pos_handler.positions':
                held = v
        cs = [e for e in p.flat_events() if e.kind == 'call' and 'Position.update_current_price' in e.callee]
        if held is None:
            ctx.undecided('C02.S5', 'update_market_value_of_asset branches on whether the asset is held', ctx.fn(qn).site(), cond_str(p))
            continue
        if not held:
            ctx.require(not cs, 'C02.S5', 'a mark for an asset that is not held is ignored', ctx.fn(qn).site())
            continue
        ok = len(cs) == 1 and cs[0].args.get('market_price') == V('current_price') and \
            cs[0].d.get('recv') in (('sub', A(A('self', 'pos_handler'), 'positions'), V('asset')),)
        from ..lib import read_marker
        if not ok and not read_marker(ctx, p):
            ctx.undecided('C02.S5', 'an accepted mark of a held asset updates that position with the given price [%s]' % cond_str(p), ctx.fn(qn).site(),
                          'the path makes calls this rule does not follow; calls of update_current_price seen: %d' % len(cs))
            continue
        ctx.require(ok, 'C02.S5', 'an accepted mark of a held asset updates that position with the given price [%s]' % cond_str(p),
                    cs[0].site if cs else ctx.fn(qn).site(), 'READ: calls: %s' % [str(e) for e in cs], key='C02.S5|mark')
        extra = [fmt(c) for c, v, _ in p.conds if fmt(c) not in ('asset in self.pos_handler.positions', '0 <= current_price', 'current_price < 0',
                                                                   'self.current_dt <= current_dt', 'current_dt < self.current_dt')]
        ctx.require(not extra, 'C02.S5', 'a mark is dropped only for the documented refusals (negative price, earlier time) [%s]' % cond_str(p),
                    ctx.fn(qn).site(), 'additional condition(s): %s' % extra, key='C02.S5|mark-cond')
    # an accepted mark must not be silently dropped: every normal path with the asset held calls through (checked above);
    # and the only early exit is for an asset that is not held
    for p in normal(ps):
        if any(fmt(c) == 'asset in self.pos_handler.positions' and v for c, v, _ in p.conds):
            cs = [e for e in p.flat_events() if e.kind == 'call' and 'Position.update_current_price' in e.callee]
            from ..lib import read_marker
            if len(cs) != 1 and not read_marker(ctx, p):
                continue        # (left open above)
            ctx.require(len(cs) == 1, 'C02.S5', 'no silent drop of a mark for a held asset [%s]' % cond_str(p), ctx.fn(qn).site(), key='C02.S5|mark-drop')


def mark_loop(ctx, rule):
    """SimulatedBroker.update marks every held asset of every portfolio at the mid price of the update time (shared with C14)."""
    qn = 'SimulatedBroker.update'
    fn = ctx.fn(qn)
    ps = summarise(ctx, qn, policy=lambda a, b, d: default_policy(a, b, d) and b.qn != 'SimulatedBroker._execute_order')
    # marks prepared as callables and applied later: each must be bound to the portfolio and asset it was created for
    from .c16 import late_bound_loop_lambdas
    for site_, names_, src_ in late_bound_loop_lambdas(ctx, qn):
        if 'update_market_value_of_asset' in src_:
            ctx.violation(rule, 'every held asset is marked in the portfolio that holds it', site_,
                          'the deferred mark reads the loop variable%s %s when it is finally called (after the loop has moved on): every mark goes to the last one' % (
                              's' if len(names_) > 1 else '', ', '.join(names_)), key='%s|late-binding' % rule)
    for p in normal(ps):
        marks = []

        def walk(events, loops, conds):
            for e in events:
                if e.kind == 'call' and 'Portfolio.update_market_value_of_asset' in e.callee:
                    marks.append((e, list(loops), list(conds)))
                elif e.kind == 'loop':
                    for b in e.paths:
                        walk(b.events, loops + [e], conds + [c for c in b.conds])
        walk(p.events, [], [])
        from ..lib import read_marker
        if not marks and read_marker(ctx, p):
            # every call on the path was followed to the end and none of them marks a position: on this path an update leaves the holdings at their old prices
            ctx.violation(rule, 'update marks every held asset, whatever the time of the update [%s]' % cond_str(p)[:80], fn.site(),
                          'READ: on this path update returns without a single call of update_market_value_of_asset', key='%s|no-mark' % rule)
            continue
        if len(marks) != 1:
            # marks made indirectly (deferred callables, zipped work lists, ...) are outside what this rule reads; nothing is claimed either way
            ctx.undecided(rule, 'update marks positions at one call site inside the portfolio x position loops [%s]' % cond_str(p)[:80],
                          marks[0][0].site if marks else fn.site(), '%d direct mark sites' % len(marks))
            continue
        e, loops, conds = marks[0]

        def narrowed(t):
            # a recognisable restriction of the iteration: a slice, a filtered comprehension, a head/tail helper
            return any(s_[0] == 'slice' or (s_[0] == 'comp' and any(g_[2] for g_ in s_[3])) or
                       (s_[0] == 'call' and s_[1] in (('ext', 'itertools.islice'), ('ext', 'builtins.filter'), ('ext', 'itertools.takewhile'))) for s_ in T.subterms(t))
        ok = len(loops) == 2 and fmt(loops[0].iter) in ('self.portfolios', 'self.portfolios.keys()', 'self.portfolios.items()', 'self.portfolios.values()',
                                                        'LIST(self.portfolios)', 'LIST(self.portfolios.values())', 'LIST(self.portfolios.keys())', 'LIST(self.portfolios.items())')
        if not ok and not (loops and narrowed(loops[0].iter)):
            ctx.undecided(rule, 'the mark loop runs over every portfolio', loops[0].site if loops else e.site, 'unrecognised iteration: %s' % [fmt(l.iter)[:80] for l in loops])
            continue
        ctx.require(ok, rule, 'the mark loop runs over every portfolio', loops[0].site if loops else e.site, [fmt(l.iter) for l in loops], key='%s|mark-outer' % rule)
        if len(loops) == 2:
            inner_ok = fmt(loops[1].iter).endswith('.pos_handler.positions') or fmt(loops[1].iter).endswith('.pos_handler.positions.keys()') \
                or fmt(loops[1].iter).startswith('LIST(') and '.pos_handler.positions' in fmt(loops[1].iter)
            if not inner_ok and not narrowed(loops[1].iter):
                ctx.undecided(rule, 'the mark loop runs over every held asset', loops[1].site, 'unrecognised iteration: %s' % fmt(loops[1].iter)[:120])
                continue
            ctx.require(inner_ok, rule, 'the mark loop runs over every held asset', loops[1].site, fmt(loops[1].iter), key='%s|mark-inner' % rule)
            for l in loops:
                ctx.require(all(b.outcome == 'fall' for b in l.paths), rule, 'the mark loop never breaks or skips', l.site, [b.describe() for b in l.paths][:3],
                            key='%s|mark-break' % rule)
        ctx.require(not conds, rule, 'every held asset is marked unconditionally', e.site, 'mark guarded by %s' % [fmt(c[0]) for c in conds], key='%s|mark-cond' % rule)
        price = e.args.get('current_price')
        asset = e.args.get('asset')
        ok = price is not None and price[0] == 'call' and price[1] == ('fn', 'BacktestDataHandler.get_asset_latest_mid_price') and \
            price[2][1:] == (V('dt'), asset) or (price is not None and price[0] == 'call' and price[1] == ('fn', 'BacktestDataHandler.get_asset_latest_mid_price')
                                                 and fmt(price[2][1]) in ('dt', 'self.current_dt') and price[2][2] == asset)
        ctx.require(ok, rule, 'the mark price is the mid price of that asset at the update time, unmodified', e.site, fmt(price) if price else None,
                    key='%s|mark-price' % rule)
        ctx.sample({'rule': rule, 'mark_call': str(e)[:200]})


def refused_fill(ctx, rule):
    """A fill the position refuses (non-positive price, earlier time stamp) must not have been booked: no raise after an accumulator write."""
    from ..vbm import dirty_raises
    prot = {k: 'holding' for k in ('buy_quantity', 'sell_quantity', 'avg_bought', 'avg_sold', 'buy_commission', 'sell_commission', 'positions')}
    for e in ('Position.transact', 'PositionHandler.transact_position'):
        reps, nraise, npaths = dirty_raises(ctx, e, protected=prot)
        for r in reps:
            inst = '%s: refusal %s in %s happens before the fill is booked' % (e, r['exc'], r['fn'])
            ctx.require(not r['writes'], rule, inst, r['site'], 'writes that may precede the refusal: ' + '; '.join('%s via %s at %s' % w[:3] for w in r['writes'][:4]),
                        key='%s|refused|%s|%s:%s' % (rule, e, r['fn'], r['exc']))
