"""C07 - backtest results up to any date do not depend on later market data (non-interference; DESIGN C07: S1..S3)."""
import ast

from .. import terms as T
from .. import valueflow as vf
from ..lib import summarise, normal, cond_str, reads_of_attr, V, A, meth_calls_in, all_terms_of, no_inline
from ..symex import Valuation, default_policy
from ..terms import fmt
from . import c06

RUN = 'BacktestTradingSession.run'
OUTPUTS = ['BacktestTradingSession.run', 'BacktestTradingSession.get_equity_curve', 'BacktestTradingSession.get_target_allocations']
BACKWARD = {'bfill', 'backfill', 'interpolate'}


def _field_time_arg(ctx, fn, n, callee, p):
    from ..symex import Undecided
    from ..lib import read_marker
    try:
        ps = summarise(ctx, fn, policy=default_policy)
    except Undecided:
        return None
    site = fn.site(n)
    seen = []
    for q in ps:
        for e in q.flat_events():
            if e.kind == 'call' and e.site == site and any(callee.qn == c_ or callee.qn in c_ for c_ in e.callee):
                seen.append((q, e.args.get(p)))
    if not seen and callee.name == '__init__' and callee.cls is not None:
        # a record built on the path (its constructor is read through): the time it was given is the field the constructor keeps it in
        for q in ps:
            for t_ in all_terms_of(q):
                for s_ in T.subterms(t_):
                    if s_[0] == 'new' and s_[1] == callee.cls.name and p in dict(s_[2]):
                        seen.append((q, dict(s_[2])[p]))
    if not seen or any(v_ is None for _, v_ in seen):
        return None
    params = [x_ for x_ in fn.params if x_ not in ('self', 'cls')]
    verdicts = set()
    for q, v_ in seen:
        if v_[0] == 'var' and v_[1] in params and v_[1] in vf.TIME_PARAMS:
            verdicts.add(('ok', 'the field holds the request\'s own time (%s) where the call is made' % fmt(v_)))
        elif v_[0] == 'attr' and v_[1][0] == 'var' and v_[1][1] in params and v_[2] == 'dt':
            verdicts.add(('ok', 'the field holds the request\'s own time (%s) where the call is made' % fmt(v_)))
        elif v_[0] == 'attr' and v_[1] == V('self') and read_marker(ctx, q):
            verdicts.add(('bad', 'self.%s as the previous request left it - on path [%s] nothing has moved it to the time of this request before the call' % (v_[2], cond_str(q)[:80])))
        else:
            verdicts.add(('unknown', fmt(v_)[:60]))
    kinds = {k_ for k_, _ in verdicts}
    if kinds == {'ok'}:
        return sorted(verdicts)[0]
    if 'bad' in kinds and 'unknown' not in kinds:
        return next(v_ for v_ in sorted(verdicts) if v_[0] == 'bad')
    return None


def check(ctx):
    M = ctx.M
    from ..lib import discarded_results
    ctx.sub(discarded_results, 'C07.S4', ('qstrader/trading/', 'qstrader/broker/', 'qstrader/data/', 'qstrader/statistics/'),
            'what a run records at an instant is computed at that instant, from the objects the code actually updated')
    reach = M.reachable([RUN])
    ctx.floor('C07.S1', 'functions reachable from BacktestTradingSession.run', len(reach), 40)
    # ---- S1: which market-data readers are reachable
    from ..lib import private_closure
    accessors = private_closure(M, ['CSVDailyBarDataSource.get_bid', 'CSVDailyBarDataSource.get_ask'])
    # a package-defined decorator applied to the accessors (and to nothing else) is part of them: its wrapper runs as the accessor
    import ast as _ast
    acc_fns = [ctx.fn(q_) for q_ in ('CSVDailyBarDataSource.get_bid', 'CSVDailyBarDataSource.get_ask')]
    for af in acc_fns:
        for d_ in af.node.decorator_list:
            dn = d_.func if isinstance(d_, _ast.Call) else d_
            if isinstance(dn, _ast.Name):
                t_ = M.resolve_name(af.mod, dn.id)
                if t_ is not None and hasattr(t_, 'qn') and hasattr(t_, 'node') and isinstance(t_.node, _ast.FunctionDef):
                    users = [g_ for g_ in M.all_funcs() if g_.parent is None and any(
                        isinstance((x_.func if isinstance(x_, _ast.Call) else x_), _ast.Name) and (x_.func if isinstance(x_, _ast.Call) else x_).id == dn.id
                        for x_ in g_.node.decorator_list)]
                    if all(u_.qn in accessors for u_ in users):
                        accessors.add(t_.qn)
                        accessors |= {g_.qn for g_ in M.all_funcs() if getattr(g_, 'parent', None) is not None and g_.parent.qn == t_.qn}
    readers = {fn.qn for fn, n in reads_of_attr(M, 'asset_bid_ask_frames')}
    for q in sorted(readers & reach):
        ctx.require(q in accessors, 'C07.S1',
                    'bid/ask frames are read during a run only by the point-in-time accessors (%s)' % q, ctx.fn(q).site(), key='C07.S1|frame-reader|%s' % q)
    if not (readers & reach) and {'CSVDailyBarDataSource.get_bid', 'CSVDailyBarDataSource.get_ask'} <= reach:
        # the accessors are reached but read their quotes from somewhere else than the asset_bid_ask_frames table: who else reads THAT storage is not enumerated here
        ctx.undecided('C07.S1', 'bid/ask frames are read during a run only by the point-in-time accessors', ctx.fn('CSVDailyBarDataSource.get_bid').site(),
                      'the accessors do not read asset_bid_ask_frames: the quotes are kept under another name')
    elif not (readers & reach):
        # the call graph does not lead from the run to any reader of the quote frames: with dynamic dispatch in between (getters looked up by name, answers produced
        # by generators) that is a limit of the call graph, not a property of the code
        ctx.undecided('C07.S1', 'the run reaches the point-in-time accessors', None, 'no reader of asset_bid_ask_frames is reachable from run in the call graph')
    else:
        ctx.holds('C07.S1', 'the run reaches the point-in-time accessors', None)
    raw = {fn.qn for fn, n in reads_of_attr(M, 'asset_bar_frames')}
    for q in sorted(raw & reach):
        ctx.violation('C07.S1', 'the raw bars (which include the future) are not readable during a run', ctx.fn(q).site(),
                      '%s reads asset_bar_frames and is reachable from run' % q, key='C07.S1|raw-reader|%s' % q)
    ctx.holds('C07.S1', 'no reader of the raw bar frames is reachable from run (%d readers exist outside the cone)' % len(raw - reach), None)
    for q in ('CSVDailyBarDataSource.get_assets_historical_closes', 'BacktestDataHandler.get_assets_historical_range_close_price'):
        if q in M.funcs:
            ctx.require(q not in reach, 'C07.S1', 'the historical range query %s is not reachable from run' % q, M.funcs[q].site(), key='C07.S1|range|%s' % q)
    # every call to a data-source/handler method in the cone is one of the point-in-time getters
    allowed = {'get_bid', 'get_ask', 'get_asset_latest_bid_price', 'get_asset_latest_ask_price', 'get_asset_latest_bid_ask_price', 'get_asset_latest_mid_price'}
    cg = M.call_graph()
    for q in sorted(reach):
        for callee in cg.get(q, ()):
            f = M.funcs.get(callee)
            if f is not None and f.cls is not None and f.cls.name in ('CSVDailyBarDataSource', 'BacktestDataHandler') and not f.name.startswith('__'):
                if f.name.startswith('_') and M.funcs[q].cls is f.cls:
                    continue
                ctx.require(f.name in allowed, 'C07.S1', 'market data enters the run only through the latest-price getters (%s -> %s)' % (q, callee),
                            M.funcs[q].site(), key='C07.S1|getter|%s' % callee)
    # ---- S2: temporal passthrough
    sites = vf.time_call_sites(M, [RUN])
    ctx.floor('C07.S2', 'call sites carrying a time argument in the cone of run', len(sites), 25)
    idioms = {}
    for fn, n, callee, p, a in sites:
        v, why = vf.classify_time_arg(M, fn, a)
        inst = '%s -> %s(%s=%s)' % (fn.qn, callee.qn, p, ast.unparse(a)[:40])
        if v == 'ok':
            ctx.holds('C07.S2', inst + ': ' + why, fn.site(n))
            idioms[why] = idioms.get(why, 0) + 1
        elif v == 'bad':
            ctx.violation('C07.S2', inst, fn.site(n), 'the time argument is %s; every price/universe/exchange lookup during a run must be made at the current event time' % why,
                          key='C07.S2|%s|%s|%s' % (fn.qn, callee.qn, p))
        else:
            # a field of the object (the portfolio's clock): what it holds where the call is made, on every path of the method as its callers see it (through its
            # decorators) - the request's own time once the clock was moved to it, the time of some EARLIER request while it was not
            sv = _field_time_arg(ctx, fn, n, callee, p) if isinstance(a, ast.Attribute) and isinstance(a.value, ast.Name) and a.value.id == 'self' else None
            if sv is not None and sv[0] == 'ok':
                ctx.holds('C07.S2', inst + ': ' + sv[1], fn.site(n))
            elif sv is not None and sv[0] == 'bad':
                ctx.violation('C07.S2', inst, fn.site(n), 'READ: the time argument is %s; every record made during a run carries the time of the request it records' % sv[1],
                              key='C07.S2|%s|%s|%s' % (fn.qn, callee.qn, p))
            else:
                ctx.undecided('C07.S2', inst, fn.site(n), 'unrecognised time argument: %s' % why)
    ctx.sample({'rule': 'C07.S2', 'time_call_sites': len(sites), 'idioms': idioms})
    # the event time itself: run takes dt from the event and nothing else
    ps = summarise(ctx, RUN, policy=no_inline)
    for p in normal(ps):
        for e in p.flat_events():
            if e.kind == 'call' and any(c.split('.')[0] in ('SimulatedBroker', 'SignalsCollection', 'QuantTradingSystem', 'BacktestTradingSession') for c in e.callee):
                d = e.args.get('dt')
                if d is not None:
                    ok = d[0] == 'attr' and d[2] == 'ts' and d[1][0] == 'elem' and fmt(d[1][1]) == 'self.sim_engine'
                    ctx.require(ok, 'C07.S2', 'run passes the current event time to %s' % e.callee[0], e.site, fmt(d), key='C07.S2|run|%s' % e.callee[0])
    # ---- S3: the point-in-time rules of C06 and no backward-looking operation in the session's cone
    for col, qn in (('Bid', 'CSVDailyBarDataSource.get_bid'), ('Ask', 'CSVDailyBarDataSource.get_ask')):
        c06.accessor(ctx, qn, col)
    ctx.sub(c06.converter)
    ctx.sub(c06.confinement)
    ctx.sub(c06.handler)
    cone = M.reachable(OUTPUTS + ['CSVDailyBarDataSource.__init__'])
    nscan = 0
    for q in sorted(cone):
        fn = M.funcs.get(q)
        if fn is None:
            continue        # a seed name that is now defined by a base class: its definition is reached under its own name
        nscan += 1
        for n in ast.walk(fn.node):
            if isinstance(n, ast.Call) and isinstance(n.func, ast.Attribute):
                if n.func.attr in BACKWARD:
                    ctx.violation('C07.S3', 'no backward fill in the session\'s cone', fn.site(n), '%s in %s carries later values into earlier rows' % (n.func.attr, q),
                                  key='C07.S3|backward|%s|%s' % (q, n.func.attr))
                for k in n.keywords:
                    if k.arg == 'method' and isinstance(k.value, ast.Constant) and k.value.value in ('bfill', 'backfill', 'nearest'):
                        ctx.violation('C07.S3', 'no backward/nearest lookup in the session\'s cone', fn.site(n), "method='%s' in %s" % (k.value.value, q),
                                      key='C07.S3|method|%s|%s' % (q, k.value.value))
                if n.func.attr == 'shift' and n.args and isinstance(n.args[0], ast.UnaryOp) and isinstance(n.args[0].op, ast.USub):
                    ctx.violation('C07.S3', 'no negative shift in the session\'s cone', fn.site(n), q, key='C07.S3|shift|%s' % q)
    ctx.holds('C07.S3', 'backward-fill scan over %d functions in the cone of run/get_equity_curve/get_target_allocations/data loading' % nscan, None)
    # end-relative access inside the data source (anchoring to the last bar)
    for q in sorted(M.reachable(['CSVDailyBarDataSource.__init__', 'CSVDailyBarDataSource.get_bid', 'CSVDailyBarDataSource.get_ask'])):
        fn = M.funcs.get(q)
        if fn is None:
            continue        # a seed name that is now defined by a base class: its definition is reached under its own name
        if fn.cls is None or fn.cls.name != 'CSVDailyBarDataSource':
            continue
        for n in ast.walk(fn.node):
            bad = None
            if isinstance(n, ast.Subscript) and isinstance(n.slice, ast.UnaryOp) and isinstance(n.slice.op, ast.USub) and isinstance(n.slice.operand, ast.Constant):
                bad = 'negative position %s' % ast.unparse(n)[-40:]
            if isinstance(n, ast.Call) and isinstance(n.func, ast.Attribute) and n.func.attr in ('tail', 'last', 'last_valid_index', 'max', 'idxmax', 'cummax', 'expanding', 'rolling') \
                    and not (n.func.attr in ('max',) and isinstance(n.func.value, ast.Name) and n.func.value.id in ('np', 'numpy')):
                bad = 'end-relative operation .%s()' % n.func.attr
            if bad:
                ctx.violation('C07.S3', 'prices at t are a function of rows dated at or before t', fn.site(n),
                              '%s in %s makes every historical price depend on later rows of the file' % (bad, q), key='C07.S3|end-relative|%s' % q)
    ctx.holds('C07.S3', 'end-relative access scan over the data source', None)
    # an order created at the 21:00 close cannot fill in the same update: the exchange is closed at its own closing instant
    ctx.sub(exch_at_clock_instants, 'C07.S3')
    from . import c16
    ctx.sub(c16.cadence, 'C07.S3')
    from . import c18
    ctx.sub(c18.shared_state)          # nothing observed in one run (or by another instance) leaks into this one: state shared across instances is data from "elsewhere in time"
    ctx.sub(c18.memoisation)


def exch_at_clock_instants(ctx, rule):
    qn = 'SimulatedExchange.is_open_at_datetime'
    fn = ctx.fn(qn)
    table = {(0, 0): False, (14, 30): True, (21, 0): False, (23, 59): False}
    got = {}
    for (h, mi), exp in table.items():
        m = h * 60 + mi
        for wd in (0, 4):
            val = Valuation(nums={'dt.weekday()': wd, 'dt.isoweekday()': wd + 1, 'dt.time()': m, 'self.open_dt': 870, 'self.close_dt': 1260,
                                  'dt.hour': h, 'dt.minute': mi, 'dt.second': 0, 'self.open_dt.hour': 14, 'self.open_dt.minute': 30,
                                  'self.close_dt.hour': 21, 'self.close_dt.minute': 0})
            # the answer may be assembled from other methods of the exchange (a phase classifier): they are part of the question
            own = lambda caller, callee, depth, _c=fn.cls: depth <= 5 and (default_policy(caller, callee, depth) or (callee.cls is not None and callee.cls is _c))
            ps = summarise(ctx, fn, policy=own, oracle=val)
            res = {val.evalbool(p.value) if p.outcome == 'return' else 'raise' for p in ps}
            got[(h, mi, wd)] = res
            # (several outcomes because a test could not be decided from the instant alone - which weekdays a stored session object trades on, say: left open)
            ctx.require(res == {exp} if (None not in res and not (len(res) > 1 and val.unknown)) else None, rule, 'exchange is %s at the clock instant %02d:%02d (weekday %d)' % ('open' if exp else 'closed', h, mi, wd),
                        fn.site(), str(res), key='%s|clock-instant|%02d%02d' % (rule, h, mi))
