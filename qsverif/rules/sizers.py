"""Shared analysis of the two order sizers (used by C08, C09, C10, C11)."""
from .. import terms as T
from ..lib import summarise, V, A, normal, cond_str, as_len_test
from ..symex import default_policy
from ..terms import fmt, ZERO, num

EQUITY = ('call', ('fn', 'SimulatedBroker.get_portfolio_total_equity'), (A('self', 'broker'), A('self', 'broker_portfolio_id')), ())


def call_is(t, name):
    return t is not None and t[0] == 'call' and t[1] == ('ext', name)


def is_nan_test_of(c, price):
    """c is isnan(price), or isnan(x / price): a quotient by a NaN price is NaN, so excluding the one excludes the other"""
    if not call_is(c, 'ISNAN') or len(c[2]) != 1:
        return False
    t = c[2][0]
    if t == price:
        return True
    try:
        r = T.rat(t)
    except Exception:
        return False
    in_den = any(a == price for m in r.d for a, _ in m)
    in_num = any(s == price for m in r.n for a, _ in m for s in T.subterms(a))
    return in_den and not in_num


def loop_asset_weight(lp):
    """(asset term, weight term, weights container) of a sizing loop: `for a, w in sorted(W.items())` or `for a in sorted(W): w = W[a]`."""
    it = lp.iter
    src = it[2][0] if call_is(it, 'SORTED') and len(it[2]) == 1 else it
    el = ('elem', lp.iter, lp.id)
    if src[0] == 'call' and src[1] == ('meth', 'items') and len(src[2]) == 1:
        return ('sub', el, num(0)), ('sub', el, num(1)), src[2][0]
    from ..symex import reduce_subscript
    if src[0] == 'call' and src[1] == ('meth', 'keys') and len(src[2]) == 1:
        return el, reduce_subscript(src[2][0], el), src[2][0]
    if src[0] == 'call' and src[1] in (('ext', 'LIST'),) and len(src[2]) == 1:
        return el, reduce_subscript(src[2][0], el), src[2][0]
    from ..symex import reduce_subscript
    return el, reduce_subscript(src, el), src


def is_empty_weights_path(p):
    """the path taken when the weight dict is empty"""
    for c, v, _ in p.conds:
        t = as_len_test(c, v)
        if t is not None and t[0] == V('weights') and t[1] == 'empty':
            return True
        if c == V('weights') and not v:
            return True
    return False


def ctor_guard_table(ctx, rule, cname, field, param, cases, what, keyprefix):
    """Decision table of the constructor on one numeric parameter: for each (value, valid) the constructor either refuses with ValueError or stores the
    parameter, unchanged, in self.<field>.  Anchored on the public constructor: where the validation lives (method, module function, inline) is immaterial."""
    from ..symex import Valuation
    from ..lib import heap_writes
    fn = ctx.fn(cname + '.__init__')

    def pol(caller, callee, depth):
        return depth <= 6 and (default_policy(caller, callee, depth) or callee.path == fn.path)
    for val_, valid in cases:
        v = Valuation(nums={param: val_})
        ps = summarise(ctx, fn, policy=pol, oracle=v)
        outs = set()
        for p in ps:
            if p.outcome == 'raise':
                outs.add('raise:' + p.state.exc[1])
            else:
                w = heap_writes(p, field)
                outs.add('stores:' + (fmt(w[-1].value) if w else 'nothing'))
        want = {'stores:' + param} if valid else {'raise:ValueError'}
        ctx.require(outs == want, rule, '%s of %s is %s' % (what, val_, 'accepted and stored unchanged' if valid else 'rejected with ValueError'), fn.site(),
                    'outcomes %s%s' % (sorted(outs), (' (depends on %s)' % sorted(set(v.unknown))[:2]) if v.unknown else ''), key='%s|%s' % (keyprefix, val_))


def require_fresh_target(ctx, rule, s, cname, key):
    """a sizer that fills a dict held on the instance must empty it first: entries of an earlier call are no part of this call's target"""
    if s.get('container') is not None:
        ctx.require(s['fresh'], rule, '%s starts each call from an empty target (%s is reset before the sizing loop)' % (cname, fmt(s['container'])), s['loop'].site,
                    'entries written by earlier calls stay in the target returned', key=key)


def _named_fee(e):
    """a fee-model call resolved only by its method name (receiver reached through an untyped parameter): name its positional arguments after the
    FeeModel.calc_total_cost(asset, quantity, consideration, broker) contract"""
    if e.callee != ['meth:calc_total_cost'] or not all(isinstance(k, int) for k in e.args):
        return e
    from ..symex import Ev
    d = dict(e.d)
    names = ('asset', 'quantity', 'consideration', 'broker')
    d['args'] = {names[i]: v for i, v in e.args.items() if i < len(names)}
    for k, v in (e.d.get('kwargs') or {}).items():
        d['args'][k] = v
    return Ev('call', **d)


def _rename_ev(e, ren):
    from ..symex import Ev
    d = {}
    for k, v in e.d.items():
        if k == 'node':
            d[k] = v
        elif isinstance(v, tuple) and v and isinstance(v[0], str):
            d[k] = ren(v)
        elif isinstance(v, dict):
            d[k] = {kk: (ren(vv) if isinstance(vv, tuple) and vv and isinstance(vv[0], str) else vv) for kk, vv in v.items()}
        else:
            d[k] = v
    return Ev(e.kind, **d)


def sizing_paths(ctx, cname):
    """-> all paths, and for every normal path that sizes: dict(path, loop, bodies[dict(path, quantity, fee, price, writes)])"""
    qn = cname + '.__call__'
    ps = summarise(ctx, qn, policy=default_policy)
    out = []
    for p in ps:
        loops = [e for e in p.events if e.kind == 'loop' and not e.d.get('partial')]
        # the sizing loop is the one that consults the fee model
        has = lambda l, test: any(e.kind == 'call' and any(test(c) for c in e.callee) for b in l.paths for e in b.flat_events())
        is_fee = lambda c: c.endswith('.calc_total_cost') or c == 'meth:calc_total_cost'
        is_price = lambda c: c.startswith('BacktestDataHandler.get_asset_latest_')
        all_loops = loops
        loops = [l for l in all_loops if has(l, is_fee)]
        from_terms = False
        if p.outcome == 'return' and not loops:
            # the fee of every asset was estimated in a comprehension (fused by the engine into the loop that prices and sizes): the estimate is then read off
            # the quantity formula itself, where the call appears as a term
            loops = [l for l in all_loops if has(l, is_price)]
            from_terms = True
        if p.outcome != 'return' or len(loops) != 1:
            continue
        lp = loops[0]
        carried_fee = None
        if not has(lp, is_price):
            # two-phase sizing: a first loop estimates the fee of every asset and collects the results, a second loop over those results (fused by the
            # engine into a loop over the same source) prices and sizes them.  The first loop must be a pure builder: one path, no test, no exit.
            second = [l for l in all_loops if l is not lp and has(l, is_price) and l.iter == lp.iter and all_loops.index(l) > all_loops.index(lp)]
            if len(second) == 1 and len(lp.paths) == 1 and lp.paths[0].outcome == 'fall' and not lp.paths[0].conds:
                l1, lp = lp, second[0]
                ren = lambda t, a=l1.id, b=lp.id: T.replace(t, lambda z: ('elem', z[1], b) if (z[0] == 'elem' and z[-1] == a) else None)
                carried_fee = [_rename_ev(e, ren) for e in l1.paths[0].flat_events() if e.kind == 'call' and any(is_fee(c) for c in e.callee)]
        if not lp.is_for:
            continue            # a work-list loop (while pending: x = pending.popleft()): which assets it visits is not read off its header
        bodies = []
        container = None
        for b in lp.paths:
            fee = [_named_fee(e) for e in b.flat_events() if e.kind == 'call' and any(is_fee(c) for c in e.callee)]
            if carried_fee is not None:
                fee = carried_fee + fee
            price = [e for e in b.flat_events() if e.kind == 'call' and any(c.startswith('BacktestDataHandler.get_asset_latest_') for c in e.callee)]
            ws = [w for w in b.flat_events() if w.kind == 'write' and w.d.get('local') and w.loc[0] == 'sub' and w.loc[1][0] == 'var']
            if not ws:
                # the target is kept on the instance: self.<field>[asset] = {...}
                ws = [w for w in b.flat_events() if w.kind == 'write' and not w.d.get('local') and w.how == 'assign' and w.loc[0] == 'sub' and w.loc[1][0] == 'attr' and w.loc[1][1] == V('self')]
                if ws:
                    container = ws[0].loc[1]
            q = None
            if len(ws) == 1 and ws[0].value[0] == 'dict':
                q = dict(ws[0].value[1]).get(('str', 'quantity'))
            if from_terms and not fee and q is not None:
                from ..symex import Ev
                seen_ = []
                for s_ in T.subterms(q):
                    if s_[0] == 'call' and s_[1][0] == 'fn' and all(is_fee(n_) for n_ in s_[1][1].split('|')) and len(s_[2]) >= 4 and s_ not in seen_:
                        seen_.append(s_)
                        fee.append(Ev('call', callee=s_[1][1].split('|'), args={'asset': s_[2][1], 'quantity': s_[2][2], 'consideration': s_[2][3]}, result=s_, recv=s_[2][0],
                                      site=lp.site, fn=qn, how='term', layer=1, kwargs=dict(s_[3])))
            bodies.append({'path': b, 'quantity': q, 'fee': fee, 'price': price, 'writes': ws})
        fresh = None
        if container is not None:
            # a target kept on the instance must start empty in every call: the last write of the field before the loop is an empty dict
            fresh = False
            for e in p.events:
                if e is lp:
                    break
                if e.kind == 'write' and e.loc == container:
                    fresh = e.value == ('dict', ())
        out.append({'path': p, 'loop': lp, 'bodies': bodies, 'container': container, 'fresh': fresh})
    return ps, out


def arrayish(t):
    """the term is computed by array arithmetic over all assets at once (numpy arrays built from the weights, zipped back into pairs): the sizing rules, which
    speak about one asset's scalar at a time, do not read it element by element"""
    if t is None:
        return False
    return any(s_[0] == 'call' and ((s_[1][0] == 'ext' and s_[1][1] in ('numpy.fromiter', 'ARRAY', 'numpy.array', 'numpy.asarray', 'numpy.vectorize')) or s_[1] == ('meth', 'tolist'))
               for s_ in T.subterms(t))


def table_refute(bodies, atoms, expected, grid):
    """The sizing formula as a decision table.  `bodies` are the normal paths of the sizing loop's body (dicts with 'path' and 'quantity'); `atoms` maps the terms
    the property speaks about (equity, weight, fee estimate, price, ...) to names; `grid` is a list of {name: Fraction}; `expected(point)` is the quantity the
    property states.  For each point the paths whose conditions hold under the point are evaluated.
    -> ('refuted', point, got, want, path)   one path, all of whose conditions were evaluated and hold, yields another quantity: the code deviates at that point
       ('agrees', n_points)                  every point was evaluated on some path and gave the stated quantity (a table, not a proof)
       ('unknown', why)                      some condition or quantity could not be evaluated"""
    from ..symex import Valuation
    names = {fmt(t): n for t, n in atoms.items()}
    mention = lambda t: any(fmt(s_) in names for s_ in T.subterms(t))
    npts = 0
    for pt in grid:
        nv = Valuation(nums={s: pt[n] for s, n in names.items()})
        hit = False
        for b in bodies:
            bp, q = b['path'], b['quantity']
            if bp.outcome == 'raise' or q is None:
                continue
            taken = True
            for c, v, _ in bp.conds:
                if c[0] == 'call' and c[1] == ('ext', 'ISNAN') and len(c[2]) == 1 and nv.value(c[2][0]) is not None:
                    got = False
                elif not mention(c):
                    continue
                else:
                    got = nv.evalbool(c)
                if got is None:
                    return ('unknown', 'condition %s not evaluated at %s' % (fmt(c)[:80], _pt(pt)))
                if got != v:
                    taken = False
                    break
            if not taken:
                continue
            val = nv.value(q)
            if val is None:
                return ('unknown', 'quantity %s not evaluated at %s' % (fmt(q)[:80], _pt(pt)))
            hit = True
            want = expected(pt)
            if val != want:
                return ('refuted', _pt(pt), val, want, cond_str(bp)[:100])
        if not hit:
            return ('unknown', 'no sizing path is taken at %s' % _pt(pt))
        npts += 1
    return ('agrees', npts)


def _pt(pt):
    return ', '.join('%s=%s' % (k, float(v)) for k, v in sorted(pt.items()))
