"""Shared analysis of the two order sizers (used by C10, C11, C08)."""
from .. import terms as T
from ..lib import summarise, V, A, normal, cond_str
from ..symex import default_policy
from ..terms import fmt, ZERO, num

EQUITY = ('call', ('fn', 'SimulatedBroker.get_portfolio_total_equity'), (A('self', 'broker'), A('self', 'broker_portfolio_id')), ())


def call_is(t, name):
    return t is not None and t[0] == 'call' and t[1] == ('ext', name)


def sizing_paths(ctx, cname):
    """-> list of dicts for every non-empty normal path of <cname>.__call__ : path, loop, bodies[(body path, quantity term, fee event, price event)]"""
    qn = cname + '.__call__'
    ps = summarise(ctx, qn, policy=default_policy)
    out = []
    for p in ps:
        if p.outcome == 'raise' and not any(e.kind == 'loop' for e in p.events):
            continue
        loops = [e for e in p.events if e.kind == 'loop' and not e.d.get('partial')]
        if p.outcome != 'return' or len(loops) != 1:
            continue
        lp = loops[0]
        bodies = []
        for b in lp.paths:
            fee = [e for e in b.flat_events() if e.kind == 'call' and any(c.endswith('.calc_total_cost') for c in e.callee)]
            price = [e for e in b.flat_events() if e.kind == 'call' and any(c.startswith('BacktestDataHandler.get_asset_latest_') for c in e.callee)]
            ws = [w for w in b.flat_events() if w.kind == 'write' and w.d.get('local') and w.loc[0] == 'sub' and w.loc[1] == V('target_portfolio')]
            q = None
            if len(ws) == 1 and ws[0].value[0] == 'dict':
                q = dict(ws[0].value[1]).get(('str', 'quantity'))
            bodies.append({'path': b, 'quantity': q, 'fee': fee, 'price': price, 'writes': ws})
        out.append({'path': p, 'loop': lp, 'bodies': bodies})
    return ps, out
