"""C06 - market data is point-in-time (DESIGN C06: S1 lookup method, S2 sentinel, S3 fill/order, S4 constants, S5 columns, S6 confinement)."""
import ast

from .. import terms as T
from ..lib import (summarise, heap_writes, same, V, A, normal, raising, cond_str, loc_attr, no_inline, writers_of_attr, reads_of_attr,
                   time_of_day, chain_ops, op_names, all_terms_of, meth_calls_in, calls_named)
from ..symex import Undecided, default_policy
from ..terms import fmt, ZERO, num

PAD = {'pad', 'ffill'}
LOOKUPS = {'searchsorted', 'asof', 'get_loc', 'get_indexer', 'get_indexer_for', 'get_slice_bound', 'slice_indexer', 'truncate', 'reindex',
           'first_valid_index', 'last_valid_index', 'idxmax', 'idxmin', 'asof_locs', 'get_indexer_non_unique', 'nearest', 'bisect', 'bisect_left',
           'bisect_right', 'argmin', 'argmax', 'query', 'between_time', 'at_time', 'last', 'tail', 'head', 'shift'}
BACKFILLS = {'bfill', 'backfill', 'interpolate'}
FRAME = ('sub', A('self', 'asset_bid_ask_frames'), V('asset'))
NAN = ('ext', 'NAN')


def accessors(ctx):
    for col, qn in (('Bid', 'CSVDailyBarDataSource.get_bid'), ('Ask', 'CSVDailyBarDataSource.get_ask')):
        accessor(ctx, qn, col)


def check(ctx):
    from ..lib import discarded_results
    ctx.sub(discarded_results, 'C06.S3', ('qstrader/data/',), 'the quote frames are the ones the code actually sorted and filled')
    accessors(ctx)
    ctx.sub(converter)
    ctx.sub(confinement)
    ctx.sub(handler)


# --------------------------------------------------------------------------------------------- S1, S2
FIELDS_USED = set()


def accessor(ctx, qn, col):
    fn = ctx.fn(qn)
    # the caller's view of the signature: (self, <time>, <asset>) whatever the parameters are called
    pp_ = [p_ for p_ in fn.pos_params if p_ not in ('self', 'cls')]
    DT = V(pp_[0]) if len(pp_) >= 1 else DT
    FRAME = ('sub', A('self', 'asset_bid_ask_frames'), V(pp_[1]) if len(pp_) >= 2 else V('asset'))
    ps = summarise(ctx, qn, policy=default_policy)
    valued = 0
    from ..lib import memo_tables
    memos = memo_tables(ctx, fn, ps)
    for m_, vd in memos.items():
        if vd[0] == 'unsound':
            from ..lib import validated_against_question
            try:
                checked_ = validated_against_question(ctx.M, fn, {m_}, depth=2)
            except Exception:
                checked_ = False
            if checked_:
                # not answered by key alone: what is found under the key (a row cursor) is compared with the timestamp asked about before it is used
                ctx.undecided('C06.S6', '%s answers from its memo %s only what it would compute afresh' % (qn, m_), fn.site(),
                              'self.%s is filed under %s, which leaves out %s, but what is found there is compared with the question before use: whether that check is sufficient is not decided here'
                              % (m_, fmt(vd[1])[:60], ', '.join(str(x_) for x_ in vd[2])))
                continue
            ctx.violation('C06.S6', '%s answers from its memo %s only what it would compute afresh' % (qn, m_), fn.site(),
                          'the memo is keyed by %s but the stored value also depends on %s: a later query with another %s is answered with the wrong row'
                          % (fmt(vd[1]), vd[2], '/'.join(vd[2])), key='C06.S6|%s|memo-key' % qn)
        elif vd[0] == 'sound':
            ctx.holds('C06.S6', '%s: memo %s is keyed by everything its entries depend on (%s)' % (qn, m_, fmt(vd[1])), fn.site())
    sound = {m_ for m_, vd in memos.items() if vd[0] == 'sound'}
    for p in ps:
        if p.outcome == 'raise':
            continue
        v = p.value
        if v == NAN:
            continue
        if any(c_[0] == 'cmp' and c_[1] == 'in' and v_ and c_[3][0] == 'attr' and c_[3][1] == V('self') and c_[3][2] in sound for c_, v_, _ in p.conds):
            continue        # a hit of a sound memo equals the miss path that filled the entry: checked there
        if any(c[0][0] == 'exc' for c in p.conds):
            ctx.undecided('C06.S1', '%s returns a price only from the normal lookup path' % qn, fn.site(), cond_str(p)[:160])
            continue
        valued += 1
        # every lookup-like call on this path
        calls = meth_calls_in(p, LOOKUPS)
        idx = [c for c in calls if c[1] == ('meth', 'get_indexer')]
        others = [c for c in calls if c[1] != ('meth', 'get_indexer')]
        # a binary search over the time column (searchsorted / bisect) is a lookup whose position arithmetic (side, -1) this rule does not evaluate: left open.
        # anything else of the family (asof, nearest, shift, idxmax, ...) is a different question than "the last row at or before dt"
        positional = [c for c in others if c[1][1] in ('searchsorted', 'bisect', 'bisect_left', 'bisect_right')]
        positional += [s_ for t_ in [v] for s_ in T.subterms(t_) if s_[0] == 'call' and s_[1][0] == 'ext' and s_[1][1].split('.')[-1] in ('searchsorted', 'bisect', 'bisect_left', 'bisect_right')]
        others = [c for c in others if c not in positional]
        ctx.require(not others, 'C06.S1', '%s uses no lookup other than get_indexer [%s]' % (qn, cond_str(p)[:60]), fn.site(),
                    'other lookup(s): %s' % sorted({fmt(c)[:80] for c in others}), key='C06.S1|%s|other-lookup' % qn)
        if positional and not idx:
            # searchsorted(dt, side) is the number of stamps < dt (left, the default) or <= dt (right): the last row at or before dt is at
            # searchsorted(dt, side='right') - 1.  Used as a position without the -1 it is the first row AT OR AFTER dt (a later bar); left - 1 skips a bar stamped exactly dt.
            s0 = positional[0]
            side = dict(s0[3]).get('side', s0[2][-1] if (s0[1][0] == 'meth' and len(s0[2]) >= 3) or (s0[1][0] == 'ext' and len(s0[2]) >= 3) else None)
            right = side == ('str', 'right') or s0[1][1].split('.')[-1] in ('bisect', 'bisect_right')
            uses = [s_ for s_ in T.subterms(v) if s_[0] == 'sub' and any(z_ == s0 for z_ in T.subterms(s_[2]))]
            verdict = None
            for u in uses:
                ix = u[2]
                if ix[0] == 'tuple' and ix[1]:
                    ix = ix[1][0]
                if T.teq(ix, s0):
                    verdict = 'at-or-after'
                elif T.teq(ix, T.t_sub(s0, num(1))):
                    verdict = verdict or ('ok' if right else 'strictly-before')
            if verdict == 'at-or-after':
                ctx.violation('C06.S1', '%s looks up the last row at or before dt' % qn, fn.site(),
                              'row %s: the count of earlier stamps used as a position is the first row at or after dt - a later bar whenever dt falls between two bars [%s]'
                              % (fmt(s0)[:80], cond_str(p)[:60]), key='C06.S1|%s|method' % qn)
            elif verdict == 'strictly-before':
                ctx.violation('C06.S1', '%s looks up the last row at or before dt' % qn, fn.site(),
                              'row %s - 1 with side=left: a bar stamped exactly dt is skipped' % fmt(s0)[:80], key='C06.S1|%s|method' % qn)
            elif verdict == 'ok':
                ctx.holds('C06.S1', '%s looks up the last row at or before dt (searchsorted side=right, minus one) [%s]' % (qn, cond_str(p)[:60]), fn.site())
            else:
                ctx.undecided('C06.S1', '%s locates the row by one get_indexer call [%s]' % (qn, cond_str(p)[:60]), fn.site(), 'binary search over the time column: %s' % fmt(positional[0])[:100])
            continue
        distinct = []
        for c in idx:
            if c not in distinct:
                distinct.append(c)
        if not distinct and not others:
            # a row handed out by its fixed POSITION (the first bar: .iat[0] / .iloc[0]) answers "at or before dt" only where the path has established that this bar is
            # not later than dt: index[k] <= dt (or dt == index[k]).  `dt <= index[0]` establishes the opposite for every dt before the first bar.
            fixed = [s_ for s_ in T.subterms(v) if s_[0] == 'sub' and s_[2][0] == 'num' and s_[1][0] == 'attr' and s_[1][2] in ('iat', 'iloc')
                     and any(z_ == A('self', 'asset_bid_ask_frames') for z_ in T.subterms(s_[1]))]
            if fixed and len({f_[2] for f_ in fixed}) == 1:
                k_ = fixed[0][2]
                stamp = lambda t_: t_[0] == 'sub' and t_[2] == k_ and t_[1][0] == 'attr' and t_[1][2] == 'index'
                dtv = V('dt')
                established = False
                for c_, val_, _ in p.conds:
                    if c_[0] != 'cmp':
                        continue
                    a_, b_ = c_[2], c_[3]
                    if c_[1] == '<=' and stamp(a_) and b_ == dtv and val_:
                        established = True          # index[k] <= dt
                    if c_[1] == '<' and a_ == dtv and stamp(b_) and not val_:
                        established = True          # not (dt < index[k])
                    if c_[1] == '==' and val_ and ((stamp(a_) and b_ == dtv) or (stamp(b_) and a_ == dtv)):
                        established = True
                from ..lib import read_marker
                if not established and read_marker(ctx, p):
                    ctx.violation('C06.S1', '%s looks up the last row at or before dt' % qn, fn.site(),
                                  'READ: on path [%s] the bar at position %s is handed out without the path having established that it is not later than dt: a query before '
                                  'that bar is answered with a price of the future' % (cond_str(p)[:100], fmt(k_)), key='C06.S1|%s|method' % qn)
                    continue
                if established:
                    ctx.holds('C06.S1', '%s hands out the bar at position %s only where that bar is not later than dt [%s]' % (qn, fmt(k_), cond_str(p)[:60]), fn.site())
                    continue
            # the row is found some other way (a streaming cursor, a bisect over a list, ...): not read by this rule
            ctx.undecided('C06.S1', '%s locates the row by one get_indexer call [%s]' % (qn, cond_str(p)[:60]), fn.site(), 'no index lookup of the recognised family on this path')
            continue
        from ..lib import strip_ndarray as _strip

        def _direct(ix, c_):
            ix = _strip(ix)
            if ix[0] in ('list', 'tuple') and len(ix[1]) in (1, 2):
                return _direct(ix[1][0], c_)
            return T.teq(ix, c_) or ix == ('sub', c_, num(0)) or (ix[0] == 'sub' and ix[2] == num(0) and _strip(ix[1]) == c_)
        positions = [s_[2] for s_ in T.subterms(v) if s_[0] == 'sub' and any(z_[0] == 'call' and z_[1] == ('meth', 'get_indexer') for z_ in T.subterms(s_[2]))]
        as_position = [c for c in distinct if any(_direct(ix, c) for ix in positions)]
        if len(distinct) > 1 or (distinct and not as_position):
            # several lookups, or a row reached by arithmetic on what a lookup answered (an opening row plus an offset, a clamp): the lookup whose answer IS the
            # row is the one this rule reads; where there is none, whether the arithmetic lands on the last row at or before dt depends on the layout of the stamps
            if len(as_position) != 1:
                ctx.undecided('C06.S1', '%s locates the row by one get_indexer call [%s]' % (qn, cond_str(p)[:60]), fn.site(),
                              'the row is %s' % ('computed from the answers of %d lookups' % len(distinct) if not as_position else 'taken from %d lookups' % len(as_position)))
                continue
            distinct = as_position
        ctx.holds('C06.S1', '%s locates the row by one get_indexer call [%s]' % (qn, cond_str(p)[:60]), fn.site())
        g = distinct[0]
        kws = dict(g[3])
        meth = kws.get('method')
        if meth is None and len(g[2]) >= 3:
            meth = g[2][2]
        ok = meth is not None and meth[0] == 'str' and meth[1] in PAD
        ctx.require(ok, 'C06.S1', '%s looks up the last row at or before dt (method pad/ffill)' % qn, fn.site(),
                    'method=%s' % (fmt(meth) if meth is not None else 'None (exact match only)'), key='C06.S1|%s|method' % qn)
        # the per-asset data the index belongs to: <self.F>[asset] for a field F built at construction (frames, or records of time/bid/ask columns)
        roots = [s_ for s_ in T.subterms(g[2][0]) if s_[0] == 'sub' and s_[1][0] == 'attr' and s_[1][1] == V('self') and s_[2] == FRAME[2]]
        if roots and roots[0] != FRAME:
            FRAME = roots[0]
        chain_to_root = chain_ops(g[2][0], stop=FRAME)
        ok_target = bool(roots) and chain_to_root[0][1] == FRAME and all(o[0] in ('attr', 'sub', 'root') for o in chain_to_root)
        ok_key = len(g[2]) >= 2 and g[2][1] in (('list', (DT,)), ('tuple', (DT,)))
        key_note = None
        if not ok_key and len(g[2]) >= 2 and g[2][1][0] in ('list', 'tuple') and len(g[2][1][1]) == 1:
            # the instant queried is dt put through time-zone conversions (the same instant) and/or rounding steps: rounding DOWN can only move the query earlier
            # (no later bar is seen; whether the answer is unchanged depends on the resolution of the stamps - left open), rounding up or to nearest can move it later
            k_, steps = g[2][1][1][0], []
            while k_[0] == 'call' and k_[1][0] == 'meth' and k_[1][1] in ('tz_convert', 'tz_localize', 'floor', 'round', 'ceil', 'normalize', 'to_pydatetime', 'as_unit') and k_[2]:
                steps.append(k_[1][1])
                k_ = k_[2][0]
            if k_ == DT and steps:
                if any(s_ in ('round', 'ceil') for s_ in steps):
                    ctx.violation('C06.S1', '%s queries the timestamp index of the asset\'s bid/ask frame with its own dt' % qn, fn.site(),
                                  'the instant queried is dt.%s(): rounded up or to nearest it can lie AFTER dt, and a bar that opens only then is already visible' % '.'.join(reversed(steps)),
                                  key='C06.S1|%s|target' % qn)
                    continue
                if all(s_ in ('tz_convert',) for s_ in steps):
                    ok_key = True
                else:
                    key_note = 'the instant queried is dt.%s()' % '().'.join(reversed(steps))
        if key_note is not None and roots and ok_target:
            ctx.undecided('C06.S1', '%s queries the timestamp index of the asset\'s bid/ask frame with its own dt' % qn, fn.site(),
                          key_note + ': never later than dt; equal answers presuppose stamps on that grid')
            FIELDS_USED.add(FRAME[1][2])
        elif not roots:
            ctx.undecided('C06.S1', '%s queries the timestamp index of the asset\'s bid/ask frame with its own dt' % qn, fn.site(), 'index of %s' % fmt(g[2][0])[:120])
        else:
            ctx.require(ok_target and ok_key, 'C06.S1', '%s queries the timestamp index of the asset\'s bid/ask frame with its own dt' % qn, fn.site(), fmt(g)[:200],
                        key='C06.S1|%s|target' % qn)
            FIELDS_USED.add(FRAME[1][2])
        ctx.require(not set(kws) - {'method'}, 'C06.S1', '%s: no tolerance/limit on the lookup' % qn, fn.site(), sorted(kws), key='C06.S1|%s|kwargs' % qn)
        # the value returned is the column at that row: some chain over FRAME, .iloc[g or g[0]], [col]
        ops = chain_ops(v, stop=FRAME)
        root = ops[0][1]
        names = op_names(ops)
        ok_root = root == FRAME
        used_idx = [o for o in ops if o[0] == 'sub' and any(s == g for s in T.subterms(o[1]))]
        colsub = [o for o in ops if o[0] == 'sub' and o[1][0] == 'str']
        # which side is selected: a column named Bid/Ask, or a record field bid/ask
        named = [o[1][1] for o in ops if o[0] == 'sub' and o[1][0] == 'str'] + [o[1] for o in ops if o[0] == 'attr' and o[1].lstrip('._').lower() in ('bid', 'ask')]
        sides = [n_.lstrip('._').lower() for n_ in named if n_.lstrip('._').lower() in ('bid', 'ask')]
        extra = [x for x in names if x not in ('.iloc', '.iat', '[]', '.values', 'item', 'to_numpy', 'tolist', 'array', 'to_list') and not (x.startswith('.') and x.lstrip('._').lower() in ('bid', 'ask', 'loc'))]
        if not ok_root or (not sides and not extra):
            ctx.undecided('C06.S1', '%s returns the %s column of the row found, unmodified' % (qn, col), fn.site(), 'value %s' % fmt(v)[:160])
        else:
            good = len(used_idx) == 1 and sides == [col.lower()]
            ctx.require(good and not extra, 'C06.S1', '%s returns the %s column of the row found, unmodified' % (qn, col), fn.site(), fmt(v)[:200],
                        key='C06.S1|%s|value' % qn)
        if colsub:
            ctx.require(colsub[0][1][1] in converter_columns(ctx), 'C06.S5', '%s reads a column the converter builds' % qn, fn.site(), colsub[0][1][1],
                        key='C06.S5|%s|column' % qn)
        # S2: the -1 sentinel is excluded on this path
        i0 = ('sub', g, num(0))
        guarded = False
        from ..lib import strip_ndarray
        for c, val, _ in p.conds:
            if c[0] != 'cmp':
                continue
            # the same numbers, whatever container they were copied into (row.tolist()[0] is row[0])
            s = (c[1], strip_ndarray(c[2]), strip_ndarray(c[3]), val)
            for target in (i0, g):
                if s in ((('<='), ZERO, target, True), ('<', target, ZERO, False), ('<', num(-1), target, True), ('<=', target, num(-1), False),
                         ('==', num(-1), target, False), ('==', target, num(-1), False)):
                    guarded = True
        other_guard = [c for c, val, _ in p.conds if c[0] == 'cmp' and any(s_ == DT for s_ in T.subterms(c)) and
                       any(s_[0] == 'attr' and s_[1] == V('self') for s_ in T.subterms(c))]
        if not guarded and other_guard:
            # "before the first bar" is excluded by comparing dt with construction-time data instead of testing the sentinel: whether that data is the
            # first quote instant is a fact about the constructor this rule does not establish
            ctx.undecided('C06.S2', '%s uses the indexer result as a position only after excluding -1 (no bar at or before dt)' % qn, fn.site(),
                          'guarded by %s' % [fmt(c)[:80] for c in other_guard][:2])
            continue
        ctx.require(guarded, 'C06.S2', '%s uses the indexer result as a position only after excluding -1 (no bar at or before dt)' % qn, fn.site(),
                    'path [%s] reaches .iloc without comparing the indexer result with -1: a query before the first bar returns the LAST bar' % cond_str(p)[:120],
                    key='C06.S2|%s|sentinel' % qn)
        ctx.sample({'rule': 'C06.S1/S2', 'accessor': qn, 'path': cond_str(p)[:120], 'value': fmt(v)[:160]})
    ctx.require(valued >= 1, 'C06.S1', '%s has a path that returns a price' % qn, fn.site(), key='C06.S1|%s|valued' % qn)
    nanpaths = [p for p in ps if p.outcome == 'return' and p.value == NAN]
    if not nanpaths and valued == 0:
        ctx.undecided('C06.S2', '%s answers NaN when no bar opens at or before dt' % qn, fn.site(), 'no path of the accessor was read')
    else:
        ctx.require(len(nanpaths) >= 1, 'C06.S2', '%s answers NaN when no bar opens at or before dt' % qn, fn.site(), key='C06.S2|%s|nan' % qn)
    # no state besides the frames is read or written (memoisation-safe, history-independent)
    for p in ps:
        ws = [w for w in heap_writes(p) if not (loc_attr(w.loc) in sound)]
        if ws and not any(vd[0] == 'unsound' for vd in memos.values()):
            # state that is not a recognisable memo (a cursor, a last-seen row): answers may depend on the history of queries - not decided here
            ctx.undecided('C06.S6', '%s writes no state [%s]' % (qn, cond_str(p)[:60]), ws[0].site, [fmt(w.loc)[:60] for w in ws][:3])
        elif not ws:
            ctx.holds('C06.S6', '%s writes no state besides sound memo entries [%s]' % (qn, cond_str(p)[:60]), fn.site())
        reads = set()
        for t in all_terms_of(p):
            for s in T.subterms(t):
                if s[0] == 'attr' and s[1] == V('self'):
                    reads.add(s[2])
        extra = sorted(r_ for r_ in reads - {'asset_bid_ask_frames'} - sound if fn.cls is not None and ctx.M.field_written_outside_init(fn.cls, r_))
        if extra and not any(vd[0] == 'unsound' for vd in memos.values()):
            ctx.undecided('C06.S6', '%s reads only the per-asset bid/ask frames and other construction-time data' % qn, fn.site(), extra)
        else:
            ctx.holds('C06.S6', '%s reads only the per-asset bid/ask frames and other construction-time data' % qn, fn.site())


_cols = {}


def converter_columns(ctx):
    if 'c' in _cols and _cols.get('m') is ctx.M:
        return _cols['c']
    cols = set()
    # every column some path of the converter (helpers included) writes by subscript or adds with .assign(...)
    for p in normal(summarise(ctx, 'CSVDailyBarDataSource._convert_bar_frame_into_bid_ask_df', policy=default_policy)):
        for w in heap_writes(p):
            if w.loc[0] == 'sub' and w.loc[2][0] == 'str':
                cols.add(w.loc[2][1])
        for t in ([p.value] if p.value is not None else []) + [w.value for w in heap_writes(p) if w.value is not None]:
            for s in T.subterms(t):
                if s[0] == 'call' and s[1] == ('meth', 'assign'):
                    cols |= {k for k, _ in s[3] if k}
                # a frame built whole: pandas.DataFrame(rows, columns=[...]) / pandas.DataFrame({'col': ...})
                if s[0] == 'call' and s[1][0] in ('fn', 'ext') and s[1][1].endswith('DataFrame'):
                    for k, x in s[3]:
                        if k == 'columns' and x[0] in ('list', 'tuple'):
                            cols |= {e[1] for e in x[1] if e[0] == 'str'}
                    if s[2] and s[2][0][0] == 'dict':
                        cols |= {kv[0][1] for kv in s[2][0][1] if isinstance(kv, tuple) and kv and isinstance(kv[0], tuple) and kv[0][0] == 'str'}
    _cols['c'], _cols['m'] = cols, ctx.M
    return cols


# --------------------------------------------------------------------------------------------- S3, S4, S5
def converter(ctx):
    qn = 'CSVDailyBarDataSource._convert_bar_frame_into_bid_ask_df'
    fn = ctx.fn(qn)
    ps = summarise(ctx, qn, policy=default_policy)
    nps = normal(ps)
    ctx.floor('C06.S3', 'normal paths of the bar -> bid/ask converter', len(nps), 2)
    for p in nps:
        v = p.value
        ops = chain_ops(v)
        names = op_names(ops)
        tag = cond_str(p)[:50]
        pipeline_known = ops[0][1] == V('bar_df')
        if not pipeline_known:
            # the frame travels through helper objects / records this rule does not read: the order of the pandas steps is not claimed either way
            ctx.undecided('C06.S3', 'the converter is one pandas pipeline starting at the bar frame [%s]' % tag, fn.site(), 'chain root %s, steps %s' % (fmt(ops[0][1])[:60], names[:5]))
        else:
            ctx.require(len(names) > 1 and names[0] == 'sort_index', 'C06.S3', 'the bar frame is sorted by date before anything else [%s]' % tag,
                        fn.site(), names[:4], key='C06.S3|sort-first')
        back = meth_calls_in(p, BACKFILLS)
        fill_kw = [c for c in meth_calls_in(p, {'fillna', 'reindex'}) if any(k == 'method' and x[0] == 'str' and x[1] not in PAD for k, x in c[3])]
        ctx.require(not back and not fill_kw, 'C06.S3', 'missing values are never filled from later rows [%s]' % tag, fn.site(),
                    [fmt(c)[-60:] for c in back + fill_kw], key='C06.S3|no-backfill')
        fills = [i for i, n in enumerate(names) if n in ('ffill', 'pad') or (n == 'fillna')]
        if pipeline_known or fills:
            ctx.require(len(fills) == 1, 'C06.S3', 'missing values are replaced by the previous observation (one forward fill) [%s]' % tag, fn.site(), names,
                        key='C06.S3|ffill')
        # row order at the time of the fill
        if fills:
            before = names[:fills[0]]
            reshape_ok = _subseq(before, ['.T', 'unstack', 'reset_index'])
            un = [o for o in ops if o[0] == 'meth' and o[1] == 'unstack']
            lvl0 = bool(un) and (un[0][3].get('level') == num(0) or (un[0][2] and un[0][2][0] == num(0)))
            bad_reshape = [n for n in before if n in ('melt', 'stack', 'concat', 'append', 'merge', 'join', 'explode', 'sample')]
            sorted_before_fill = any(n in ('sort_values', 'sort_index') for n in before[1:])
            if bad_reshape and not sorted_before_fill:
                ctx.violation('C06.S3', 'rows are in time order when the forward fill runs [%s]' % tag, fn.site(),
                              'reshaped by %s (not time-ordered) and forward-filled before sorting by timestamp: a gap is filled from a later row' % bad_reshape,
                              key='C06.S3|fill-order')
            elif (reshape_ok and lvl0) or sorted_before_fill:
                ctx.holds('C06.S3', 'rows are in time order when the forward fill runs [%s]' % tag, fn.site())
            else:
                ctx.undecided('C06.S3', 'rows are in time order when the forward fill runs', fn.site(), 'unrecognised reshaping before the fill: %s' % before)
        tail = names[fills[0] + 1:] if fills else names
        si = [o for o in ops if o[0] == 'meth' and o[1] == 'set_index']
        ok = bool(si) and si[-1][2][:1] == (('str', 'Date'),) and 'sort_index' in tail and tail.index('sort_index') > tail.index('set_index')
        if not ok and fills and si:
            # indexed and sorted BEFORE the fill, and nothing after the fill re-arranges the rows: the same frame, filled in time order
            head = names[:fills[0]]
            ok = si[-1][2][:1] == (('str', 'Date'),) and 'set_index' in head and 'sort_index' in head and \
                max(i_ for i_, n_ in enumerate(head) if n_ == 'sort_index') > max(i_ for i_, n_ in enumerate(head) if n_ == 'set_index') and \
                not any(n_ in ('concat', 'stack', 'unstack', 'sort_values', 'reindex', 'append', 'melt', 'sample', 'T', 'transpose', 'reset_index', 'iloc', 'loc') for n_ in tail)
        if pipeline_known or si:
            ctx.require(ok, 'C06.S3', 'the frame is indexed by the timestamp column and sorted by it [%s]' % tag, fn.site(), tail, key='C06.S3|index-sorted')
        # S4: Open rows +14:30, Close rows +21:00
        offs = row_offsets(p)
        if not offs and not pipeline_known:
            ctx.undecided('C06.S4', 'open rows are stamped 14:30 and close rows 21:00 [%s]' % tag, fn.site(), 'no per-market offset of the recognised form (Date[Market == label] += offset)')
        else:
            ctx.require(offs == {'Open': (14, 30), 'Close': (21, 0)}, 'C06.S4', 'open rows are stamped 14:30 and close rows 21:00 [%s]' % tag, fn.site(), offs,
                        key='C06.S4|offsets')
        # S5: Bid and Ask are both the Price
        cols = {}
        for w in heap_writes(p):
            if w.loc[0] == 'sub' and w.loc[2][0] == 'str' and w.loc[2][1] in ('Bid', 'Ask'):
                cols[w.loc[2][1]] = w.value
        for o in ops:
            if o[0] == 'meth' and o[1] == 'assign':
                for kname in ('Bid', 'Ask'):
                    if kname in o[3]:
                        cols[kname] = o[3][kname]
        okc = set(cols) == {'Bid', 'Ask'} and all(x[0] == 'sub' and x[2] == ('str', 'Price') for x in cols.values()) and cols['Bid'] == cols['Ask']
        if not cols and not pipeline_known:
            ctx.undecided('C06.S5', 'Bid and Ask are both the bar price [%s]' % tag, fn.site(), 'the Bid/Ask columns are not built by column assignment')
        else:
            ctx.require(okc, 'C06.S5', 'Bid and Ask are both the bar price [%s]' % tag, fn.site(), {k: fmt(x)[-40:] for k, x in cols.items()}, key='C06.S5|bid-ask')
        # adjustment: (Adj Close / Close) * Open and Adj Close, when adjusting
        adj = [w for w in heap_writes(p) if w.loc[0] == 'sub' and w.loc[2] == ('str', 'Adj Open')]
        adjusting = any(fmt(c) == 'self.adjust_prices' and vv for c, vv, _ in p.conds)
        if adjusting:
            # wherever the adjusted open is computed (a column write, an .assign, a table of per-column builders): some term multiplies an Open column by a ratio
            # of the Adj Close and Close columns of the same frame; it must be (Adj Close / Close) x Open
            cands = []
            for t_ in all_terms_of(p):
                for s_ in T.subterms(t_):
                    if s_[0] == 'rat':
                        cols_ = {x_[2][1]: x_[1] for x_ in T.subterms(s_) if x_[0] == 'sub' and x_[2][0] == 'str' and x_[2][1] in ('Open', 'Adj Close', 'Close')}
                        if {'Open', 'Adj Close'} <= set(cols_) and s_ not in cands:
                            cands.append((s_, cols_['Open']))
            okadj = None
            for s_, fr in cands:
                col = lambda c, fr=fr: ('sub', fr, ('str', c))
                if T.teq(s_, T.t_mul(T.t_div(col('Adj Close'), col('Close')), col('Open'))):
                    okadj = True
            if okadj is None and cands:
                okadj = False
            ctx.require(okadj, 'C06.S5', 'adjusted open = (adjusted close / close) x open, row by row', adj[0].site if adj else fn.site(),
                        fmt(cands[0][0])[-220:] if cands else 'no product of an Open column with an adjustment ratio was found', key='C06.S5|adjust')
            ren = [w for w in heap_writes(p) if w.loc[0] == 'attr' and w.loc[2] == 'columns' and w.value == ('list', (('str', 'Open'), ('str', 'Close')))]
            want = ('list', (('str', 'Adj Open'), ('str', 'Adj Close')))
            sel = [o for o in ops if o[0] == 'sub' and ((o[1][0] == 'tuple' and len(o[1][1]) == 2 and o[1][1][1] == want) or o[1] == want)]
            if not pipeline_known and not sel:
                # the selection happens in a helper whose result is re-assembled later: look for it anywhere on the path
                sel = [s_ for t_ in all_terms_of(p) for s_ in T.subterms(t_) if s_[0] == 'sub' and ((s_[2][0] == 'tuple' and len(s_[2][1]) == 2 and s_[2][1][1] == want) or s_[2] == want)][:1]
            if ren or sel or pipeline_known:
                ctx.require(len(ren) == 1 and len(sel) == 1, 'C06.S5', 'adjusted open/close replace open/close in that order', fn.site(), key='C06.S5|adjust-cols')
            else:
                ctx.undecided('C06.S5', 'adjusted open/close replace open/close in that order', fn.site(), 'no column renaming of the recognised form')
        else:
            ctx.require(not adj, 'C06.S5', 'no adjustment when adjust_prices is off', fn.site(), key='C06.S5|no-adjust')
        # the open/close frame written out column by column - pd.DataFrame({'Open': o, 'Close': c}): which columns of the bar frame they are
        built = [s_ for t_ in all_terms_of(p) for s_ in T.subterms(t_) if s_[0] == 'call' and s_[1] == ('ext', 'pandas.DataFrame') and len(s_[2]) == 1 and s_[2][0][0] == 'dict'
                 and {k_ for k_, _ in s_[2][0][1]} == {('str', 'Open'), ('str', 'Close')}]
        built = [b_ for i_, b_ in enumerate(built) if b_ not in built[:i_]]
        if len(built) == 1:
            from ..lib import read_marker
            cd_ = dict(built[0][2][0][1])
            o_, c_ = cd_[('str', 'Open')], cd_[('str', 'Close')]
            fr_ = c_[1] if c_[0] == 'sub' and c_[2][0] == 'str' else None
            what_ = 'the open/close frame holds %s' % ('(adjusted close / close) x open and the adjusted close' if adjusting else 'the bar\'s own open and close')
            if fr_ is None:
                ctx.undecided('C06.S5', what_ + ' [%s]' % tag, fn.site(), 'Close column is %s' % fmt(c_)[:100])
            else:
                col = lambda name_: ('sub', fr_, ('str', name_))
                if adjusting:
                    good = c_ == col('Adj Close') and T.teq(o_, T.t_mul(T.t_div(col('Adj Close'), col('Close')), col('Open')))
                else:
                    good = c_ == col('Close') and o_ == col('Open')
                ctx.require(good, 'C06.S5', what_ + ' [%s]' % tag, fn.site(), '%sOpen: %s; Close: %s' % (read_marker(ctx, p), fmt(o_)[:120], fmt(c_)[:80]), key='C06.S5|columns')
        ctx.sample({'rule': 'C06.S3', 'path': tag, 'pipeline': names})
    # the converter is applied to every loaded frame, once, in __init__
    # the per-asset quote data the accessors were seen to query (the frames dict, or whatever field replaced it) is built at construction and never rebound
    for fld in sorted(FIELDS_USED or {'asset_bid_ask_frames'}):
        ws = [w for w in writers_of_attr(ctx.M, fld, owner='CSVDailyBarDataSource') if w.how.startswith('assign:field')]
        cls_ = ctx.cls('CSVDailyBarDataSource')
        ok = bool(ws) and all(w.fn.cls is not None and w.fn.cls.name in ctx.M.owner_family('CSVDailyBarDataSource') and (w.fn.name == '__init__' or ctx.M.ctor_only(w.fn)) for w in ws)
        if not ws:
            ctx.undecided('C06.S6', 'the per-asset quote data (%s) are built once, in the constructor' % fld, None, 'no direct assignment of the field found')
        else:
            ctx.require(ok, 'C06.S6', 'the per-asset quote data (%s) are built once, in the constructor' % fld, ws[0].where, [w.fn.qn for w in ws], key='C06.S6|frames-writer')


def _subseq(seq, pat):
    i = 0
    for x in seq:
        if i < len(pat) and x == pat[i]:
            i += 1
    return i == len(pat)


# --------------------------------------------------------------------------------------------- S6
def confinement(ctx):
    M = ctx.M
    c = ctx.cls('CSVDailyBarDataSource')
    ctx.require('__eq__' not in c.methods and '__hash__' not in c.methods, 'C06.S6', 'the memoised data source keeps identity equality (the lru_cache is keyed by the instance)',
                c.methods['__eq__'].site() if '__eq__' in c.methods else (c.methods['__hash__'].site() if '__hash__' in c.methods else None),
                'value-based __eq__/__hash__ makes two sources with different contents share memoised prices', key='C06.S6|identity')
    reach = M.reachable(['CSVDailyBarDataSource.get_bid', 'CSVDailyBarDataSource.get_ask'])
    for fn, n in reads_of_attr(M, 'asset_bar_frames'):
        ctx.require(fn.qn not in reach, 'C06.S6', 'price queries never read the raw bars (%s)' % fn.qn, fn.site(n), key='C06.S6|raw-bars|%s' % fn.qn)
    # frames never mutated through an alias after construction
    for fn in M.all_funcs():
        if fn.cls is None or fn.cls.name != 'CSVDailyBarDataSource' or fn.name in ('__init__', '_convert_bars_into_bid_ask_dfs', '_convert_bar_frame_into_bid_ask_df'):
            continue
        al = set()
        for n in ast.walk(fn.node):
            if isinstance(n, ast.Assign) and len(n.targets) == 1 and isinstance(n.targets[0], ast.Name):
                v = n.value
                while isinstance(v, ast.Subscript):
                    v = v.value
                if isinstance(v, ast.Attribute) and v.attr == 'asset_bid_ask_frames':
                    al.add(n.targets[0].id)
        for n in ast.walk(fn.node):
            tg = None
            if isinstance(n, ast.Assign):
                tg = n.targets
            elif isinstance(n, ast.AugAssign):
                tg = [n.target]
            for t in tg or []:
                b = t
                while isinstance(b, (ast.Subscript, ast.Attribute)):
                    b = b.value
                if isinstance(t, (ast.Subscript, ast.Attribute)) and isinstance(b, ast.Name) and b.id in al:
                    ctx.violation('C06.S6', 'the bid/ask frames are immutable after construction', fn.site(n), 'written through alias %s in %s' % (b.id, fn.qn),
                                  key='C06.S6|alias-write|%s' % fn.qn)
            if isinstance(n, ast.Call) and isinstance(n.func, ast.Attribute):
                kws = {k.arg: k.value for k in n.keywords}
                if 'inplace' in kws and isinstance(kws['inplace'], ast.Constant) and kws['inplace'].value:
                    b = n.func.value
                    while isinstance(b, (ast.Subscript, ast.Attribute)):
                        b = b.value
                    if isinstance(b, ast.Name) and b.id in al:
                        ctx.violation('C06.S6', 'the bid/ask frames are immutable after construction', fn.site(n), 'inplace operation through alias %s' % b.id,
                                      key='C06.S6|alias-inplace|%s' % fn.qn)
    ctx.holds('C06.S6', 'alias-write scan over CSVDailyBarDataSource methods', None)


def handler(ctx):
    for qn, src in (('BacktestDataHandler.get_asset_latest_bid_price', 'get_bid'), ('BacktestDataHandler.get_asset_latest_ask_price', 'get_ask')):
        fn = ctx.fn(qn)

        def own_helpers(caller, callee, depth, _p=fn.path):
            # helpers of the handler's own module are seen through (a shared 'first valid price' routine); the data sources stay opaque calls
            return depth <= 4 and callee.path == _p and callee.name.startswith('_') and not callee.name.startswith('__')
        ps = summarise(ctx, qn, policy=own_helpers)
        got = False
        from ..lib import memo_tables
        memos = memo_tables(ctx, fn, ps)
        for m_, vd in list(memos.items()):
            from ..lib import _stored_without
            if vd[0] == 'unsound' and fn.cls is not None and _stored_without(fn, m_, vd[2]):
                # the entries are filed by a helper that is not handed the timestamp: what is stored (whole arrays) cannot vary with it
                ctx.undecided('C06.S6', '%s answers from its memo %s only what it would ask the data sources afresh' % (qn, m_), fn.site(),
                              'entries of %s are filed by a helper that does not receive %s: the stored value cannot depend on it; the look-up made in the stored arrays is not read here'
                              % (m_, ', '.join(str(x_) for x_ in vd[2])))
                memos = dict(memos)
                memos[m_] = ('other', 'filed without the question')
                continue
            if vd[0] == 'unsound':
                ctx.violation('C06.S6', '%s answers from its memo %s only what it would ask the data sources afresh' % (qn, m_), fn.site(),
                              'the memo is keyed by %s but the stored value also depends on %s%s: a later query with another %s is answered with the remembered price'
                              % (fmt(vd[1]), vd[2], (' (%s)' % vd[3]) if len(vd) > 3 else '', '/'.join(vd[2])), key='C06.S6|%s|memo-key' % qn)
            elif vd[0] == 'sound':
                ctx.holds('C06.S6', '%s: memo %s is keyed by (or emptied on a change of) everything its entries depend on (%s)' % (qn, m_, fmt(vd[1])), fn.site())
        sound = {m_ for m_, vd in memos.items() if vd[0] == 'sound'}
        unsound = {m_ for m_, vd in memos.items() if vd[0] == 'unsound'}
        from ..lib import set_memos
        seen_sm = set()
        for fld_, K_, miss_, site_, cond_ in set_memos(ctx, fn, ps):
            if (fld_, site_) in seen_sm:
                continue
            seen_sm.add((fld_, site_))
            ctx.violation('C06.S6', '%s skips a data source only for what holds at every instant' % qn, site_,
                          'self.%s remembers %s when [%s], a fact about this %s, and consults it for every later %s: one query before the first bar and the source is never asked again'
                          % (fld_, fmt(K_)[:60], cond_, '/'.join(miss_), '/'.join(miss_)), key='C06.S6|%s|neg-cache|%s' % (qn, fld_))
        for p in ps:
            if p.outcome != 'return':
                continue
            v = p.value
            if v == NAN or v[0] == 'havoc':
                continue
            if v[0] == 'sub' and v[1][0] == 'attr' and v[1][1] == V('self') and v[1][2] in sound | unsound:
                continue        # a hit of the memo: equals the miss that filled the entry when the memo is sound (judged above)
            # (the accessor may be declared by a base class or protocol of the data sources)
            src_cls = ctx.cls('CSVDailyBarDataSource')
            src_qns = {'CSVDailyBarDataSource.' + src} | {k_.name + '.' + src for k_ in (src_cls.mro() if src_cls is not None else [])} | \
                {c_.name + '.' + src for c_ in ctx.M.classes.values() if src in c_.methods and src_cls is not None and (c_ in src_cls.mro() or src_cls in c_.mro())}
            ok = v[0] == 'call' and v[1][0] == 'fn' and set(v[1][1].split('|')) <= src_qns and v[2][1:] == (V('dt'), V('asset_symbol'))
            mentions = any(s_[0] == 'call' and s_[1][0] == 'fn' and s_[1][1].endswith('.' + src) for s_ in T.subterms(v))
            if not ok and not mentions:
                # the answer reaches the caller by a route this rule does not read (a generator of quotes consumed by next(), ...): nothing is claimed
                ctx.undecided('C06.S6', '%s returns a data source\'s %s(dt, asset) unmodified [%s]' % (qn, src, cond_str(p)[:50]), fn.site(), fmt(v)[:160])
                got = got or None
                continue
            ctx.require(ok, 'C06.S6', '%s returns a data source\'s %s(dt, asset) unmodified [%s]' % (qn, src, cond_str(p)[:50]), fn.site(), fmt(v)[:160],
                        key='C06.S6|%s|value' % qn)
            got = got or ok
            if ok:
                # the answer is accepted exactly when it is not NaN (a missing value falls through to the next source / NaN)
                tested = None
                for c, val, _ in p.conds:
                    if c == ('call', ('ext', 'ISNAN'), (v,), ()):
                        tested = (val is False)
                    elif c[0] == 'cmp' and v in (c[2], c[3]) and NAN in (c[2], c[3]):
                        tested = 'identity'
                if tested == 'identity':
                    ctx.violation('C06.S6', '%s accepts a source value iff it is not NaN' % qn, fn.site(),
                                  'the value is compared with np.nan by identity/equality: a NaN read from a frame is a different object and is returned as a price',
                                  key='C06.S6|%s|nan-test' % qn)
                else:
                    ctx.require(tested is True, 'C06.S6', '%s accepts a source value iff it is not NaN' % qn, fn.site(), cond_str(p)[:160], key='C06.S6|%s|nan-test' % qn)
        if got is None:
            pass
        else:
            ctx.require(got, 'C06.S6', '%s derives its answer from the data sources' % qn, fn.site(), key='C06.S6|%s|derives' % qn)
        for p in ps:
            for e in p.flat_events():
                if e.kind == 'call' and any(c.endswith('.' + src) for c in e.callee):
                    ctx.require(e.args.get('dt') == V('dt'), 'C06.S6', '%s passes its own dt to the data source' % qn, e.site, fmt(e.args.get('dt') or T.ZERO), key='C06.S6|%s|dt' % qn)


def row_offsets(p):
    """{'Open': (h, m), 'Close': (h, m)}: the time added to the Date of the rows selected by Market == <label> (`+=` or `x = x + ...`)"""
    from ..lib import delta
    offs = {}
    for w in heap_writes(p):
        if w.how not in ('aug', 'assign'):
            continue
        d = delta(w)
        if d is None:
            continue
        tod = time_of_day(d)
        if tod is None:
            continue
        label = None
        for s in T.subterms(w.loc):
            if s[0] == 'cmp' and s[1] == '==' and (s[2][0] == 'str' or s[3][0] == 'str'):
                label = s[2][1] if s[2][0] == 'str' else s[3][1]
        if label is not None:
            offs[label] = tod
    return offs


def bid_ask_columns(ctx):
    """per normal path of the converter: {'Bid': term, 'Ask': term} as built by subscript assignment or .assign(...)"""
    qn = 'CSVDailyBarDataSource._convert_bar_frame_into_bid_ask_df'
    out = []
    for p in normal(summarise(ctx, qn, policy=default_policy)):
        cols = {}
        for w in heap_writes(p):
            if w.loc[0] == 'sub' and w.loc[2][0] == 'str' and w.loc[2][1] in ('Bid', 'Ask'):
                cols[w.loc[2][1]] = w.value
        for o in chain_ops(p.value):
            if o[0] == 'meth' and o[1] == 'assign':
                for kname in ('Bid', 'Ask'):
                    if kname in o[3]:
                        cols[kname] = o[3][kname]
        out.append(cols)
    return out
