"""C03 - position P&L reconciles to the cash flows of its fills (DESIGN C03: S1 identities per sign case, S2 accumulators, S3 re-marking)."""
from .. import terms as T
from ..lib import summarise, heap_writes, delta, same, V, A, normal, cond_str, inline_all, loc_attr
from ..symex import Undecided, default_policy
from ..terms import fmt, ZERO, num, rat, R

F = lambda a: A('self', a)
b, s, ab, as_, bc, sc, cp = (F(x) for x in ('buy_quantity', 'sell_quantity', 'avg_bought', 'avg_sold', 'buy_commission', 'sell_commission', 'current_price'))
NET = T.t_sub(b, s)

# sign cases of the running position: sign of the net quantity x whether the opposite side was ever traded
CASES = {
    'long, some sells': dict(sign='+', empty=False),
    'long, no sells': dict(sign='+', empty=True),
    'short, some buys': dict(sign='-', empty=False),
    'short, no buys': dict(sign='-', empty=True),
    'flat': dict(sign='0', empty=False),
}


def oracle_for(case):
    sign, empty = case['sign'], case['empty']

    def orc(t, st=None):
        if t[0] != 'cmp':
            return None
        op, x, y = t[1], t[2], t[3]
        # comparisons of the net quantity with zero
        for lhs, rhs, flip in ((x, y, False), (y, x, True)):
            if rhs == ZERO and (T.teq(lhs, NET)):
                rel = {'+': '>', '-': '<', '0': '='}[sign]          # net ? 0
                if flip:
                    rel = {'>': '<', '<': '>', '=': '='}[rel]         # 0 ? net
                return {'<': rel == '<', '<=': rel in '<=', '==': rel == '='}.get(op)
            if rhs == ZERO and T.teq(lhs, T.t_neg(NET)):
                rel = {'+': '<', '-': '>', '0': '='}[sign]
                if flip:
                    rel = {'>': '<', '<': '>', '=': '='}[rel]
                return {'<': rel == '<', '<=': rel in '<=', '==': rel == '='}.get(op)
        # direction == +-1 spelled through copysign / sign
        for lhs, rhs in ((x, y), (y, x)):
            if lhs[0] == 'call' and lhs[1] in (('ext', 'COPYSIGN'), ('ext', 'SIGN')) and rhs[0] == 'num' and op == '==':
                arg = lhs[2][-1]
                if T.teq(arg, NET):
                    d = {'+': 1, '-': -1, '0': 1}[sign]
                    return rhs[1] == d
        # the opposite side is empty
        for lhs, rhs in ((x, y), (y, x)):
            if rhs == ZERO and op == '==':
                if lhs == s:
                    return (sign == '+' and empty) or False if sign != '0' else False
                if lhs == b:
                    return (sign == '-' and empty) or False if sign != '0' else False
        return None
    return orc


def substitution(case):
    sign, empty = case['sign'], case['empty']
    if sign == '+' and empty:
        return {s: ZERO, sc: ZERO, as_: ZERO}
    if sign == '-' and empty:
        return {b: ZERO, bc: ZERO, ab: ZERO}
    if sign == '0':
        return {s: b}
    return {}


def sub(t, m):
    return T.replace(t, lambda x: m.get(x)) if m else t


def check(ctx):
    from ..lib import discarded_results
    ctx.sub(discarded_results, 'C03.S4', ('qstrader/broker/portfolio/',), 'P&L figures are computed from the values the code actually updated')
    ctx.sub(s1_identities)
    ctx.sub(s2_accumulators)
    ctx.sub(s3_remark)
    ctx.sub(s4_aggregates)
    from . import c02
    ctx.sub(c02.refused_fill, 'C03.S2')       # reported P&L reflects accepted fills only
    ctx.sub(c02.s3_presence)                  # a position that still carries exposure stays in the table its P&L is summed from (and a flat one leaves it)
    ctx.sub(c02.s3_presence_through)


def reads_through(caller, callee, depth):
    """the P&L figures are functions of the position's state: every read-only step of the position module (a breakdown method, a record's property) is part of the formula"""
    from ..symex import _writes_self
    if default_policy(caller, callee, depth):
        return True
    return depth <= 6 and callee.path.endswith('portfolio/position.py') and callee.name != '__init__' and not _writes_self(callee)


_CACHE_DONE = set()


def single(ctx, prop, orc, case):
    ps = summarise(ctx, 'Position.' + prop, policy=reads_through, oracle=orc)
    if any(p.outcome != 'return' for p in ps) or not ps or len(ps) > 8:
        ctx.undecided('C03.S1', '%s returns a figure on every path in case "%s"' % (prop, case), ctx.fn('Position.' + prop).site(),
                      'paths: %s' % [p.describe()[:120] for p in ps][:4])
        return None
    from ..lib import split_cache_paths, cache_invalidation
    misses, hits, caches = split_cache_paths(ctx, ctx.fn('Position.' + prop), ps)
    if caches and hits:
        # the figure is kept once computed: the identities are decided on the computing paths; that a kept figure is still current is the invalidation clause
        key_ = ('cache', prop)
        if key_ not in _CACHE_DONE:
            _CACHE_DONE.add(key_)
            cache_invalidation(ctx, 'C03.S1', ctx.cls('Position'), caches, 'a kept P&L figure (%s) is dropped whenever the state it was computed from changes' % prop)
        cache_locs = {c_[0] for c_ in caches}
        ps = misses
        for p in ps:
            if any(e.kind == 'write' and not e.d.get('local') and e.loc not in cache_locs for e in p.flat_events()):
                ctx.violation('C03.S1', '%s is a pure read (case "%s")' % (prop, case), ctx.fn('Position.' + prop).site(), key='C03.S1|pure|%s' % prop)
        if not ps:
            return None
        return [(frozenset((c, v) for c, v, _ in p.conds if not any(s_ in cache_locs for s_ in T.subterms(c))), p.value) for p in ps]
    for p in ps:
        if any(e.kind == 'write' and not e.d.get('local') for e in p.flat_events()):
            ctx.violation('C03.S1', '%s is a pure read (case "%s")' % (prop, case), ctx.fn('Position.' + prop).site(), key='C03.S1|pure|%s' % prop)
    # residual conditions (not decided by the sign case) split the case further: the identities must hold on every consistent combination
    return [(frozenset((c, v) for c, v, _ in p.conds), p.value) for p in ps]


def consistent(*condsets):
    seen = {}
    for cs in condsets:
        for c, v in cs:
            if seen.setdefault(c, v) != v:
                return False
    return True


def s1_identities(ctx):
    spec_total = T.t_sub(T.t_sub(T.t_sub(T.t_add(T.t_mul(cp, NET), T.t_mul(as_, s)), T.t_mul(ab, b)), bc), sc)
    n = 0
    for cname, case in CASES.items():
        orc = oracle_for(case)
        m = substitution(case)
        tot = single(ctx, 'total_pnl', orc, cname)
        rea = single(ctx, 'realised_pnl', orc, cname)
        unr = single(ctx, 'unrealised_pnl', orc, cname)
        avg = single(ctx, 'avg_price', orc, cname)
        if None in (tot, rea, unr, avg):
            continue
        n += 1
        combos = [(a, b_, c_, d_) for a in tot for b_ in rea for c_ in unr for d_ in avg if consistent(a[0], b_[0], c_[0], d_[0])]
        for (ca, tot1), (cb, rea1), (cc, unr1), (cd, avg1) in combos:
            extra = sorted(set(('' if v else 'not ') + fmt(c) for c, v in ca | cb | cc | cd))
            s1_case(ctx, cname + (' & ' + ' & '.join(extra) if extra else ''), case, m, tot1, rea1, unr1, avg1)
    ctx.floor('C03.S1', 'sign cases decided', n, 5)
    s1_reads(ctx)


def s1_case(ctx, cname, case, m, tot, rea, unr, avg):
        spec_total = T.t_sub(T.t_sub(T.t_sub(T.t_add(T.t_mul(cp, NET), T.t_mul(as_, s)), T.t_mul(ab, b)), bc), sc)
        where = ctx.fn('Position.total_pnl').site()
        ok1 = T.teq(sub(tot, m), sub(T.t_add(rea, unr), m))
        ctx.require(ok1, 'C03.S1', 'total P&L = realised + unrealised (case: %s)' % cname, where,
                    'total=%s realised=%s unrealised=%s' % (fmt(tot), fmt(rea), fmt(unr)), key='C03.S1|split|%s' % cname)
        ok2 = T.teq(sub(tot, m), sub(spec_total, m))
        ctx.require(ok2, 'C03.S1', 'total P&L = market value - sum(price*signed quantity) - commissions (case: %s)' % cname, ctx.fn('Position.realised_pnl').site(),
                    'total=%s expected=%s' % (fmt(sub(tot, m)), fmt(sub(spec_total, m))), key='C03.S1|ledger|%s' % cname)
        if case['sign'] == '+':
            avg_spec = T.t_div(T.t_add(T.t_mul(ab, b), bc), b)
        elif case['sign'] == '-':
            avg_spec = T.t_div(T.t_sub(T.t_mul(as_, s), sc), s)
        else:
            avg_spec = None
        if avg_spec is not None:
            ctx.require(T.teq(avg, avg_spec), 'C03.S1', 'average cost carries the open side\'s commission (case: %s)' % cname,
                        ctx.fn('Position.avg_price').site(), 'avg_price=%s expected=%s' % (fmt(avg), fmt(avg_spec)), key='C03.S1|avg|%s' % cname)
            un_spec = T.t_mul(T.t_sub(cp, avg_spec), NET)
            ctx.require(T.teq(unr, un_spec), 'C03.S1', 'unrealised = (current price - average cost) x net quantity (case: %s)' % cname,
                        ctx.fn('Position.unrealised_pnl').site(), 'unrealised=%s expected=%s' % (fmt(unr), fmt(un_spec)), key='C03.S1|unrealised|%s' % cname)
        else:
            ctx.require(T.teq(sub(unr, m), ZERO), 'C03.S1', 'a flat position has no unrealised P&L', ctx.fn('Position.unrealised_pnl').site(), fmt(unr),
                        key='C03.S1|unrealised|flat')
        ctx.sample({'rule': 'C03.S1', 'case': cname, 'total_pnl': fmt(tot), 'realised': fmt(rea), 'unrealised': fmt(unr)})


def s1_reads(ctx):
    # P&L readers depend on the seven accounting fields only (no cache, no other state)
    allowed = {'buy_quantity', 'sell_quantity', 'avg_bought', 'avg_sold', 'buy_commission', 'sell_commission', 'current_price'}
    for prop in ('total_pnl', 'realised_pnl', 'unrealised_pnl', 'avg_price', 'market_value', 'net_quantity'):
        ps = summarise(ctx, 'Position.' + prop, policy=default_policy)
        # a figure kept once computed: what matters is what the COMPUTING paths read (the kept slot itself is covered by the invalidation clause of S1)
        from ..lib import split_cache_paths
        ps, hits_, caches_ = split_cache_paths(ctx, ctx.fn('Position.' + prop), ps)
        cache_roots = {c_[1] for c_ in caches_} if hits_ else set()
        used = set()
        for p in ps:
            ts = [p.value] if p.value is not None else []
            ts += [c for c, _, _ in p.conds]
            for t in ts:
                for x in T.subterms(t):
                    if x[0] == 'attr' and x[1] == V('self'):
                        used.add(x[2])
        extra = used - allowed - cache_roots
        ctx.require(not extra, 'C03.S1', '%s reads only the fill accumulators and the current price' % prop, ctx.fn('Position.' + prop).site(),
                    'also reads %s' % sorted(extra), key='C03.S1|reads|%s' % prop)


def sign_of(term, conds):
    """signs (subset of {'neg','zero','pos'}) `term` can take under the path conditions that compare it - or a rounding of it (int, floor, ceil, trunc) - with zero;
    tested = some condition did.  A rounding r(x) is > 0 only for x > 0 and < 0 only for x < 0; r(x) != 0 excludes x == 0."""
    def core_of(o):
        core, wrapped = o, False
        while core[0] == 'call' and core[1] in (('ext', 'INT'), ('ext', 'FLOOR'), ('ext', 'TRUNC'), ('ext', 'CEIL')) and len(core[2]) == 1:
            core, wrapped = core[2][0], True
        return core, wrapped
    signs, wsigns, tested = {'neg', 'zero', 'pos'}, {'neg', 'zero', 'pos'}, False
    for c, v, _ in conds:
        if c[0] != 'cmp' or ZERO not in (c[2], c[3]):
            continue
        a_, b2 = c[2], c[3]
        o = b2 if a_ == ZERO else a_
        core, wrapped = core_of(o)
        if not T.teq(core, term):
            continue
        sel = None
        if c[1] in ('<', '<=') and a_ == ZERO:
            sel = {'pos'} if c[1] == '<' else {'zero', 'pos'}
        elif c[1] in ('<', '<=') and b2 == ZERO:
            sel = {'neg'} if c[1] == '<' else {'neg', 'zero'}
        elif c[1] == '==':
            sel = {'zero'}
        if sel is None:
            continue
        tested = True
        eff = sel if v else ({'neg', 'zero', 'pos'} - sel)
        if wrapped:
            wsigns &= eff
        else:
            signs &= eff
    if wsigns == {'pos'}:
        signs &= {'pos'}
    elif wsigns == {'neg'}:
        signs &= {'neg'}
    elif 'zero' not in wsigns:
        signs -= {'zero'}
    return signs, tested


def s2_accumulators(ctx):
    """Anchored on the public Position.transact with its private steps read through (one helper per side, one table-driven helper, inline code - all the same):
    a buy adds (q, q x price, commission) to the buy side, a sell adds (|q|, |q| x price, commission) to the sell side, and nothing else of the six accumulators moves."""
    tx = V('transaction')
    q, price, com = A(tx, 'quantity'), A(tx, 'price'), A(tx, 'commission')
    fn = ctx.fn('Position.transact')

    def own(caller, callee, depth):
        return depth <= 6 and (default_policy(caller, callee, depth) or (callee.path == fn.path and callee.name.startswith('_') and not callee.name.startswith('__')))
    try:
        ps = summarise(ctx, fn, policy=own)
    except Undecided as u:
        ctx.undecided('C03.S2', 'Position.transact updates one side\'s accumulators per fill', fn.site(), str(u)[:160])
        ps = []
    ACC = {'buy': ('avg_bought', 'buy_quantity', 'buy_commission'), 'sell': ('avg_sold', 'sell_quantity', 'sell_commission')}
    decided = {'buy': 0, 'sell': 0}
    for p in normal(ps):
        touched = [w for w in heap_writes(p) if loc_attr(w.loc) in ACC['buy'] + ACC['sell']]
        if not touched:
            continue
        signs, tested = sign_of(q, p.conds)
        side = 'buy' if tested and signs == {'pos'} else ('sell' if tested and signs == {'neg'} else None)
        if side is None:
            ctx.undecided('C03.S2', 'a path of Position.transact that moves the accumulators is a buy (quantity > 0) or a sell (quantity < 0)', fn.site(), cond_str(p)[:160])
            continue
        amount = q if side == 'buy' else T.t_neg(q)
        avg, qty, cm = ACC[side]
        other = ACC['sell' if side == 'buy' else 'buy']
        tag = '%s [%s]' % (side, cond_str(p)[:60])
        others = [w for w in touched if loc_attr(w.loc) in other]
        ctx.require(not others, 'C03.S2', 'a %s writes only its own side\'s accumulators' % side, others[0].site if others else fn.site(),
                    [fmt(w.loc) for w in others], key='C03.S2|%s|others' % side)
        wa, wq, wc = heap_writes(p, avg), heap_writes(p, qty), heap_writes(p, cm)
        fa, fq = F(avg), F(qty)
        ok = len(wa) >= 1 and T.teq(T.t_mul(wa[-1].value, T.t_add(fq, amount)), T.t_add(T.t_mul(fa, fq), T.t_mul(amount, price)))
        ctx.require(ok, 'C03.S2', 'a %s keeps average x quantity = sum of considerations' % side, wa[-1].site if wa else fn.site(),
                    [fmt(w.value)[:160] for w in wa], key='C03.S2|%s|avg' % side)
        ok = len(wq) >= 1 and T.teq(T.t_sub(wq[-1].value, fq), amount)
        ctx.require(ok, 'C03.S2', 'a %s adds the fill quantity to its side' % side, wq[-1].site if wq else fn.site(), [fmt(w.value)[:120] for w in wq], key='C03.S2|%s|qty' % side)
        ok = len(wc) >= 1 and T.teq(T.t_sub(wc[-1].value, F(cm)), com)
        ctx.require(ok, 'C03.S2', 'a %s adds the fill commission to its side' % side, wc[-1].site if wc else fn.site(), [fmt(w.value)[:120] for w in wc], key='C03.S2|%s|com' % side)
        decided[side] += 1
    for side, n_ in decided.items():
        ctx.floor('C03.S2', '%s paths of Position.transact decided' % side, n_, 1)
    # a new position starts its accumulators from the opening fill
    ps = summarise(ctx, 'Position.open_from_transaction', policy=default_policy)
    for p in normal(ps):
        v = p.value
        if not (v is not None and v[0] == 'new'):
            continue
        f = dict(v[2])
        pos = None
        for c, vv, _ in p.conds:
            if fmt(c) == 'transaction.quantity <= 0':
                pos = not vv
            elif fmt(c) == '0 < transaction.quantity':
                pos = vv
        if pos is None:
            ctx.undecided('C03.S2', 'open_from_transaction branches on the sign of the fill', ctx.fn('Position.open_from_transaction').site(), cond_str(p))
            continue
        price, com, qty = A(tx, 'price'), A(tx, 'commission'), A(tx, 'quantity')
        if pos:
            exp = {'buy_quantity': qty, 'sell_quantity': ZERO, 'avg_bought': price, 'avg_sold': ZERO, 'buy_commission': com, 'sell_commission': ZERO}
        else:
            exp = {'buy_quantity': ZERO, 'sell_quantity': T.t_neg(qty), 'avg_bought': ZERO, 'avg_sold': price, 'buy_commission': ZERO, 'sell_commission': com}
        for k, e in exp.items():
            got_ = f.get(k)
            if got_ is None or got_ == ('var', k) or any(s_[0] in ('havoc',) or (s_[0] == 'call' and (s_[1][0] == 'fn' or s_[1] == ('ext', 'APPLY'))) for s_ in T.subterms(got_)):
                # the new position does not show this accumulator as a field the constructor was handed (kept in a helper object, computed by a callee not read)
                ctx.undecided('C03.S2', 'opening %s fill seeds %s' % ('buy' if pos else 'sell', k), ctx.fn('Position.open_from_transaction').site(),
                              '%s = %s' % (k, fmt(got_) if got_ is not None else 'not a field of the constructed object'))
                continue
            ctx.require(T.teq(f.get(k, ('var', '?')), e), 'C03.S2', 'opening %s fill seeds %s' % ('buy' if pos else 'sell', k),
                        ctx.fn('Position.open_from_transaction').site(), '%s = %s' % (k, fmt(f.get(k, ('var', '?')))), key='C03.S2|open|%s|%s' % (pos, k))


POS = V('@position')


def linear_sum(value, path=None):
    """value == c1*SUM(e1 for .. in positions) + c2*SUM(e2 ..) + ...  ->  (c1*e1 + c2*e2 + ... over one canonical position variable, iterables, filters)
    or None when the value is not a linear combination of sums (sum is linear; nothing else is assumed about it)."""
    r = T.rat(value)
    if r.d != T.p_const(1):
        return None
    total, its, ifs = ZERO, [], []
    for m, c in r.n.items():
        if len(m) != 1 or m[0][1] != 1:
            return None
        a = m[0][0]
        if a[0] == 'sum' and path is not None:
            # an accumulation loop `for x in it: acc += f(x)`: the same thing as sum(f(x) for x in it); a conditional contribution is a filter
            lp = [e for e in path.flat_events() if e.kind == 'loop' and e.id == a[1]]
            if len(lp) != 1 or not lp[0].is_for:
                return None
            it = lp[0].iter
            el = ('elem', it, a[1])
            is_items = it[0] == 'call' and it[1] == ('meth', 'items')
            posv = ('sub', el, num(1)) if is_items else el
            rep = lambda z: POS if z == posv else None
            body = a[2]
            if body[0] == 'ite':
                if body[3] == ZERO:
                    ifs.append(T.replace(body[1], rep))
                    body = body[2]
                elif body[2] == ZERO:
                    ifs.append(T.replace(('not', body[1]), rep))
                    body = body[3]
            total = T.t_add(total, T.t_mul(('num', c), T.replace(body, rep)))
            its.append(fmt(it))
            continue
        if not (a[0] == 'call' and a[1] == ('ext', 'SUM') and len(a[2]) == 1):
            return None
        x = a[2][0]
        if x[0] != 'comp' or len(x[3]) != 1:
            return None
        shape, it, fs = x[3][0]
        posv = shape[-1]
        rep = lambda z: POS if z == posv else None
        total = T.t_add(total, T.t_mul(('num', c), T.replace(x[2], rep)))
        its.append(fmt(it))
        ifs.extend(T.replace(q, rep) for q in fs)
    return total, its, ifs


def main_sum_path(ps, table=A('self', 'positions')):
    """the one path that computes an aggregate: the only path, or - when the code answers an empty table separately - the non-empty one, provided the empty
    one returns 0 (the sum over nothing)"""
    rs = [p for p in ps if p.outcome == 'return']
    if len(ps) == 1 and len(rs) == 1:
        return rs[0]
    if len(ps) == 2 and len(rs) == 2:
        def emptiness(p):
            if len(p.conds) != 1:
                return None
            c, v, _ = p.conds[0]
            if c == table:
                return not v
            from ..lib import as_len_test
            t = as_len_test(c, v)
            if t is not None and t[0] == table:
                return t[1] == 'empty'
            return None
        es = [emptiness(p) for p in rs]
        if sorted(es, key=str) == [False, True]:
            empty, full = (rs[0], rs[1]) if es[0] else (rs[1], rs[0])
            if empty.value == ZERO:
                return full
    return None


def s4_aggregates(ctx):
    """Portfolio.total_pnl / total_realised_pnl / total_unrealised_pnl are the sums of the per-position figures over every open position."""
    def no_props(caller, callee, depth):
        if callee.is_property or depth > 5:
            return False
        # helpers of the handler / portfolio themselves (a shared totals() step, a lookup helper) are read through; the tabled total_* figures stay calls
        own = callee.cls is not None and callee.cls.name in ('PositionHandler', 'Portfolio') and not callee.name.startswith('total_') and callee.name != '__init__'
        return default_policy(caller, callee, depth) or own
    P = lambda a: A(POS, a)
    expected = {'total_pnl': [P('total_pnl'), T.t_add(P('realised_pnl'), P('unrealised_pnl'))],
                'total_realised_pnl': [P('realised_pnl'), T.t_sub(P('total_pnl'), P('unrealised_pnl'))],
                'total_unrealised_pnl': [P('unrealised_pnl'), T.t_sub(P('total_pnl'), P('realised_pnl'))]}
    n = 0
    for name, exps in expected.items():
        qn = 'PositionHandler.' + name
        fn = ctx.fn(qn)
        ps = summarise(ctx, qn, policy=no_props)
        mp = main_sum_path(ps)
        if mp is None:
            ctx.undecided('C03.S4', '%s has one path' % qn, fn.site(), [cond_str(p) for p in ps][:4])
            continue
        nps = [mp]
        ls = linear_sum(nps[0].value, nps[0]) if nps[0].value != ZERO else (ZERO, [], [])
        if ls is None:
            ctx.undecided('C03.S4', '%s is a linear combination of sums over the positions' % qn, fn.site(), fmt(nps[0].value)[:200])
            continue
        n += 1
        total, its, ifs = ls
        ctx.require(all(i in ('self.positions.items()', 'self.positions.values()', 'self.positions', 'self.positions.keys()') for i in its) and its, 'C03.S4', '%s ranges over every open position' % qn, fn.site(),
                    'iterates %s' % its, key='C03.S4|%s|iter' % name)
        ctx.require(not ifs, 'C03.S4', '%s skips no position' % qn, fn.site(), [fmt(q) for q in ifs], key='C03.S4|%s|filter' % name)
        ctx.require(any(T.teq(total, e) for e in exps), 'C03.S4', '%s sums the positions\' %s' % (qn, fmt(exps[0]).split('.')[-1]), fn.site(),
                    'sums %s per position' % fmt(total), key='C03.S4|%s|summand' % name)
        # the portfolio figure is the handler's, unmodified
        pq = 'Portfolio.' + name
        pps = summarise(ctx, pq, policy=no_props)
        ok = len(pps) == 1 and pps[0].outcome == 'return' and pps[0].value == ('call', ('fn', qn), (A('self', 'pos_handler'),), ())
        if not ok and len(pps) == 1 and pps[0].outcome == 'return':
            # spelled out in the portfolio itself
            l2 = linear_sum(pps[0].value)
            ok = l2 is not None and not l2[2] and l2[1] and all(i in ('self.pos_handler.positions.items()', 'self.pos_handler.positions.values()') for i in l2[1]) \
                and any(T.teq(l2[0], e) for e in exps)
        ctx.require(ok, 'C03.S4', '%s is the handler\'s %s over the portfolio\'s own positions' % (pq, name), ctx.fn(pq).site(),
                    [fmt(p.value)[:160] if p.value is not None else p.outcome for p in pps], key='C03.S4|%s|portfolio' % name)
    ctx.floor('C03.S4', 'aggregates decided', n, 3)


def s3_remark(ctx):
    ps = summarise(ctx, 'Position.update_current_price', policy=default_policy)
    for p in ps:
        bad = [w for w in heap_writes(p) if loc_attr(w.loc) not in ('current_price', 'current_dt')]
        # (a field the pinned tree does not have - a revision counter, a kept figure - is not one of the position's accounting fields: how it is kept is judged by
        # the rules about kept state)
        try:
            from ..model import _baseline
            base_ = {f_ for fs_ in (_baseline().get('fields') or {}).values() for f_ in fs_}
            bad = [w for w in bad if loc_attr(w.loc) in base_]
        except Exception:
            pass
        ctx.require(not bad, 'C03.S3', 're-marking writes only the price and the clock [%s]' % cond_str(p), bad[0].site if bad else None,
                    [fmt(w.loc) for w in bad], key='C03.S3|writes')
    ctx.floor('C03.S3', 'paths of update_current_price', len(ps), 2)
    # realised P&L and quantities do not read the mark
    for prop in ('realised_pnl', 'net_quantity'):
        ps = summarise(ctx, 'Position.' + prop, policy=default_policy)
        reads = set()
        for p in ps:
            for t in ([p.value] if p.value is not None else []) + [c for c, _, _ in p.conds]:
                for x in T.subterms(t):
                    if x[0] == 'attr' and x[1] == V('self'):
                        reads.add(x[2])
        ctx.require('current_price' not in reads and 'current_dt' not in reads, 'C03.S3', '%s does not depend on the mark' % prop,
                    ctx.fn('Position.' + prop).site(), sorted(reads), key='C03.S3|reads|%s' % prop)
