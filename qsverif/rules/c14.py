"""C14 - a session trades only at scheduled rebalances after burn-in; equity is daily (DESIGN C14: S1..S5)."""
import ast

from .. import terms as T
from ..lib import (at_construction, summarise, heap_writes, V, A, normal, raising, cond_str, writers_of_attr, calls_named, no_inline, nested_events, loc_attr, chain_ops, op_names,
                   meth_calls_in, props_only)
from ..symex import Valuation, default_policy
from ..terms import fmt, ZERO, num
from . import c02, c07, c16

RUN = 'BacktestTradingSession.run'


def check(ctx):
    from ..lib import discarded_results
    ctx.sub(discarded_results, 'C14.S1', ('qstrader/trading/', 'qstrader/system/'), 'the event loop applies each step to the event it was prepared for')
    ctx.sub(s1_loop_table)
    ctx.sub(c02.mark_loop, 'C14.S1')
    ctx.sub(s2_who_may_trade)
    ctx.sub(c07.exch_at_clock_instants, 'C14.S3')
    ctx.sub(s4_schedule)
    ctx.sub(s5_outputs)
    from . import c12, c13
    ctx.sub(c12.clock_range_rule, 'C14.S5')
    ctx.sub(c13.schedules)          # "runs at exactly those scheduled instants": each instant is a clock event of the same range, else construction never runs
    from . import c18
    ctx.sub(c18.shared_state)       # what is recorded must not hang on the console switch, nor on state that outlives the session


def s1_loop_table(ctx):
    fn = ctx.fn(RUN)
    table = c16.run_loop_table(ctx)
    ctx.floor('C14.S1', 'valuations of the event-loop decision table', len(table), 96)
    el = 'elem(self.sim_engine).ts'
    bad = 0
    by_print = {}
    for v, acts, unknown in table:
        if len(acts) != 1:
            ctx.undecided('C14.S1', 'the event loop of run is decided by (signals, event type, burn-in ordering, schedule membership)', fn.site(),
                          '%s -> %d outcomes; undecided tests: %s' % (v, len(acts), unknown[:4]))
            return
        seq, outcome = acts[0]
        names = [a for a, arg in seq]
        past = v['burn_in'] is None or v['burn_in'] in '=>'
        exp = {'broker.update': 1, 'signals.update': 1 if (v['signals'] and v['event'] == 'market_close') else 0,
               'qts': 1 if (v['rebalance'] and past) else 0, 'equity': 1 if (v['event'] == 'market_close' and past) else 0}
        got = {k: names.count(k) for k in exp}
        key = tuple(sorted((k, x) for k, x in v.items() if k != 'print_events'))
        by_print.setdefault(key, set()).add(tuple(seq))
        if outcome not in ('fall', 'continue'):
            bad += 1
            ctx.violation('C14.S1', 'every event is processed to the end of the loop body', fn.site(), '%s: body ends with %s' % (v, outcome), key='C14.S1|outcome')
            continue
        if got != exp and any(str(u_).startswith('unread:') for u_ in unknown):
            ctx.undecided('C14.S1', 'per event: broker.update once; signals at closes; rebalance iff scheduled and not before burn-in; equity point iff close and not before burn-in',
                          fn.site(), [u_ for u_ in unknown if str(u_).startswith('unread:')][0])
            return
        if got != exp:
            bad += 1
            what = [k for k in exp if got[k] != exp[k]]
            ctx.violation('C14.S1', 'per event: broker.update once; signals at closes; rebalance iff scheduled and not before burn-in; equity point iff close and not before burn-in',
                          fn.site(), 'valuation %s: %s (expected %s)' % (v, {k: got[k] for k in what}, {k: exp[k] for k in what}), key='C14.S1|actions|%s' % '+'.join(sorted(what)))
            continue
        if names and names[0] != 'broker.update':
            bad += 1
            ctx.violation('C14.S1', 'the broker is updated (positions marked, orders filled) before sizing and before the equity sample', fn.site(),
                          'valuation %s: order of actions %s' % (v, names), key='C14.S1|order')
        if any(arg != el for a, arg in seq if arg is not None):
            bad += 1
            ctx.violation('C14.S1', 'every action of an event uses the event\'s own time', fn.site(), str(seq), key='C14.S1|dt')
    for key, seqs in by_print.items():
        if len(seqs) != 1:
            bad += 1
            ctx.violation('C14.S1', 'the print flag does not change what the session does', fn.site(), str(dict(key)), key='C14.S1|print')
    if not bad:
        ctx.holds('C14.S1', 'event-loop decision table agrees with the oracle on all %d valuations' % len(table), fn.site())
    ctx.sample({'rule': 'C14.S1', 'valuations': len(table), 'example': {'valuation': table[5][0], 'actions': [a for a, _ in table[5][1][0][0]]}})
    # qts receives the session's stats collector, whose allocations become target_allocations
    def own_steps(caller, callee, depth):
        # the session's own private steps of the loop (helpers the run is split into) belong to the run; the sampler and the schedule test stay calls
        return depth <= 4 and callee.cls is not None and callee.cls.name in ('BacktestTradingSession', 'TradingSession') and callee.name.startswith('_') \
            and not callee.name.startswith('__') and callee.name not in ('_update_equity_curve', '_is_rebalance_event')
    ps = summarise(ctx, RUN, policy=own_steps)
    for p in normal(ps):
        for e, loops, conds in nested_events(p):
            if e.kind == 'call' and 'QuantTradingSystem.__call__' in e.callee:
                st = e.args.get('stats')
                ok = st is not None and (st[0] == 'dict' or st[0] == 'call')
                ctx.require(st is not None, 'C14.S5', 'the rebalance call records into the session\'s stats', e.site, key='C14.S5|stats-arg')
        ws = [w for w in heap_writes(p, 'target_allocations', into_loops=False)]
        stats_args = [e.args.get('stats') for e, l, c in nested_events(p) if e.kind == 'call' and 'QuantTradingSystem.__call__' in e.callee]
        ok = len(ws) == 1 and len(stats_args) >= 1 and len(set(stats_args)) == 1 and stats_args[0] is not None and stats_args[0][0] == 'dict' and \
            dict(stats_args[0][1]).get(('str', 'target_allocations')) == ws[0].value and ws[0].value == ('list', ())
        ok = ok or (len(ws) == 1 and ws[0].value[0] == 'sub' and ws[0].value[2] == ('str', 'target_allocations'))
        # a statistics record object instead of a dict: the field of the very object handed to every rebalance call
        ok = ok or (len(ws) == 1 and ws[0].value[0] == 'attr' and ws[0].value[2] == 'target_allocations' and len(set(stats_args)) == 1 and ws[0].value[1] == stats_args[0])
        if not ok and stats_args and any(a_ is not None and a_[0] != 'dict' for a_ in stats_args):
            # the statistics travel as an object of their own (a record, a recorder with methods): how what it collected comes back is not read here
            ctx.undecided('C14.S5', 'target_allocations is the list the rebalances recorded into', ws[0].site if ws else ctx.fn(RUN).site(),
                          'stats handed over as %s' % fmt(stats_args[0])[:80])
            continue
        ctx.require(ok, 'C14.S5', 'target_allocations is the list the rebalances recorded into', ws[0].site if ws else ctx.fn(RUN).site(), [fmt(w.value)[:80] for w in ws],
                    key='C14.S5|target-allocations')


def s2_who_may_trade(ctx):
    M = ctx.M
    chain = [('submit_order', {'ExecutionHandler.__call__'}), ('execution_handler', None)]
    for fn, n in calls_named(M, 'submit_order'):
        ctx.require(fn.qn == 'ExecutionHandler.__call__', 'C14.S2', 'orders are submitted only by the execution handler (%s)' % fn.qn, fn.site(n), key='C14.S2|submit|%s' % fn.qn)
    from ..lib import private_closure
    for callee, allowed in (('ExecutionHandler.__call__', {'QuantTradingSystem.__call__'}), ('QuantTradingSystem.__call__', {RUN}),
                            ('PortfolioConstructionModel.__call__', {'QuantTradingSystem.__call__'})):
        # a private step that only the allowed caller uses is part of that caller
        allowed = set(allowed) | private_closure(M, set(allowed))
        sites = M.call_sites(callee)
        ctx.floor('C14.S2', 'call sites of %s' % callee, len(sites), 1)
        for fn, n in sites:
            ctx.require(fn.qn in allowed, 'C14.S2', '%s is invoked only from %s (%s)' % (callee, sorted(allowed, key=lambda q: (q.rsplit('.', 1)[-1].startswith('_') and not q.endswith('__'), q))[0], fn.qn),
                        fn.site(n), key='C14.S2|caller|%s|%s' % (callee, fn.qn))
    # nothing else reaches the broker's mutating API during a run
    # "while the session is set up": the constructor of the session and the private steps (methods or module-level helpers) only it uses
    setup = private_closure(M, {'BacktestTradingSession.__init__'}, same_class=False)
    grown = True
    while grown:
        grown = False
        for g_ in M.funcs.values():
            # a module-level helper of the session module that the package calls from the set-up steps only (whatever its name)
            if g_.qn not in setup and g_.cls is None and g_.path == ctx.fn(RUN).path:
                ss = [c_ for c_, n_ in M.call_sites(g_.qn)]
                if ss and all(c_.qn in setup for c_ in ss):
                    setup.add(g_.qn)
                    grown = True
    for name, allowed in (('subscribe_funds_to_portfolio', setup), ('withdraw_funds_from_portfolio', set()),
                          ('create_portfolio', setup)):
        for fn, n in calls_named(M, name):
            ctx.require(fn.qn in allowed, 'C14.S2', '%s is called only while the session is set up (%s)' % (name, fn.qn), fn.site(n), key='C14.S2|setup|%s|%s' % (name, fn.qn))
    # QTS: the orders executed are the ones the construction model returned
    ps = summarise(ctx, 'QuantTradingSystem.__call__', policy=no_inline)
    for p in normal(ps):
        pc = [e for e in p.flat_events() if e.kind == 'call' and 'PortfolioConstructionModel.__call__' in e.callee]
        ex = [e for e in p.flat_events() if e.kind == 'call' and 'ExecutionHandler.__call__' in e.callee]
        ok = len(pc) == 1 and len(ex) == 1 and ex[0].args.get('rebalance_orders') == pc[0].result and pc[0].args.get('dt') == V('dt') and ex[0].args.get('dt') == V('dt') \
            and pc[0].args.get('stats') == V('stats')
        ctx.require(ok, 'C14.S2', 'a rebalance = one construction call whose orders are executed once, both at dt', ctx.fn('QuantTradingSystem.__call__').site(), key='C14.S2|qts')


def s4_schedule(ctx):
    qn = 'BacktestTradingSession._is_rebalance_event'
    ps = summarise(ctx, qn, policy=no_inline)
    ok = len(ps) == 1 and ps[0].outcome == 'return' and ps[0].value == ('cmp', 'in', V('dt'), A('self', 'rebalance_schedule'))
    # a test that walks the schedule with a position of its own (a cursor kept between events, a loop, a bisect) answers membership only under assumptions about
    # the order of the schedule and of the events: not evaluated here.  A plain expression over dt and the schedule is read, and either is the membership or is not.
    stateful = [s_ for p in ps for t_ in ([p.value] if p.value is not None else []) + [c_ for c_, _, _ in p.conds] for s_ in T.subterms(t_)
                if s_[0] in ('lc', 'sum', 'havoc', 'accum') or (s_[0] == 'attr' and s_[1] == V('self') and s_[2] != 'rebalance_schedule')
                or (s_[0] == 'call' and s_[1][0] == 'ext' and 'bisect' in s_[1][1])]
    if not ok and (stateful or any(heap_writes(p) for p in ps) or any(e_.kind == 'loop' for p in ps for e_ in p.events)):
        ctx.undecided('C14.S4', 'a rebalance fires iff the event time is a member of the schedule', ctx.fn(qn).site(),
                      'the schedule is walked with a position kept between events: %s' % [fmt(p.value)[:100] if p.value else p.outcome for p in ps][:2])
    else:
        ctx.require(ok, 'C14.S4', 'a rebalance fires iff the event time is a member of the schedule', ctx.fn(qn).site(), [fmt(p.value) if p.value else p.outcome for p in ps],
                    key='C14.S4|membership')
    ws = writers_of_attr(ctx.M, 'rebalance_schedule')
    ctx.require(len(ws) == 1 and ws[0].fn.qn == 'BacktestTradingSession.__init__', 'C14.S4', 'the schedule is written once, in the constructor', ws[0].where if ws else None,
                [w.fn.qn for w in ws], key='C14.S4|writer')
    # what the constructor stores as the schedule, with the session's own helpers (methods and module-level factories) read through: for every configured
    # frequency it is the `rebalances` list of a Rebalance object (possibly copied), not a filtered or re-mapped version of it
    from ..symex import Valuation, Undecided
    init = ctx.fn('BacktestTradingSession.__init__')

    def own(caller, callee, depth):
        return depth <= 5 and callee.path == init.path and callee.name != '__init__' and not callee.is_property
    for name in ('buy_and_hold', 'daily', 'weekly', 'end_of_month'):
        try:
            ps = summarise(ctx, init, policy=own, oracle=Valuation(strs={'rebalance': name, 'self.rebalance': name}))
        except Undecided as u:
            ctx.undecided('C14.S4', 'the schedule is the rebalancer\'s schedule, unfiltered [%s]' % name, init.site(), str(u)[:120])
            continue
        for p in normal(ps):
            w = heap_writes(p, 'rebalance_schedule')
            if not w:
                continue
            v = w[-1].value
            while v is not None and v[0] == 'call' and v[1] in (('ext', 'LIST'), ('ext', 'TUPLE'), ('meth', 'copy')) and len(v[2]) == 1 and not v[3]:
                v = v[2][0]
            if v is not None and v[0] == 'attr' and v[2] == 'rebalances' and v[1][0] == 'call':
                ctx.holds('C14.S4', 'the schedule is the rebalancer\'s schedule, unfiltered [%s]' % name, w[-1].site)
            elif v is not None and v[0] == 'comp' and any(g_[2] for g_ in v[3]) and any(s_[0] == 'attr' and s_[2] == 'rebalances' for s_ in T.subterms(v)):
                ctx.violation('C14.S4', 'the schedule is the rebalancer\'s schedule, unfiltered [%s]' % name, w[-1].site, 'filtered: %s' % fmt(v)[:160], key='C14.S4|unfiltered')
            elif v is not None and v[0] == 'sub' and v[2][0] == 'slice' and any(s_[0] == 'attr' and s_[2] == 'rebalances' for s_ in T.subterms(v)):
                ctx.violation('C14.S4', 'the schedule is the rebalancer\'s schedule, unfiltered [%s]' % name, w[-1].site, 'sliced: %s' % fmt(v)[:160], key='C14.S4|unfiltered')
            else:
                ctx.undecided('C14.S4', 'the schedule is the rebalancer\'s schedule, unfiltered [%s]' % name, w[-1].site, fmt(v)[:160] if v else None)
    ws = writers_of_attr(ctx.M, 'burn_in_dt')
    ctx.require(all(at_construction(ctx.M, w, 'burn_in_dt') for w in ws), 'C14.S4', 'the burn-in time is set only by the constructor', ws[0].where if ws else None, key='C14.S4|burn-in')


def s5_outputs(ctx):
    # equity point: whatever the run's private steps are called, every write of the equity curve in the event loop appends (the event's time, account total equity)
    def session_steps(caller, callee, depth):
        return depth <= 5 and callee.cls is not None and callee.cls.name in ('BacktestTradingSession', 'TradingSession') and callee.name.startswith('_') \
            and not callee.name.startswith('__') and callee.name != '_is_rebalance_event'
    eq = ('sub', ('call', ('fn', 'SimulatedBroker.get_account_total_equity'), (A('self', 'broker'),), ()), ('str', 'master'))
    from ..symex import _seq_items, Undecided
    seen_eq = 0
    try:
        rps = normal(summarise(ctx, RUN, policy=session_steps))
    except Undecided as u:
        rps = []
        ctx.undecided('C14.S5', 'an equity point is (dt, account total equity), appended once', ctx.fn(RUN).site(), str(u)[:160])
    for p in rps:
        for e, loops, conds in nested_events(p):
            if e.kind != 'write' or e.d.get('local') or loc_attr(e.loc) != 'equity_curve' or not loops:
                continue
            seen_eq += 1
            what = 'an equity point is (dt, account total equity), appended once'
            if e.how != 'mut:append' or e.value is None or len(e.value[2]) != 2:
                ctx.undecided('C14.S5', what, e.site, 'the curve is written by %s: %s' % (e.how, fmt(e.value)[:100] if e.value else None))
                continue
            item = e.value[2][1]
            items = _seq_items(item) if item[0] != 'tuple' else list(item[1])
            ts = ('attr', ('elem', loops[0][0].iter, loops[0][0].id), 'ts')
            if items is None or len(items) != 2:
                ctx.undecided('C14.S5', what, e.site, 'appends %s' % fmt(item)[:120])
                continue
            unread = [s_ for s_ in T.subterms(items[1]) if s_[0] in ('havoc', 'lambda', 'lc') or (s_[0] == 'call' and s_[1] == ('ext', 'APPLY'))]
            # (which class of the broker family defines the method - the simulated broker, or its base after a pull-up - is not what the rule is about)
            def _by_method(t_):
                return T.replace(t_, lambda z: ('fn', '|'.join(sorted({q_.split('.')[-1] for q_ in z[1].split('|')}))) if z[0] == 'fn' and 'Broker.' in z[1] else None)
            if items[0] == ts and _by_method(items[1]) == _by_method(eq):
                ctx.holds('C14.S5', what, e.site)
            elif unread:
                ctx.undecided('C14.S5', what, e.site, 'appends %s' % fmt(item)[:120])
            else:
                ctx.violation('C14.S5', what, e.site, 'appends %s' % fmt(item)[:160], key='C14.S5|equity-point')
    if not seen_eq and rps:
        ctx.undecided('C14.S5', 'an equity point is (dt, account total equity), appended once', ctx.fn(RUN).site(), 'no write of equity_curve was read in the event loop')
    from ..lib import private_closure
    run_steps = private_closure(ctx.M, {RUN})
    for w in writers_of_attr(ctx.M, 'equity_curve', owner='BacktestTradingSession'):
        ok = w.fn.qn == 'BacktestTradingSession.__init__' or w.fn.qn in run_steps
        ctx.require(ok, 'C14.S5', 'the equity curve is written only by the event loop and its private steps (%s)' % w.fn.qn, w.where, key='C14.S5|equity-writer|%s' % w.fn.qn)
    # allocation table
    qn = 'BacktestTradingSession.get_target_allocations'
    fn = ctx.fn(qn)
    ps = summarise(ctx, qn, policy=props_only)          # properties are how the dates are read (whatever object keeps them); methods stay calls
    seen = set()
    for p in ps:
        if p.outcome != 'return':
            continue
        burn = None
        for c, v, _ in p.conds:
            if fmt(c) == 'self.burn_in_dt is None':
                burn = not v
        if burn is None:
            # a table located by binary search: "the latest rebalance at or before the date" is position bisect_right(dates, d) - 1;
            # bisect_left(dates, d) - 1 is the latest rebalance strictly before d and misses one made on d itself
            subs = list(T.subterms(p.value))
            left = [s for s in subs if s[0] == 'call' and s[1][0] == 'ext' and s[1][1] in ('bisect.bisect_left',) and len(s[2]) == 2]
            strict = [s for s in left if any(z[0] == 'rat' and T.teq(z, T.t_sub(s, num(1))) for z in subs)]
            if strict:
                ctx.violation('C14.S5', 'each date carries forward the weights of the latest rebalance at or before it', fn.site(),
                              'row located at %s - 1: a rebalance dated on the equity date itself is not counted' % fmt(strict[0])[:100], key='C14.S5|alloc-latest')
                continue
            ctx.undecided('C14.S5', 'the allocation table branches on burn-in only', fn.site(), cond_str(p)[:160])
            continue
        seen.add(burn)
        rx = [s for s in T.subterms(p.value) if s[0] == 'call' and s[1] == ('meth', 'reindex')]
        if not ctx.require(len(rx) == 1, 'C14.S5', 'the allocation table is re-indexed once onto the equity dates', fn.site(), len(rx), key='C14.S5|reindex'):
            continue
        k = dict(rx[0][3])
        idx = k.get('index', rx[0][2][1] if len(rx[0][2]) > 1 else None)
        eqidx = ('attr', ('call', ('fn', 'BacktestTradingSession.get_equity_curve'), (V('self'),), ()), 'index')
        ctx.require(idx == eqidx, 'C14.S5', 'one allocation row per equity date', fn.site(), fmt(idx)[:100] if idx else None, key='C14.S5|alloc-index')
        m = k.get('method')
        ctx.require(m in (('str', 'ffill'), ('str', 'pad')), 'C14.S5', 'each date carries forward the weights of the latest rebalance (forward fill)', fn.site(),
                    'method=%s' % (fmt(m) if m else None), key='C14.S5|alloc-ffill')
        after = op_names(chain_ops(p.value, stop=rx[0]))
        extra = [x for x in after if x not in ('[]', '.loc', '.iloc')]
        ctx.require(not extra, 'C14.S5', 'nothing alters the forward-filled table afterwards [%s]' % ('burn-in' if burn else 'no burn-in'), fn.site(), extra, key='C14.S5|alloc-after')
        if burn:
            cut = [o for o in chain_ops(p.value, stop=rx[0]) if o[0] == 'sub']
            ok = len(cut) == 1 and cut[0][1][0] == 'slice' and cut[0][1][1] == ('call', ('meth', 'date'), (A('self', 'burn_in_dt'),), ()) and cut[0][1][2] is None
            ctx.require(ok, 'C14.S5', 'the table is cut at the burn-in date', fn.site(), fmt(p.value)[-80:], key='C14.S5|alloc-cut')
        else:
            ctx.require(T.teq(p.value, rx[0]), 'C14.S5', 'without burn-in the whole table is returned', fn.site(), key='C14.S5|alloc-whole')
    if seen:
        ctx.require(seen == {True, False}, 'C14.S5', 'allocation table handles both burn-in cases', fn.site(), sorted(seen), key='C14.S5|alloc-cases')
    # one record per construction call
    qn = 'PortfolioConstructionModel.__call__'
    fn = ctx.fn(qn)
    ps = summarise(ctx, qn, policy=default_policy)
    n = 0
    for p in normal(ps):
        has = None
        for c, v, _ in p.conds:
            if fmt(c) == 'stats is None':
                has = not v
        if has is None:
            ctx.violation('C14.S5', 'every construction call decides on recording by `stats is not None` alone', fn.site(),
                          'path [%s] returns without reaching the recording step' % cond_str(p)[:160], key='C14.S5|record-path')
            continue
        apps = [e for e in p.flat_events() if e.kind == 'write' and e.how == 'mut:append' and e.loc in (('sub', V('stats'), ('str', 'target_allocations')), ('attr', V('stats'), 'target_allocations'))]
        n += 1
        ctx.require(len(apps) == (1 if has else 0), 'C14.S5', 'one allocation record per construction call [%s]' % cond_str(p)[:80], apps[0].site if apps else fn.site(),
                    '%d records' % len(apps), key='C14.S5|one-record')
        if has and apps:
            rec = apps[0].value[2][1]
            okd = any(s == ('tuple', ()) or True for s in [rec])
            dt_ok = any(s[0] == 'dict' and (('str', 'Date'), V('dt')) in s[1] for s in T.subterms(rec))
            ctx.require(dt_ok, 'C14.S5', 'the record is dated with the rebalance time', apps[0].site, fmt(rec)[:120], key='C14.S5|record-date')
    ctx.floor('C14.S5', 'normal paths of PortfolioConstructionModel.__call__', n, 2)
