"""C15 - rejected operations change nothing (DESIGN section 4, C15: S1 R-VBM, S2 no silent acceptance, S3 guards read pre-state)."""
from .. import terms as T
from ..lib import summarise, cond_str, normal, raising
from ..symex import Valuation, Undecided, default_policy
from ..vbm import dirty_raises, PROTECTED, raise_signature
from ..terms import fmt

# Refusal sites that are outside the property's list, one reason each (DESIGN C15 "Out of scope with reason").  A site is identified by
# (owning class, exception class, names compared by its guard) - never by line number or helper name.
def out_of_scope(sig):
    owner, exc, leaves = sig
    if owner == 'SimulatedBroker' and exc == 'ValueError' and 'nan' in leaves:
        return 'no quote for the asset: C04/C05 quantify over assets that have a quote at the fill time'
    if owner == 'Position' and exc == 'ValueError' and 'asset' in leaves and 'current_dt' not in leaves and not any(x.startswith('const:') for x in leaves):
        return 'asset mismatch: unreachable through PositionHandler.transact_position, which looks the position up by the transaction asset'
    if owner == 'SimulatedBroker' and exc == 'TypeError':
        return 'constructor argument of the wrong type: no broker state exists yet'
    if owner == 'AssetPriceBuffers':
        return 'signal buffers are not broker or portfolio state'
    return None


# S2: invalid request classes, by entry: (name, valuation, expected exception).  The orderings range over the operands the
# guards compare; every path the valuation admits must end in the tabled refusal.
BAL = 'self.cash_balances[self.base_currency]'
PCASH = 'self.portfolios[portfolio_id].cash'
INVALID = {
    'SimulatedBroker.subscribe_funds_to_account': [
        ('negative amount', dict(order={('amount', '0'): '<'}), 'ValueError')],
    'SimulatedBroker.withdraw_funds_from_account': [
        ('negative amount', dict(order={('amount', '0'): '<', ('amount', BAL): '<'}), 'ValueError'),
        ('exceeds master cash', dict(order={('amount', '0'): '>', ('amount', BAL): '>'}), 'ValueError')],
    'SimulatedBroker.get_account_cash_balance': [
        ('unknown currency', dict(isnone={'currency': False}, member={('currency', 'self.cash_balances'): False}), 'ValueError')],
    'SimulatedBroker.create_portfolio': [
        ('duplicate id', dict(member={('STR(portfolio_id)', 'self.portfolios'): True}), 'ValueError')],
    'SimulatedBroker.subscribe_funds_to_portfolio': [
        ('negative amount', dict(order={('amount', '0'): '<', ('amount', BAL): '<'}, member={('portfolio_id', 'self.portfolios'): True}), 'ValueError'),
        ('unknown portfolio', dict(order={('amount', '0'): '>', ('amount', BAL): '<'}, member={('portfolio_id', 'self.portfolios'): False}), 'KeyError'),
        ('exceeds master cash', dict(order={('amount', '0'): '>', ('amount', BAL): '>'}, member={('portfolio_id', 'self.portfolios'): True}), 'ValueError')],
    'SimulatedBroker.withdraw_funds_from_portfolio': [
        ('negative amount', dict(order={('amount', '0'): '<', ('amount', PCASH): '<'}, member={('portfolio_id', 'self.portfolios'): True}), 'ValueError'),
        ('unknown portfolio', dict(order={('amount', '0'): '>', ('amount', PCASH): '<'}, member={('portfolio_id', 'self.portfolios'): False}), 'KeyError'),
        ('exceeds portfolio cash', dict(order={('amount', '0'): '>', ('amount', PCASH): '>'}, member={('portfolio_id', 'self.portfolios'): True}), 'ValueError')],
    'SimulatedBroker.get_portfolio_cash_balance': [
        ('unknown portfolio', dict(member={('portfolio_id', 'self.portfolios'): False}), 'ValueError')],
    'SimulatedBroker.get_portfolio_total_market_value': [
        ('unknown portfolio', dict(member={('portfolio_id', 'self.portfolios'): False}), 'KeyError')],
    'SimulatedBroker.get_portfolio_total_equity': [
        ('unknown portfolio', dict(member={('portfolio_id', 'self.portfolios'): False}), 'KeyError')],
    'SimulatedBroker.get_portfolio_as_dict': [
        ('unknown portfolio', dict(member={('portfolio_id', 'self.portfolios'): False}), 'KeyError')],
    'SimulatedBroker.submit_order': [
        ('order for unknown portfolio', dict(member={('portfolio_id', 'self.portfolios'): False}), 'KeyError')],
    'SimulatedBroker.__init__': [
        ('unsupported currency', dict(member={('base_currency', "settings.SUPPORTED['CURRENCIES']"): False}, order={('initial_funds', '0'): '>'}, strs={'base_currency': 'XXX'}), 'ValueError'),
        ('negative initial funds', dict(member={('base_currency', "settings.SUPPORTED['CURRENCIES']"): True}, order={('initial_funds', '0'): '<'}), 'ValueError')],
    'Portfolio.subscribe_funds': [
        ('timestamp earlier than the clock', dict(order={('dt', 'self.current_dt'): '<', ('amount', '0'): '>'}), 'ValueError'),
        ('negative amount', dict(order={('dt', 'self.current_dt'): '>', ('amount', '0'): '<'}), 'ValueError')],
    'Portfolio.withdraw_funds': [
        ('timestamp earlier than the clock', dict(order={('dt', 'self.current_dt'): '<', ('amount', '0'): '>', ('amount', 'self.cash'): '<'}), 'ValueError'),
        ('negative amount', dict(order={('dt', 'self.current_dt'): '>', ('amount', '0'): '<', ('amount', 'self.cash'): '<'}), 'ValueError'),
        ('exceeds portfolio cash', dict(order={('dt', 'self.current_dt'): '>', ('amount', '0'): '>', ('amount', 'self.cash'): '>'}), 'ValueError')],
    'Portfolio.transact_asset': [
        ('timestamp earlier than the clock', dict(order={('txn.dt', 'self.current_dt'): '<'}), 'ValueError')],
    'Portfolio.update_market_value_of_asset': [
        ('negative price mark', dict(member={('asset', 'self.pos_handler.positions'): True},
                                     order={('current_price', '0'): '<', ('current_dt', 'self.current_dt'): '>'}), 'ValueError'),
        ('timestamp earlier than the clock', dict(member={('asset', 'self.pos_handler.positions'): True},
                                                  order={('current_price', '0'): '>', ('current_dt', 'self.current_dt'): '<'}), 'ValueError')],
}


def entries(ctx):
    out = []
    for cname in ('SimulatedBroker', 'Portfolio'):
        c = ctx.cls(cname)
        for name, m in sorted(c.methods.items()):
            if name.startswith('_') and name != '__init__':
                continue
            if m.is_property:
                continue
            out.append(m.qn)
    return out


def checked_setters(ctx):
    """C15.S4 - a field that has a CHECKED setter (one argument, refuses it by comparing it with the field, else stores it: Position._check_set_dt) is stored into by no other
    method of the class unless the same value went through the checked setter first on that path.  One path checks, another does not: the refusal can be walked around."""
    import ast
    M = ctx.M
    n_set = n_w = 0
    for c in M.classes.values() if hasattr(M, 'classes') and isinstance(M.classes, dict) else []:
        if not c.path.startswith('qstrader/broker/'):
            continue
        setters = {}
        for name, m in c.methods.items():
            a = [x.arg for x in m.node.args.args]
            if len(a) != 2 or a[0] != 'self' or name == '__init__':
                continue
            prm = a[1]
            stores = [k for k in ast.walk(m.node) if isinstance(k, ast.Assign) and isinstance(k.value, ast.Name) and k.value.id == prm and len(k.targets) == 1 and
                      isinstance(k.targets[0], ast.Attribute) and isinstance(k.targets[0].value, ast.Name) and k.targets[0].value.id == 'self']
            if len(stores) != 1:
                continue
            fld = stores[0].targets[0].attr
            refuses = any(isinstance(i_, ast.If) and any(isinstance(r_, ast.Raise) for b_ in i_.body for r_ in ast.walk(b_)) and
                          any(isinstance(x_, ast.Name) and x_.id == prm for x_ in ast.walk(i_.test)) and
                          any(isinstance(x_, ast.Attribute) and x_.attr == fld and isinstance(x_.value, ast.Name) and x_.value.id == 'self' for x_ in ast.walk(i_.test))
                          for i_ in ast.walk(m.node))
            if refuses:
                setters[fld] = (name, m)
        for fld, (sname, sm) in sorted(setters.items()):
            n_set += 1

            def reaches(meth, depth=2):
                # positions of meth's parameters that are handed to the checked setter (directly or through another method of the object)
                out = set()
                ps_ = [x.arg for x in meth.node.args.args][1:]
                for k in ast.walk(meth.node):
                    if isinstance(k, ast.Call) and isinstance(k.func, ast.Attribute) and isinstance(k.func.value, ast.Name) and k.func.value.id == 'self':
                        tgt = c.lookup(k.func.attr) if hasattr(c, 'lookup') else c.methods.get(k.func.attr)
                        if k.func.attr == sname:
                            idx = {0}
                        elif tgt is not None and depth > 0 and tgt is not meth and not getattr(tgt, 'is_property', False):
                            idx = reaches(tgt, depth - 1)
                        else:
                            idx = set()
                        for i_ in idx:
                            if i_ < len(k.args) and isinstance(k.args[i_], ast.Name) and k.args[i_].id in ps_:
                                out.add(ps_.index(k.args[i_].id))
                return out
            for name, m in sorted(c.methods.items()):
                if name in ('__init__', sname) or M.ctor_only(m):
                    continue
                for k in ast.walk(m.node):
                    if not (isinstance(k, ast.Assign) and any(isinstance(t_, ast.Attribute) and t_.attr == fld and isinstance(t_.value, ast.Name) and t_.value.id == 'self' for t_ in k.targets)):
                        continue
                    n_w += 1
                    val = ast.unparse(k.value)
                    went = False
                    for q in ast.walk(m.node):
                        if isinstance(q, ast.Call) and isinstance(q.func, ast.Attribute) and isinstance(q.func.value, ast.Name) and q.func.value.id == 'self' and q.lineno < k.lineno:
                            tgt = c.lookup(q.func.attr) if hasattr(c, 'lookup') else c.methods.get(q.func.attr)
                            idx = {0} if q.func.attr == sname else (reaches(tgt) if tgt is not None and not getattr(tgt, 'is_property', False) else set())
                            if any(i_ < len(q.args) and ast.unparse(q.args[i_]) == val for i_ in idx):
                                went = True
                    inst = '%s.%s is stored only through its checked setter %s, or after the same value went through it (%s)' % (c.name, fld, sname, m.qn)
                    if went:
                        ctx.holds('C15.S4', inst, m.site(k))
                    else:
                        ctx.violation('C15.S4', inst, m.site(k), 'READ!: %s stores `%s` into self.%s directly, while %s.%s refuses a value that fails its comparison with self.%s: on this path '
                                      'the value that would have been refused is accepted, and what follows (fills, marks) is applied' % (m.qn, val[:40], fld, c.name, sname, fld),
                                      key='C15.S4|bypass|%s|%s' % (m.qn, fld))
    if n_set == 0:
        ctx.undecided('C15.S4', 'fields with a checked setter are stored only through it', None, 'no checked setter of the recognised form (one argument, refused by a comparison with the field, else stored) found under qstrader/broker/')
    else:
        ctx.holds('C15.S4', 'checked setters found under qstrader/broker/: %d; other stores into their fields examined: %d' % (n_set, n_w), None)


def check(ctx):
    from ..lib import discarded_results
    ctx.sub(discarded_results, 'C15.S3', ('qstrader/broker/',), 'refusals and updates act on the objects the code actually changed')
    ctx.sub(checked_setters)
    es = entries(ctx)
    ctx.floor('C15.S1', 'public entry points of SimulatedBroker and Portfolio', len(es), 20)
    total_raise = 0
    for e in es:
        reps, nraise, npaths = dirty_raises(ctx, e)
        total_raise += nraise
        clean = 0
        for r in reps:
            inst = '%s: refusal %s in %s [%s]' % (e, r['exc'], r['fn'], r['guard'][:100])
            if not r['writes']:
                ctx.holds('C15.S1', inst + ' is reached with no protected write before it', r['site'])
                clean += 1
                continue
            if r.get('implicit'):
                # the miss of a literal dispatch table under a computed key (BUCKETS[int(order.direction)]): whether the key can fall outside the table depends on
                # the values the key takes, which this analysis does not bound; it is not one of the explicit refusals the clause is about
                ctx.undecided('C15.S1', inst + ' is reached with no protected write before it', r['site'], 'possible miss of a literal table under a computed key')
                continue
            first = r['writes'][0]
            kinds = sorted({PROTECTED.get(w[0].split(' ')[0], w[0]) for w in r['writes']})
            sig = raise_signature(ctx.M, ('raise', r['exc'], r['site'], r['fn'], r.get('owner')))
            why = out_of_scope(sig)
            detail = 'protected writes that may precede the refusal: ' + '; '.join('%s via %s at %s in %s' % w for w in r['writes'][:6])
            if why:
                ctx.note('C15 out of scope: %s - %s (%s)' % (inst, why, '; '.join(kinds)))
                continue
            key = 'C15.S1|%s|%s:%s:%s|%s/%s|%s' % (e, sig[0], sig[1], ','.join(sig[2]), first[0], first[1].split(' ')[0], '+'.join(kinds))
            ctx.violation('C15.S1', inst, r['site'], detail + ' -- a refused request must leave every %s unchanged' % ', '.join(kinds), key=key)
        ctx.sample({'rule': 'C15.S1', 'entry': e, 'paths': npaths, 'raise_paths': nraise, 'refusal_sites': len(reps), 'clean': clean})
    ctx.floor('C15.S1', 'refusing paths analysed', total_raise, 30)
    ctx.sub(plain_containers)
    ctx.sub(s2_tables)
    ctx.sub(clock_advances)


def clock_advances(ctx):
    """'A timestamp earlier than the portfolio's clock' is refused - so the clock has to BE the time of the last accepted cash movement or fill: every accepting
    path of the three requests that carry a time of their own sets self.current_dt to that time.  (A price mark does not move the clock in this code base.)"""
    from ..lib import heap_writes, normal, V, A
    for qn, stamp in (('Portfolio.subscribe_funds', V('dt')), ('Portfolio.withdraw_funds', V('dt')), ('Portfolio.transact_asset', A('txn', 'dt'))):
        fn = ctx.fn(qn)
        try:
            ps = normal(summarise(ctx, fn, policy=default_policy))
        except Undecided as u:
            ctx.undecided('C15.S2', '%s: an accepted request moves the portfolio clock to its own time' % qn, fn.site(), str(u)[:120])
            continue
        for p in ps:
            ws = [w for w in heap_writes(p, 'current_dt') if w.loc == A('self', 'current_dt')]
            what = '%s: an accepted request moves the portfolio clock to its own time [%s]' % (qn, cond_str(p)[:70])
            if not ws:
                ctx.violation('C15.S2', what, fn.site(), 'no write of self.current_dt on this accepting path: a later request stamped before this one is then accepted instead of refused',
                              key='C15.S2|%s|clock' % qn)
            elif ws[-1].value == stamp:
                ctx.holds('C15.S2', what, ws[-1].site)
            elif any(s_[0] in ('havoc', 'lc') or (s_[0] == 'call' and s_[1][0] == 'fn') for s_ in T.subterms(ws[-1].value or T.ZERO)):
                ctx.undecided('C15.S2', what, ws[-1].site, 'clock set to %s' % fmt(ws[-1].value)[:80])
            else:
                ctx.violation('C15.S2', what, ws[-1].site, 'the clock is set to %s, not to the time of the request (%s)' % (fmt(ws[-1].value)[:80], fmt(stamp)), key='C15.S2|%s|clock' % qn)


def s2_tables(ctx):
    n = 0
    for qn, rows in INVALID.items():
        fn = ctx.fn(qn)
        for name, val, exp in rows:
            v = Valuation(**val)
            ps = summarise(ctx, fn, policy=default_policy, oracle=v)
            n += 1
            bad = [p for p in ps if p.outcome != 'raise']
            # (an exception of an unread call passed on by a bare `raise` is not one of the entry's refusals: its type is whatever that call raised)
            wrong = [p for p in ps if p.outcome == 'raise' and p.state.exc[0] == 'raise' and p.state.exc[1] != exp and not (len(p.state.exc) > 5 and p.state.exc[5] in ('table-miss', 'lookup-miss'))]
            inst = '%s: %s is refused with %s' % (qn, name, exp)
            def plumbing(c_):
                # a test about HOW the arguments were handed over (names matched to positions by a wrapper), not about their values
                return (c_[0] == 'cmp' and c_[1] == '==' and 'str' in (c_[2][0], c_[3][0])) or \
                    any(s_[0] == 'call' and s_[1][0] == 'ext' and (s_[1][1] in ('LIST', 'TUPLE', 'APPLY', 'DICT', 'ZIP', 'ENUMERATE') or s_[1][1].startswith('inspect.')) for s_ in T.subterms(c_))
            unk_ = [c_ for c_, _, _ in (bad[0].conds if bad else ()) if fmt(c_) in set(v.unknown)]
            if bad and unk_ and all(plumbing(c_) for c_ in unk_) and any(p_.outcome == 'raise' and p_.state.exc[0] == 'raise' and p_.state.exc[1] == exp for p_ in ps):
                # the documented refusal is there; the accepting path is reached only through a test this table does not decide (the arguments are matched to their
                # names by a wrapper, say): whether it applies to the invalid request at hand is not established
                ctx.undecided('C15.S2', inst, fn.site(), 'refused or accepted depending on %s' % ', '.join(sorted(set(v.unknown))[:3]))
            elif bad:
                ctx.violation('C15.S2', inst, fn.site(), 'silent acceptance on path [%s]%s' % (
                    cond_str(bad[0]), (' (the guard also depends on: %s)' % ', '.join(sorted(set(v.unknown))[:4])) if v.unknown else ''),
                    key='C15.S2|%s|%s|accept' % (qn, name))
            elif wrong and v.unknown and any(p_.outcome == 'raise' and p_.state.exc[0] == 'raise' and p_.state.exc[1] == exp for p_ in ps):
                # the documented refusal is there; another one is reached only through a test this table does not decide (an unknown-id check spelled over storage
                # the table knows nothing about): which of the two applies to the invalid request at hand is not established
                ctx.undecided('C15.S2', inst, wrong[0].state.exc[2], 'refused with %s or %s depending on %s' % (exp, wrong[0].state.exc[1], ', '.join(sorted(set(v.unknown))[:3])))
            elif wrong:
                ctx.violation('C15.S2', inst, wrong[0].state.exc[2], 'refused with %s instead of the documented %s' % (wrong[0].state.exc[1], exp),
                              key='C15.S2|%s|%s|type' % (qn, name))
            else:
                ctx.holds('C15.S2', inst, next((p.state.exc[2] for p in ps if p.state.exc and p.state.exc[0] == 'raise'), fn.site()), '%d path(s), all refuse' % len(ps))
            # S3: the refusal leaves the summary without protected writes on the entry's own frame
            for p in ps:
                if p.outcome == 'raise' and p.state.exc[0] == 'raise':
                    from ..vbm import _pwrites
                    ws = _pwrites(p.events, PROTECTED)
                    ctx.require(not ws, 'C15.S3', '%s: %s refused before any protected write' % (qn, name), p.state.exc[2],
                                'writes: %s' % ws[:3], key='C15.S3|%s|%s' % (qn, name))
            ctx.sample({'rule': 'C15.S2', 'entry': qn, 'invalid_class': name, 'expected': exp, 'outcomes': sorted({p.describe()[-40:] for p in ps})[:3]})
    ctx.floor('C15.S2', 'invalid request classes tabled', n, 25)


def plain_containers(ctx):
    """A read of a defaultdict inserts the key: protected tables must be plain containers, otherwise a refused lookup already changed them."""
    import ast
    M = ctx.M
    for cname, fields in (('SimulatedBroker', ('open_orders', 'portfolios', 'cash_balances')), ('PositionHandler', ('positions',)), ('Portfolio', ('history',))):
        c = ctx.cls(cname)
        for f in fields:
            ts = set()
            for k in c.mro():
                ts |= M.field_of(k, f)
            bad = [t for t in ts if 'defaultdict' in t or 'Counter' in t]
            ctx.require(not bad, 'C15.S3', '%s.%s is a plain container (no insert-on-read)' % (cname, f), c.path, 'type %s: a lookup of an unknown key inserts it before any guard can refuse' % bad,
                        key='C15.S3|plain|%s.%s' % (cname, f))
    for fn in M.all_funcs():
        if fn.cls is None or fn.cls.name not in ('SimulatedBroker', 'Portfolio', 'PositionHandler'):
            continue
        for n in ast.walk(fn.node):
            if isinstance(n, ast.Call):
                name = M.ext_name(fn.mod, n.func)
                if name in ('collections.defaultdict', 'collections.Counter'):
                    ctx.violation('C15.S3', 'broker/portfolio state uses plain containers (no insert-on-read)', fn.site(n), '%s in %s' % (name, fn.qn), key='C15.S3|defaultdict|%s' % fn.qn)
