"""C18 - identical inputs give identical results: closed-world enumeration of nondeterminism sources (DESIGN C18)."""
import ast

from .. import terms as T
from ..lib import parent_map, writers_of_attr, reads_of_attr, calls_named, summarise, heap_writes, normal, V, A
from ..symex import default_policy, MUTATORS
from ..terms import fmt

SET_METHODS = {'union', 'intersection', 'difference', 'symmetric_difference', 'copy'}
ORDER_FREE = {'len', 'sum', 'min', 'max', 'any', 'all', 'set', 'frozenset', 'sorted', 'bool', 'isinstance', 'type'}
ORDER_DEP = {'list', 'tuple', 'enumerate', 'iter', 'next', 'zip', 'map', 'filter', 'reversed', 'dict', 'str', 'repr', 'print'}
RANDOM_PREFIXES = ('random.', 'numpy.random.', 'uuid.', 'secrets.', 'time.', 'os.urandom', 'os.getpid', 'datetime.datetime.now', 'datetime.datetime.today',
                   'datetime.datetime.utcnow', 'datetime.date.today', 'pandas.Timestamp.now', 'pandas.Timestamp.today', 'pandas.Timestamp.utcnow', 'builtins.id', 'builtins.hash',
                   'threading.', 'multiprocessing.', 'tempfile.', 'socket.', 'platform.', 'getpass.')
FS_ORDER = ('os.listdir', 'os.scandir', 'os.walk', 'glob.glob', 'glob.iglob', 'pathlib.Path.iterdir', 'pathlib.Path.glob', 'os.environ.items', 'os.environ.keys')
# tabled sources, one reason each
TABLED_RANDOM = {('Order._set_or_generate_order_id', 'uuid.uuid4'): 'random order identifier; discharged by the order_id taint rule below'}
TABLED_FS = {('CSVDailyBarDataSource._obtain_asset_csv_files', 'os.listdir'): 'listing order only decides insertion order of per-asset dicts that are looked up by key'}
TABLED_SET_ITER = {'Signal.update_assets': 'order reaches only Signal.assets; every in-package loop over it writes per-asset keyed state only (checked)'}
TABLED_CACHED = {'CSVDailyBarDataSource.get_bid', 'CSVDailyBarDataSource.get_ask'}


def is_setlike(M, fn, e, setvars):
    if isinstance(e, (ast.Set, ast.SetComp)):
        return True
    if isinstance(e, ast.Call):
        f = e.func
        if isinstance(f, ast.Name) and f.id in ('set', 'frozenset'):
            return True
        if isinstance(f, ast.Attribute) and f.attr in SET_METHODS and is_setlike(M, fn, f.value, setvars):
            return True
    if isinstance(e, ast.BinOp) and isinstance(e.op, (ast.BitOr, ast.BitAnd, ast.Sub, ast.BitXor)):
        return is_setlike(M, fn, e.left, setvars) or is_setlike(M, fn, e.right, setvars)
    if isinstance(e, ast.Name) and e.id in setvars:
        return True
    if isinstance(e, ast.Attribute) and isinstance(e.value, ast.Name) and e.value.id == 'self' and fn.cls is not None and isinstance(e.ctx, ast.Load):
        return e.attr in _set_fields(M, fn.cls)
    if isinstance(e, ast.Call) and isinstance(e.func, ast.Attribute) and isinstance(e.func.value, ast.Name) and e.func.value.id == 'self' and fn.cls is not None:
        return _returns_set(M, fn.cls, e.func.attr)
    return False


def _returns_set(M, cls, name):
    """every return of the method is a set / frozenset construction: calling it yields a set (whose order matters where the caller iterates it)"""
    m = cls.lookup(name)
    if m is None or m.is_property:
        return False
    rets = [n.value for n in ast.walk(m.node) if isinstance(n, ast.Return) and n.value is not None]
    return bool(rets) and all(isinstance(v_, (ast.Set, ast.SetComp)) or (isinstance(v_, ast.Call) and isinstance(v_.func, ast.Name) and v_.func.id in ('set', 'frozenset') and v_.args)
                              for v_ in rets)


def _set_fields(M, cls):
    """fields of the class every assignment to which (anywhere in the class family) is a set / frozenset construction"""
    cache = getattr(M, '_set_fields_cache', None)
    if cache is None:
        cache = M._set_fields_cache = {}
    if cls.name in cache:
        return cache[cls.name]
    cache[cls.name] = set()
    vals = {}
    for k in cls.mro():
        for m in k.methods.values():
            for n in ast.walk(m.node):
                if isinstance(n, ast.Assign):
                    for t in n.targets:
                        if isinstance(t, ast.Attribute) and isinstance(t.value, ast.Name) and t.value.id == 'self':
                            vals.setdefault(t.attr, []).append((m, n.value))
    out = {f_ for f_, vs in vals.items() if vs and all(isinstance(v_, (ast.Set, ast.SetComp)) or (isinstance(v_, ast.Call) and isinstance(v_.func, ast.Name)
                                                                                                 and v_.func.id in ('set', 'frozenset')) or
                                                       (isinstance(v_, ast.Call) and isinstance(v_.func, ast.Attribute) and isinstance(v_.func.value, ast.Name) and v_.func.value.id == 'self'
                                                        and _returns_set(M, cls, v_.func.attr)) for _, v_ in vs)}
    cache[cls.name] = out
    return out


def _loop_is_keyed_only(M, fn, loop):
    """`for k in <set>:` whose body does nothing but file, replace or drop the entry of k in dict-valued fields (self.D[k] = ..., self.D.pop(k, ...), del self.D[k]) and
    bind locals - and no such D is ever iterated, listed, handed out or passed on anywhere in the class family (only looked up by key): the order in which the
    entries were filed is then visible to nobody"""
    if not isinstance(loop.target, ast.Name) or loop.orelse or fn.cls is None:
        return False
    lv = loop.target.id
    tables = set()

    def keyed(sub):
        return isinstance(sub, ast.Subscript) and isinstance(sub.slice, ast.Name) and sub.slice.id == lv and isinstance(sub.value, ast.Attribute) \
            and isinstance(sub.value.value, ast.Name) and sub.value.value.id == 'self'

    def stmt_ok(s):
        if isinstance(s, ast.Assign):
            for t in s.targets:
                if isinstance(t, ast.Name):
                    continue
                if keyed(t):
                    tables.add(t.value.attr)
                    continue
                return False
            return not any(isinstance(x, (ast.Yield, ast.YieldFrom, ast.Await, ast.NamedExpr)) for x in ast.walk(s.value))
        if isinstance(s, ast.Delete):
            if all(keyed(t) for t in s.targets):
                tables.update(t.value.attr for t in s.targets)
                return True
            return False
        if isinstance(s, ast.Expr) and isinstance(s.value, ast.Call) and isinstance(s.value.func, ast.Attribute) and s.value.func.attr == 'pop':
            r = s.value.func.value
            if isinstance(r, ast.Attribute) and isinstance(r.value, ast.Name) and r.value.id == 'self' and s.value.args and isinstance(s.value.args[0], ast.Name) \
                    and s.value.args[0].id == lv:
                tables.add(r.attr)
                return True
            return False
        if isinstance(s, ast.If):
            return all(stmt_ok(b) for b in s.body + s.orelse)
        if isinstance(s, (ast.Pass, ast.Continue)):
            return True
        return False
    if not all(stmt_ok(s) for s in loop.body) or not tables:
        return False
    # the values computed inside call nothing that changes state in loop order (plain reads, constructors of records, properties): no call statement was allowed
    # above; calls inside expressions are restricted to lookups on self's fields and constructions
    for k in fn.cls.mro() + [d for d in M.subclasses(fn.cls) if d is not fn.cls]:
        for m in k.methods.values():
            pm2 = parent_map(m.node)
            for n in ast.walk(m.node):
                if isinstance(n, ast.Attribute) and n.attr in tables and isinstance(n.value, ast.Name) and n.value.id == 'self':
                    p = pm2.get(n)
                    if isinstance(p, ast.Subscript) and p.value is n:
                        continue
                    if isinstance(p, ast.Compare) and n in p.comparators and all(isinstance(o, (ast.In, ast.NotIn)) for o in p.ops):
                        continue
                    if isinstance(p, ast.Attribute) and p.attr in ('get', 'pop', 'setdefault', 'clear') and isinstance(pm2.get(p), ast.Call):
                        continue
                    if isinstance(p, ast.Assign) and n in p.targets and isinstance(p.value, (ast.Dict, ast.Call)) and not (isinstance(p.value, ast.Dict) and p.value.keys) \
                            and not (isinstance(p.value, ast.Call) and (p.value.args or not isinstance(p.value.func, ast.Name) or p.value.func.id not in ('dict', 'OrderedDict'))):
                        continue
                    return False
    return True


def _comp_result_is_order_free(fn, pm, gen):
    """the comprehension iterating a set builds something whose element order nobody can observe: a set, an argument of an order-free reduction, or a dict
    (dict comprehension / dict(<generator of pairs>)) bound to a local name that is only ever looked up by key"""
    comp = pm.get(gen)
    if isinstance(comp, ast.SetComp):
        return True
    holder = comp
    if isinstance(comp, ast.GeneratorExp):
        call = pm.get(comp)
        if not (isinstance(call, ast.Call) and comp in call.args and isinstance(call.func, ast.Name)):
            return False
        if call.func.id in ORDER_FREE:
            return True
        if call.func.id != 'dict':
            return False
        holder = call
    elif not isinstance(comp, ast.DictComp):
        return False
    asg = pm.get(holder)
    if not (isinstance(asg, ast.Assign) and len(asg.targets) == 1 and isinstance(asg.targets[0], ast.Name)):
        return False
    name = asg.targets[0].id
    for n in ast.walk(fn.node):
        if isinstance(n, ast.Name) and n.id == name and n is not asg.targets[0]:
            p = pm.get(n)
            if isinstance(p, ast.Subscript) and p.value is n and isinstance(p.ctx, ast.Load):
                continue
            if isinstance(p, ast.Compare) and n in p.comparators and all(isinstance(o, (ast.In, ast.NotIn)) for o in p.ops):
                continue
            if isinstance(p, ast.Attribute) and p.attr == 'get' and isinstance(pm.get(p), ast.Call):
                continue
            return False
    return True


def check(ctx):
    from ..lib import discarded_results
    ctx.sub(discarded_results, 'C18.shared', ('qstrader/',), 'no step silently works on the last element of a loop or on a discarded copy')
    M = ctx.M
    ctx.sub(set_order)
    ctx.sub(fs_order)
    ctx.sub(randomness)
    ctx.sub(shared_state)
    ctx.sub(memoisation)
    ctx.sub(closure_memos)
    ctx.sub(ordering_ops)


# ------------------------------------------------------------------------------------------------ sets
def set_order(ctx):
    M = ctx.M
    n_sites = 0
    tabled_seen = set()
    pending = []
    try:
        newdefs_ = {n_ for ns_ in M.new_definitions().values() for n_ in ns_}
    except Exception:
        newdefs_ = set()
    for fn in M.all_funcs():
        if fn.parent is not None:
            continue
        pm = parent_map(fn.node)
        setvars = set()
        for _ in range(2):
            for n in ast.walk(fn.node):
                if isinstance(n, ast.Assign) and len(n.targets) == 1 and isinstance(n.targets[0], ast.Name) and is_setlike(M, fn, n.value, setvars):
                    setvars.add(n.targets[0].id)
        for n in ast.walk(fn.node):
            if not is_setlike(M, fn, n, setvars):
                continue
            par = pm.get(n)
            # only look at maximal set-like expressions
            if par is not None and is_setlike(M, fn, par, setvars) and not isinstance(par, ast.Name):
                continue
            if isinstance(par, ast.Attribute) and par.attr in SET_METHODS | {'add', 'update', 'discard', 'remove', 'issubset', 'issuperset', 'isdisjoint'}:
                continue
            use = None
            if isinstance(par, ast.Call) and n in par.args:
                f = par.func
                name = f.id if isinstance(f, ast.Name) else (f.attr if isinstance(f, ast.Attribute) else '?')
                if name in ORDER_FREE:
                    continue
                if name in ('list', 'tuple'):
                    gp = pm.get(par)
                    if isinstance(gp, ast.Call) and isinstance(gp.func, ast.Name) and gp.func.id in ORDER_FREE and par in gp.args:
                        continue
                use = 'passed to %s(...)' % name
            elif isinstance(par, (ast.For, ast.comprehension)) and par.iter is n:
                if isinstance(par, ast.comprehension) and _comp_result_is_order_free(fn, pm, par):
                    continue
                if isinstance(par, ast.For) and _loop_is_keyed_only(M, fn, par):
                    continue
                use = 'iterated'
            elif isinstance(par, ast.Compare):
                continue
            elif isinstance(par, ast.Assign):
                continue            # the variable's uses are examined as set-like names
            elif isinstance(par, ast.Starred):
                use = 'unpacked'
            elif isinstance(par, ast.Return):
                # handed to the caller as a set: its order matters where the caller iterates it (calls of a method that returns a set, and fields assigned from
                # one, are set-typed expressions for this scan)
                continue
            elif isinstance(par, ast.Attribute) and par.attr == 'pop':
                use = 'popped'
            elif isinstance(par, (ast.BoolOp, ast.UnaryOp, ast.If, ast.IfExp, ast.While)):
                continue
            else:
                continue
            n_sites += 1
            inst = 'a set is %s in %s' % (use, fn.qn)
            if fn.qn in TABLED_SET_ITER:
                ctx.holds('C18.set', inst + ' (tabled: %s)' % TABLED_SET_ITER[fn.qn], fn.site(n))
                tabled_seen.add(fn.qn)
                continue
            pending.append((fn, n, inst, use))
    moved = [q_ for q_ in TABLED_SET_ITER if q_ not in tabled_seen]
    for fn, n, inst, use in pending:
        host_ = fn.cls.name if fn.cls is not None else None
        if moved and (fn.name in newdefs_ or host_ in newdefs_):
            # the iteration the table discharges (by hand, for the function it names) is gone from that function, and a set is iterated in a function this tree
            # introduces: whether it is the tabled iteration moved, feeding the same per-asset state, is not related here
            ctx.undecided('C18.set', 'hash-ordered collections are sorted before their order can matter', fn.site(n),
                          '%s (%s), a function this tree introduces, while the tabled iteration of %s is no longer there' % (inst, ast.unparse(n)[:60], ', '.join(moved)))
            continue
        if True:
            ctx.violation('C18.set', 'hash-ordered collections are sorted before their order can matter', fn.site(n),
                          '%s (%s): iteration order of a set of strings changes with the interpreter\'s hash seed' % (inst, ast.unparse(n)[:80]),
                          key='C18.set|%s|%s' % (fn.qn, use.split(' ')[0]))
    ctx.holds('C18.set', 'scan of set-typed expressions over the package (%d order-dependent uses)' % n_sites, None)
    # discharge of the tabled exception: loops over <x>.assets write only state keyed by the loop variable
    n = 0
    for fn in M.all_funcs():
        if not fn.path.startswith('qstrader/'):
            continue
        for node in ast.walk(fn.node):
            if isinstance(node, ast.For):
                it = node.iter
                src = None
                if isinstance(it, ast.Attribute) and it.attr == 'assets':
                    src = it
                elif isinstance(it, ast.Name):
                    # alias: assets = signal.assets
                    for a in ast.walk(fn.node):
                        if isinstance(a, ast.Assign) and len(a.targets) == 1 and isinstance(a.targets[0], ast.Name) and a.targets[0].id == it.id \
                                and isinstance(a.value, ast.Attribute) and a.value.attr == 'assets':
                            src = a.value
                if src is None or not isinstance(node.target, ast.Name):
                    continue
                if fn.cls is not None and fn.cls.name in ('AssetPriceBuffers',) and False:
                    continue
                n += 1
                lv = node.target.id
                ok = True
                why = ''
                for b in ast.walk(node):
                    if isinstance(b, ast.Call) and isinstance(b.func, ast.Attribute) and b.func.attr in ('append', 'extend', 'insert', 'add', 'put'):
                        recv = b.func.value
                        if len(b.args) == 1 and isinstance(b.args[0], ast.Lambda) and _deferred_keyed_action(b.args[0], lv):
                            continue        # a deferred per-asset action (applied later, to that asset's own state): the order of the actions is not an output
                        # receiver must be per-asset state: a call carrying the loop variable as first argument is the keyed form
                        if not any(isinstance(x, ast.Name) and x.id == lv for a in b.args for x in ast.walk(a)):
                            ok, why = False, ast.unparse(b)[:80]
                        if isinstance(recv, ast.Name) or (isinstance(recv, ast.Attribute) and not isinstance(recv.value, ast.Subscript) and recv.attr not in ('buffers',)):
                            # appending to one shared sequence in asset order makes the order observable
                            if not (isinstance(recv, ast.Subscript)) and b.func.attr in ('append', 'extend', 'insert') and not _keyed_by(b, lv):
                                ok, why = False, ast.unparse(b)[:80]
                    if isinstance(b, (ast.Break, ast.Return)):
                        ok, why = False, 'early exit depends on the order'
                ctx.require(ok, 'C18.set', 'loop over a signal\'s asset list in %s only touches per-asset state' % fn.qn, fn.site(node), why, key='C18.set|assets-loop|%s' % fn.qn)
    ctx.floor('C18.set', 'loops over Signal.assets examined', n, 1)


def _deferred_keyed_action(lam, lv):
    """lambda asset=<lv>, ...: obj.append(asset, ...) - the loop variable is frozen as a default and is the key argument of the one call the lambda makes"""
    frozen = {a.arg for a, d in zip(lam.args.args[len(lam.args.args) - len(lam.args.defaults):], lam.args.defaults) if isinstance(d, ast.Name) and d.id == lv}
    body = lam.body
    return isinstance(body, ast.Call) and bool(body.args) and isinstance(body.args[0], ast.Name) and body.args[0].id in frozen and len(body.args) >= 2


def _keyed_by(call, lv):
    """x.append(lv, ...) style: the loop variable is the key argument (e.g. signal.append(asset, price))"""
    return bool(call.args) and isinstance(call.args[0], ast.Name) and call.args[0].id == lv and len(call.args) >= 2


# ------------------------------------------------------------------------------------------------ file system
def fs_order(ctx):
    M = ctx.M
    n = 0
    for fn in M.all_funcs():
        pm = None
        for node in ast.walk(fn.node):
            if isinstance(node, ast.Call):
                name = M.ext_name(fn.mod, node.func)
                if name in FS_ORDER:
                    n += 1
                    pm = pm or parent_map(fn.node)
                    p, under_sorted = pm.get(node), False
                    for _ in range(4):
                        if isinstance(p, ast.Call) and isinstance(p.func, ast.Name) and p.func.id == 'sorted':
                            under_sorted = True
                        p = pm.get(p) if p is not None else None
                    tab = TABLED_FS.get((fn.qn, name))
                    ctx.require(bool(tab) or under_sorted, 'C18.fs', 'directory listing order in %s is sorted or tabled' % fn.qn, fn.site(node),
                                '%s returns entries in arbitrary order' % name, key='C18.fs|%s|%s' % (fn.qn, name))
    ctx.floor('C18.fs', 'file-system enumeration sites', n, 1)
    # discharge: the per-asset frame dicts are iterated only to build another keyed dict
    for attr in ('asset_bar_frames', 'asset_bid_ask_frames'):
        for fn, node in reads_of_attr(M, attr):
            pm = parent_map(fn.node)
            p = pm.get(node)
            chain_ = []
            while isinstance(p, (ast.Attribute, ast.Call)):
                chain_.append(p.attr if isinstance(p, ast.Attribute) else '()')
                p = pm.get(p)
            if isinstance(p, (ast.For, ast.comprehension)) and ('items' in chain_ or 'values' in chain_ or 'keys' in chain_ or not chain_):
                # order-free uses: a dict/set comprehension, an order-free reduction over a generator, or a statement loop that only stores under keys
                ok = False
                if isinstance(p, ast.comprehension):
                    comp = pm.get(p)
                    ok = isinstance(comp, (ast.DictComp, ast.SetComp)) or (
                        isinstance(comp, ast.GeneratorExp) and isinstance(pm.get(comp), ast.Call) and isinstance(pm[comp].func, ast.Name) and pm[comp].func.id in (ORDER_FREE | {'dict'}))
                else:
                    ok = True
                    for b in p.body:
                        for s in ast.walk(b):
                            if isinstance(s, ast.Call) and isinstance(s.func, ast.Attribute) and s.func.attr in ('append', 'extend', 'insert', 'appendleft'):
                                ok = False
                            if isinstance(s, (ast.Break, ast.Return)):
                                ok = False
                            if isinstance(s, ast.Yield):
                                # a generator of (asset, value) pairs: order-free where every caller pours it into a dict / set / order-free reduction
                                sites_ = M.call_sites(fn.qn)
                                def poured(c_, n_):
                                    pp_ = parent_map(c_.node).get(n_)
                                    return isinstance(pp_, ast.Call) and isinstance(pp_.func, ast.Name) and pp_.func.id in (ORDER_FREE | {'dict'}) and n_ in pp_.args
                                if not sites_ or not all(poured(c_, n_) for c_, n_ in sites_):
                                    ok = False
                ctx.require(ok, 'C18.fs', 'the per-asset frame dicts are iterated only to build another dict keyed by asset (%s)' % fn.qn, fn.site(node),
                            key='C18.fs|iterate|%s' % fn.qn)


# ------------------------------------------------------------------------------------------------ randomness, time
def flows_only_to_label(M, fn, node, attr='order_id', depth=0):
    """the value computed at `node` (inside fn) reaches nothing but an assignment to <obj>.<attr>: directly, or as the return value of fn at every call site"""
    if depth > 3:
        return False
    pm = parent_map(fn.node)
    q, p = node, pm.get(node)
    while p is not None:
        if isinstance(p, ast.Attribute) and p.value is q and p.attr in ('hex', 'int', 'urn'):
            pass
        elif isinstance(p, ast.Call) and q in p.args and isinstance(p.func, ast.Name) and p.func.id in ('str', 'repr', 'format'):
            pass
        elif isinstance(p, ast.IfExp) and q in (p.body, p.orelse):
            pass
        elif isinstance(p, ast.Assign) and p.value is q:
            return all(isinstance(t, ast.Attribute) and t.attr == attr for t in p.targets)
        elif isinstance(p, ast.Return) and p.value is q:
            sites = [(c, n_) for c, n_ in M.call_sites(fn.qn) if isinstance(n_, ast.Call)]
            others = [(c, n_) for c, n_ in M.call_sites(fn.qn) if not isinstance(n_, ast.Call)]
            return bool(sites) and not others and all(flows_only_to_label(M, c, n_, attr, depth + 1) for c, n_ in sites)
        else:
            return False
        q, p = p, pm.get(p)
    return False


def _id_only_keys_own_table(fn, node):
    """id(x) (possibly inside a tuple) is used as a key and nothing else: the argument of .add/.discard/.remove/.get/.pop/.setdefault on a field of self, the left side of
    `in self.<field>`, or a subscript of a field of self.  (Keys of module-level tables outlive the objects: not accepted here.)"""
    pm = parent_map(fn.node)
    top = node
    while isinstance(pm.get(top), ast.Tuple):
        top = pm.get(top)
    par = pm.get(top)

    def self_field(x):
        while isinstance(x, ast.Subscript):
            x = x.value
        return isinstance(x, ast.Attribute) and isinstance(x.value, ast.Name) and x.value.id == 'self'
    if isinstance(par, ast.Call) and top in par.args and isinstance(par.func, ast.Attribute) and par.func.attr in ('add', 'discard', 'remove', 'get', 'pop', 'setdefault') \
            and self_field(par.func.value):
        return True
    if isinstance(par, ast.Compare) and par.left is top and all(isinstance(o, (ast.In, ast.NotIn)) for o in par.ops) and all(self_field(c) for c in par.comparators):
        return True
    if isinstance(par, ast.Subscript) and par.slice is top and self_field(par.value):
        return True
    if isinstance(par, ast.Assign) and len(par.targets) == 1 and isinstance(par.targets[0], ast.Name):
        # key = (id(ds), asset) ; ... key in self._t / self._t.add(key)
        nm = par.targets[0].id
        uses = [n for n in ast.walk(fn.node) if isinstance(n, ast.Name) and n.id == nm and isinstance(n.ctx, ast.Load)]
        ok = bool(uses)
        for u in uses:
            pu = pm.get(u)
            if isinstance(pu, ast.Call) and u in pu.args and isinstance(pu.func, ast.Attribute) and pu.func.attr in ('add', 'discard', 'remove', 'get', 'pop', 'setdefault') and self_field(pu.func.value):
                continue
            if isinstance(pu, ast.Compare) and pu.left is u and all(isinstance(o, (ast.In, ast.NotIn)) for o in pu.ops) and all(self_field(c) for c in pu.comparators):
                continue
            if isinstance(pu, ast.Subscript) and pu.slice is u and self_field(pu.value):
                continue
            ok = False
        return ok
    return False


def randomness(ctx):
    M = ctx.M
    n = 0
    for fn in M.all_funcs():
        for node in ast.walk(fn.node):
            if isinstance(node, ast.Call):
                name = M.ext_name(fn.mod, node.func)
                if name and (name.startswith(RANDOM_PREFIXES) or name in RANDOM_PREFIXES):
                    n += 1
                    tab = TABLED_RANDOM.get((fn.qn, name))
                    if not tab and name == 'uuid.uuid4' and flows_only_to_label(M, fn, node):
                        tab = 'random label: the value reaches only <order>.order_id (discharged by the order_id taint rule below)'
                    if not tab and name == 'builtins.id' and _id_only_keys_own_table(fn, node):
                        tab = 'identity of a live object used as (part of) a key of a table the object owner keeps on itself: looked up, never ordered, compared by size or shown'
                    ctx.require(bool(tab), 'C18.random', 'no untabled source of randomness, wall-clock time or object identity (%s in %s)' % (name, fn.qn), fn.site(node),
                                '%s differs from run to run' % name, key='C18.random|%s|%s' % (fn.qn, name))
    # dynamic imports hide a source from the enumeration above
    for fn in M.all_funcs():
        for node in ast.walk(fn.node):
            if isinstance(node, ast.Call) and ((isinstance(node.func, ast.Name) and node.func.id == '__import__') or
                                               (isinstance(node.func, ast.Attribute) and node.func.attr == 'import_module')):
                ctx.violation('C18.random', 'no dynamic import (the source enumeration is closed-world)', fn.site(node), ast.unparse(node)[:80], key='C18.random|dynamic-import|%s' % fn.qn)
    # module level too
    for mod, (rel, tree) in M.mods.items():
        for st in tree.body:
            if isinstance(st, (ast.FunctionDef, ast.ClassDef)):
                continue
            for node in ast.walk(st):
                if isinstance(node, ast.Call):
                    e = node.func
                    parts = []
                    while isinstance(e, ast.Attribute):
                        parts.append(e.attr)
                        e = e.value
                    if isinstance(e, ast.Name):
                        tgt = M.imports.get(mod, {}).get(e.id)
                        name = '.'.join([tgt or e.id] + list(reversed(parts)))
                        if name.startswith(RANDOM_PREFIXES):
                            ctx.violation('C18.random', 'no randomness or wall-clock time at import', '%s:%d' % (rel, node.lineno), name, key='C18.random|module|%s' % mod)
    ctx.floor('C18.random', 'random/time/identity call sites', n, 1)
    # taint: order_id is never compared, used as a key, sorted on, or used in arithmetic
    reads = reads_of_attr(M, 'order_id')
    ctx.floor('C18.random', 'reads of .order_id', len(reads), 1)
    def label_use(fn, node, depth=0):
        """(ok, why) for one use of the order id value at `node`: printed/formatted, handed to Transaction(...) or an order_id field, returned as a label,
        or passed to a package function whose parameter is itself only used that way"""
        pm = parent_map(fn.node)
        p = pm.get(node)
        ok, why = False, ''
        q = node
        while p is not None:
            if isinstance(p, ast.Tuple):
                q, p = p, pm.get(p)
                continue
            if isinstance(p, ast.BinOp) and isinstance(p.op, ast.Mod) and p.right is q:
                ok = True       # '%s' % (... order_id ...)
            elif isinstance(p, ast.Call) and q in p.args + [k.value for k in p.keywords]:
                f = p.func
                nm = f.id if isinstance(f, ast.Name) else (f.attr if isinstance(f, ast.Attribute) else '')
                ok = nm in ('Transaction', 'print', 'format', 'info', 'debug', 'warning', 'error', 'str', 'repr')
                why = 'passed to %s' % nm
                if not ok and depth < 3:
                    tg, how_, layer = M.resolve_call(fn, p)
                    if tg and all(t_.qn in M.funcs or True for t_ in tg):
                        ok = True
                        for t_ in tg:
                            ps_ = t_.pos_params
                            if t_.cls is not None and not t_.is_static and ps_ and ps_[0] in ('self', 'cls') and not how_.startswith('ctor'):
                                ps_ = ps_[1:]
                            elif how_.startswith('ctor') and ps_ and ps_[0] == 'self':
                                ps_ = ps_[1:]
                            pname = None
                            if q in p.args and p.args.index(q) < len(ps_):
                                pname = ps_[p.args.index(q)]
                            for k in p.keywords:
                                if k.value is q:
                                    pname = k.arg
                            if pname is None:
                                ok, why = False, 'passed to %s (parameter not identified)' % nm
                                break
                            for n2 in ast.walk(t_.node):
                                if isinstance(n2, ast.Name) and n2.id == pname and isinstance(n2.ctx, ast.Load):
                                    o2, w2 = label_use(t_, n2, depth + 1)
                                    if not o2:
                                        ok, why = False, 'passed to %s, where it is %s' % (nm, w2)
                                        break
                            if not ok:
                                break
            elif isinstance(p, (ast.JoinedStr, ast.FormattedValue)):
                ok = True
            elif isinstance(p, ast.Compare) and len(p.ops) == 1 and isinstance(p.ops[0], (ast.Is, ast.IsNot)) and \
                    any(isinstance(c_, ast.Constant) and c_.value is None for c_ in [p.left] + p.comparators):
                ok = True       # "was an id given?": a generated id is never None, so the answer does not depend on which id was generated
            elif isinstance(p, ast.keyword):
                q, p = p, pm.get(p)
                continue
            elif isinstance(p, ast.Assign):
                ok = all(isinstance(t, ast.Attribute) and t.attr == 'order_id' for t in p.targets)
                why = 'assigned to %s' % [ast.unparse(t) for t in p.targets]
            elif isinstance(p, ast.Return):
                ok = fn.name in ('_set_or_generate_order_id',) or flows_only_to_label(M, fn, q)
                why = 'returned'
            else:
                why = type(p).__name__
            break
        return ok, why
    for fn, node in reads:
        ok, why = label_use(fn, node)
        if not ok and why in ('Lambda', 'GeneratorExp', 'ListComp', 'DictComp', 'Starred', 'Yield'):
            # handed on inside a deferred or collected value: where it ends up is not followed
            ctx.undecided('C18.random', 'the random order id in %s flows only into messages and the Transaction\'s order_id' % fn.qn, fn.site(node), 'order_id goes into a %s' % why)
            continue
        ctx.require(ok, 'C18.random', 'the random order id in %s flows only into messages and the Transaction\'s order_id' % fn.qn, fn.site(node),
                    'order_id is used in a %s: results would depend on a random value' % why, key='C18.random|order_id|%s|%s' % (fn.qn, why.split(' ')[0]))
    # order_id parameter of Transaction is only stored
    ws = writers_of_attr(M, 'order_id')
    ctx.require(all(w.fn.name in ('__init__', '__post_init__') for w in ws), 'C18.random', 'order_id fields are set only by constructors', ws[0].where if ws else None, key='C18.random|order_id-writers')


# ------------------------------------------------------------------------------------------------ shared state
def _mutable_literal(v):
    if isinstance(v, (ast.List, ast.Dict, ast.Set, ast.ListComp, ast.DictComp, ast.SetComp)):
        return True
    if isinstance(v, ast.Call) and isinstance(v.func, (ast.Name, ast.Attribute)):
        nm = v.func.id if isinstance(v.func, ast.Name) else v.func.attr
        return nm in ('dict', 'list', 'set', 'defaultdict', 'OrderedDict', 'deque', 'Counter', 'WeakValueDictionary', 'WeakKeyDictionary') or nm[:1].isupper()
    return False


def shared_state(ctx):
    M = ctx.M
    # module-level bindings and who writes them
    n_glob = 0
    for mod, names in M.mod_globals.items():
        rel = M.mods[mod][0]
        for name, val in names.items():
            n_glob += 1
            mutable = _mutable_literal(val)
            writers = []
            for fn in M.all_funcs():
                # same-module writes through the bare name, other modules through <alias>.<name>
                declared_global = any(isinstance(n, ast.Global) and name in n.names for n in ast.walk(fn.node))
                for n in ast.walk(fn.node):
                    tg = []
                    if isinstance(n, ast.Assign):
                        tg = n.targets
                    elif isinstance(n, (ast.AugAssign, ast.AnnAssign)):
                        tg = [n.target]
                    elif isinstance(n, ast.Delete):
                        tg = n.targets
                    for t in tg:
                        b = t
                        sub = False
                        while isinstance(b, ast.Subscript):
                            b, sub = b.value, True
                        if fn.mod == mod and isinstance(b, ast.Name) and b.id == name and (sub or declared_global) and name not in fn.params:
                            writers.append((fn, n))
                        if isinstance(b, ast.Attribute) and b.attr == name and isinstance(b.value, ast.Name) and M.resolve_name(fn.mod, b.value.id) == 'mod:' + mod:
                            writers.append((fn, n))
                    if isinstance(n, ast.Call) and isinstance(n.func, ast.Attribute) and n.func.attr in ('append', 'extend', 'update', 'add', 'pop', 'clear', 'setdefault', 'insert',
                                                                                                        'remove', 'popitem', 'discard'):
                        b = n.func.value
                        while isinstance(b, ast.Subscript):
                            b = b.value
                        if fn.mod == mod and isinstance(b, ast.Name) and b.id == name and name not in fn.params and not _is_local(fn, name):
                            writers.append((fn, n))
                        if isinstance(b, ast.Attribute) and b.attr == name and isinstance(b.value, ast.Name) and M.resolve_name(fn.mod, b.value.id) == 'mod:' + mod:
                            writers.append((fn, n))
            for fn, n in writers:
                ok = (mod, name, fn.qn) == ('qstrader.settings', 'PRINT_EVENTS', 'qstrader.settings.set_print_events')
                # a module-level table whose entries are filed under the INSTANCE they belong to (TABLE.setdefault(self, {}), TABLE[self][k] = v) is per-instance state
                # kept outside the instance: nothing of it can reach another object.  Filed under id(self) it is not: ids are reused once an object is collected.
                topkey = None
                if isinstance(n, ast.Call) and n.args and n.func.attr in ('setdefault', 'pop') and isinstance(n.func.value, (ast.Name, ast.Attribute)):
                    topkey = n.args[0]
                else:
                    for t_ in (n.targets if isinstance(n, (ast.Assign, ast.Delete)) else [getattr(n, 'target', None)]):
                        b_ = t_
                        while isinstance(b_, ast.Subscript) and isinstance(b_.value, ast.Subscript):
                            b_ = b_.value
                        if isinstance(b_, ast.Subscript) and isinstance(b_.value, (ast.Name, ast.Attribute)):
                            topkey = b_.slice
                        elif isinstance(n, ast.Call) and isinstance(n.func.value, ast.Subscript):
                            pass
                if topkey is None and isinstance(n, ast.Call):
                    b_ = n.func.value
                    while isinstance(b_, ast.Subscript) and isinstance(b_.value, ast.Subscript):
                        b_ = b_.value
                    if isinstance(b_, ast.Subscript):
                        topkey = b_.slice
                inner = fn
                for g_ in getattr(fn, 'nested', {}).values():
                    if any(x_ is n for x_ in ast.walk(g_.node)):
                        inner = g_
                first = inner.pos_params[0] if inner.pos_params else None
                if not ok and first == 'self' and isinstance(topkey, ast.Name) and topkey.id == 'self':
                    ctx.holds('C18.shared', 'module-level table %s.%s is filed under the instance each entry belongs to (%s)' % (mod, name, fn.qn), fn.site(n))
                    continue
                if not ok and first == 'self' and isinstance(topkey, ast.Call) and isinstance(topkey.func, ast.Name) and topkey.func.id == 'id' and len(topkey.args) == 1 \
                        and isinstance(topkey.args[0], ast.Name) and topkey.args[0].id == 'self':
                    ctx.violation('C18.shared', 'module-level state %s.%s is never written at run time (%s)' % (mod, name, fn.qn), fn.site(n),
                                  'entries are filed under id(self): the id of a collected object is handed to a later one, which then finds the dead object\'s entries',
                                  key='C18.shared|%s.%s|%s' % (mod, name, fn.qn))
                    continue
                if not ok and _import_time_only(M, fn, inner):
                    # a registration decorator: it runs while the module is imported (applied to definitions), never during a session
                    ctx.holds('C18.shared', 'module-level table %s.%s is filled while the module is imported, by the registration decorator %s' % (mod, name, fn.qn), fn.site(n))
                    continue
                def _memo_shape(n_):
                    # TABLE[k] = <immutable snapshot> in a function that also looks TABLE[k] / TABLE.get(k) up; the snapshot may be bound to a name first
                    if not isinstance(n_, ast.Assign):
                        return False
                    IMM = ('tuple', 'frozenset', 'str', 'float', 'int')

                    def imm_(v_):
                        if isinstance(v_, ast.Call) and isinstance(v_.func, ast.Name) and v_.func.id in IMM:
                            return True
                        if isinstance(v_, ast.Name):
                            asg_ = [a_.value for a_ in ast.walk(inner.node) if isinstance(a_, ast.Assign) and any(isinstance(t2_, ast.Name) and t2_.id == v_.id for t2_ in a_.targets)]
                            # (the look-up itself - x = TABLE.get(k) - is the other binding of the same name)
                            asg_ = [a_ for a_ in asg_ if not (isinstance(a_, ast.Call) and isinstance(a_.func, ast.Attribute) and a_.func.attr == 'get'
                                                              and isinstance(a_.func.value, ast.Name) and a_.func.value.id == name)
                                    and not (isinstance(a_, ast.Subscript) and isinstance(a_.value, ast.Name) and a_.value.id == name)]
                            return bool(asg_) and all(imm_(a_) for a_ in asg_ if not isinstance(a_, ast.Name))
                        return False
                    for t_ in n_.targets:
                        if isinstance(t_, ast.Subscript) and isinstance(t_.value, ast.Name) and t_.value.id == name:
                            k_ = ast.unparse(t_.slice)
                            looked = any((isinstance(r_, ast.Subscript) and isinstance(r_.ctx, ast.Load) and isinstance(r_.value, ast.Name) and r_.value.id == name and ast.unparse(r_.slice) == k_) or
                                         (isinstance(r_, ast.Call) and isinstance(r_.func, ast.Attribute) and r_.func.attr == 'get' and isinstance(r_.func.value, ast.Name)
                                          and r_.func.value.id == name and len(r_.args) == 1 and ast.unparse(r_.args[0]) == k_) for r_ in ast.walk(inner.node))
                            if looked and imm_(n_.value):
                                return True
                    return False
                if not ok and isinstance(n, ast.Call) and isinstance(n.func, ast.Attribute) and n.func.attr == 'clear' and not n.args \
                        and any(_memo_shape(a_) for a_ in ast.walk(inner.node)):
                    # emptying a memo table only costs recomputation; the table itself is judged at the statement that files the entries
                    ctx.holds('C18.shared', 'module-level table %s.%s is a memo emptied as a whole when it grows too large (%s)' % (mod, name, fn.qn), fn.site(n))
                    continue
                if not ok and _memo_shape(n):
                    # a process-wide memo (look the key up, compute and file it on a miss): harmless iff the key carries everything an entry depends on and the entries
                    # are never changed by those who receive them (immutable snapshots, checked by the shape above)
                    try:
                        from ..lib import memo_tables
                        host_ = inner
                        while getattr(host_, 'parent', None) is not None:
                            host_ = host_.parent
                        mt_ = memo_tables(ctx, host_, summarise(ctx, host_, policy=default_policy)).get(name)
                    except Exception:
                        mt_ = None
                    if mt_ is None and host_.cls is None:
                        # the table is filled by a decorator of the package: judged on every function it decorates, as their callers see them
                        verdicts_ = []
                        for g_ in list(M.all_funcs()):
                            if g_.parent is None and any(isinstance((d_.func if isinstance(d_, ast.Call) else d_), ast.Name) and (d_.func if isinstance(d_, ast.Call) else d_).id == host_.name
                                                         for d_ in g_.node.decorator_list):
                                try:
                                    v_ = memo_tables(ctx, g_, summarise(ctx, g_, policy=default_policy)).get(name)
                                except Exception:
                                    v_ = None
                                verdicts_.append((g_, v_))
                        bad_ = [(g_, v_) for g_, v_ in verdicts_ if v_ is not None and v_[0] == 'unsound']
                        if bad_:
                            g_, v_ = bad_[0]
                            ctx.violation('C18.shared', 'the process-wide memo %s.%s answers what a fresh computation would (%s)' % (mod, name, g_.qn), g_.site(),
                                          'READ: as decorated by %s, %s files its answers under %s, which leaves out %s: another object that differs only there is handed the entry '
                                          'computed for the first' % (host_.name, g_.qn, fmt(v_[1])[:80], ', '.join(v_[2])), key='C18.shared|memo-key|%s.%s' % (mod, name))
                            continue
                        if verdicts_ and all(v_ is not None and v_[0] == 'sound' for _, v_ in verdicts_):
                            mt_ = verdicts_[0][1]
                    inst_ = 'the process-wide memo %s.%s answers what a fresh computation would (%s)' % (mod, name, fn.qn)
                    if mt_ is not None and mt_[0] == 'unsound':
                        ctx.violation('C18.shared', inst_, fn.site(n), 'READ: entries are filed under %s, which leaves out %s: another object (a later session) that differs only there is handed '
                                      'the entry computed for the first' % (fmt(mt_[1])[:80], ', '.join(mt_[2])), key='C18.shared|memo-key|%s.%s' % (mod, name))
                        continue
                    if mt_ is not None and mt_[0] == 'sound':
                        ctx.holds('C18.shared', inst_ + ': the key %s carries every field and argument the entries are computed from, and the entries are immutable' % fmt(mt_[1])[:80], fn.site(n))
                        continue
                    ctx.undecided('C18.shared', 'module-level state %s.%s is never written at run time (%s)' % (mod, name, fn.qn), fn.site(n),
                                  'a process-wide memo table: entries outlive the session that computed them')
                    continue
                ctx.require(ok, 'C18.shared', 'module-level state %s.%s is never written at run time (%s)' % (mod, name, fn.qn), fn.site(n),
                            'state that outlives a session makes a later run depend on an earlier one', key='C18.shared|%s.%s|%s' % (mod, name, fn.qn))
            if mutable and not writers:
                ctx.holds('C18.shared', 'module-level container %s.%s has no writer' % (mod, name), rel)
    ctx.floor('C18.shared', 'module-level bindings examined', n_glob, 8)
    # global statements
    for fn in M.all_funcs():
        for n in ast.walk(fn.node):
            if isinstance(n, ast.Global):
                ok = fn.qn == 'qstrader.settings.set_print_events' and n.names == ['PRINT_EVENTS']
                ctx.require(ok, 'C18.shared', 'the only global statement is the print switch (%s)' % fn.qn, fn.site(n), n.names, key='C18.shared|global|%s' % fn.qn)
    # PRINT_EVENTS is read only as the whole test of an if without else whose body only prints
    guards = 0
    for fn in M.all_funcs():
        pm = None
        for n in ast.walk(fn.node):
            if (isinstance(n, ast.Attribute) and n.attr == 'PRINT_EVENTS' and isinstance(n.ctx, ast.Load)) or (isinstance(n, ast.Name) and n.id == 'PRINT_EVENTS' and isinstance(n.ctx, ast.Load)):
                pm = pm or parent_map(fn.node)
                p = pm.get(n)
                # `if PRINT_EVENTS:` or `if <side-effect-free test> and PRINT_EVENTS:` whose body only prints
                holder = n
                if isinstance(p, ast.BoolOp) and isinstance(p.op, ast.And) and not any(isinstance(x, ast.Call) for v in p.values for x in ast.walk(v)):
                    holder, p = p, pm.get(p)
                ok = isinstance(p, ast.If) and p.test is holder and not p.orelse and all(_only_prints(b, fn) for b in p.body)
                guards += 1
                ctx.require(ok, 'C18.shared', 'the print switch only guards print statements (%s)' % fn.qn, fn.site(n),
                            'PRINT_EVENTS influences more than console output', key='C18.shared|print|%s' % fn.qn)
    ctx.floor('C18.shared', 'PRINT_EVENTS guards', guards, 8)
    # mutable default arguments are never written through
    nd = 0
    for fn in M.all_funcs():
        for p, d in fn.defaults().items():
            if not _mutable_literal(d):
                continue
            nd += 1
            bad = None
            fields = []
            for n in ast.walk(fn.node):
                if isinstance(n, ast.Call) and isinstance(n.func, ast.Attribute) and isinstance(n.func.value, ast.Name) and n.func.value.id == p and \
                        n.func.attr in ('append', 'extend', 'update', 'add', 'pop', 'clear', 'insert', 'remove', 'sort', 'reverse', 'setdefault'):
                    bad = n
                if isinstance(n, (ast.Assign, ast.AugAssign)):
                    for t in (n.targets if isinstance(n, ast.Assign) else [n.target]):
                        if isinstance(t, ast.Subscript) and isinstance(t.value, ast.Name) and t.value.id == p:
                            bad = n
                        if isinstance(t, ast.Attribute) and isinstance(n, ast.Assign) and isinstance(n.value, ast.Name) and n.value.id == p:
                            fields.append(t.attr)
            ctx.require(bad is None, 'C18.shared', 'the shared default object of %s(%s=...) is not mutated in place' % (fn.qn, p), fn.site(bad) if bad else fn.site(),
                        key='C18.shared|default|%s|%s' % (fn.qn, p))
            for f in fields:
                if isinstance(d, ast.Call):
                    continue      # an object default (ZeroFeeModel()): stateless classes are covered by the C05 purity rules
                ws = [w for w in writers_of_attr(M, f, owner=fn.cls.name if fn.cls else None) if not w.how.startswith('assign:field')]
                ws = [w for w in ws if w.fn.cls is not None and fn.cls is not None and w.fn.cls.name == fn.cls.name]
                ctx.require(not ws, 'C18.shared', 'the field holding the shared default of %s(%s=...) is never mutated in place' % (fn.qn, p), ws[0].where if ws else fn.site(),
                            key='C18.shared|default-field|%s|%s' % (fn.qn, f))
    ctx.floor('C18.shared', 'mutable default arguments examined', nd, 3)
    # class-level mutables
    for c in M.classes.values():
        for name, v in c.class_attrs.items():
            if name == '__metaclass__':
                continue
            if _mutable_literal(v):
                from ..lib import class_level_table
                writers_ = [w for w in writers_of_attr(M, name, owner=c.name)]
                if not class_level_table(M, c, name):
                    # a class-body default that every construction replaces with the instance's own object: nothing is shared
                    ctx.holds('C18.shared', 'class-level default %s.%s is rebound per instance by the constructor' % (c.name, name), c.path)
                    continue
                if not writers_ and not any(isinstance(n_, ast.Attribute) and n_.attr == name and isinstance(n_.ctx, ast.Store) for g_ in M.all_funcs() for n_ in ast.walk(g_.node)):
                    # a table written out in the class body and never written to: a constant
                    ctx.holds('C18.shared', 'class-level table %s.%s is never written' % (c.name, name), c.path)
                    continue
            ctx.require(not _mutable_literal(v), 'C18.shared', 'no class-level mutable state (%s.%s)' % (c.name, name), c.path, key='C18.shared|class|%s.%s' % (c.name, name))


def _import_time_only(M, fn, inner):
    """fn (a module-level function) is used only as a decorator of definitions - `@fn` / `@fn(args)` - so that its body, and the body of the function it returns,
    run while modules are imported and at no other time"""
    while getattr(fn, 'parent', None) is not None:
        fn = fn.parent          # the function a registering decorator returns runs when the decorator is applied
    # how deep inside the decorator the statement's own function is defined (the model keeps nested functions flat under their outermost function)
    def _depth(node, target, d):
        for ch in ast.iter_child_nodes(node):
            if ch is target:
                return d
            r_ = _depth(ch, target, d + (1 if isinstance(ch, (ast.FunctionDef, ast.Lambda)) else 0))
            if r_ is not None:
                return r_
        return None
    depth_ = 0 if inner is fn or inner.node is fn.node else ((_depth(fn.node, inner.node, 0) or 0) + 1)
    if fn.cls is not None:
        return False
    # what runs at import: the decorator itself (@fn) and, for a factory (@fn(args)), the function it returns.  A function nested deeper - the wrapper that REPLACES the
    # decorated function - runs whenever that function is called
    as_factory = any(isinstance(d_, ast.Call) and isinstance(d_.func, ast.Name) and d_.func.id == fn.name
                     for o_ in list(M.all_funcs()) + list(M.classes.values()) for d_ in getattr(o_.node, 'decorator_list', []))
    if depth_ > (1 if as_factory else 0):
        return False
    used_as_deco = False
    for g in list(M.all_funcs()):
        for d_ in g.node.decorator_list:
            dn = d_.func if isinstance(d_, ast.Call) else d_
            if isinstance(dn, ast.Name) and dn.id == fn.name:
                used_as_deco = True
    for c in M.classes.values():
        for d_ in getattr(c.node, 'decorator_list', []):
            dn = d_.func if isinstance(d_, ast.Call) else d_
            if isinstance(dn, ast.Name) and dn.id == fn.name:
                used_as_deco = True
    if not used_as_deco:
        return False
    deco_nodes = {id(d_.func if isinstance(d_, ast.Call) else d_) for g in M.all_funcs() for d_ in g.node.decorator_list}
    deco_nodes |= {id(d_.func if isinstance(d_, ast.Call) else d_) for c in M.classes.values() for d_ in getattr(c.node, 'decorator_list', [])}
    for g in M.all_funcs():
        for n_ in ast.walk(g.node):
            if isinstance(n_, ast.Name) and n_.id == fn.name and isinstance(n_.ctx, ast.Load) and id(n_) not in deco_nodes and g.mod == fn.mod and g is not fn and g.parent is not fn:
                return False
    return True


def _only_prints(stmt, fn):
    """the statement only produces console output: print(...), preparing the text in LOCAL variables (assignments to / in-place updates of names that are not
    parameters), or queueing a print for later (steps.append(partial(print, ...)) / append(lambda: print(...)))"""
    def is_print_call(c):
        return isinstance(c, ast.Call) and isinstance(c.func, ast.Name) and c.func.id == 'print'

    def deferred_print(a):
        if isinstance(a, ast.Lambda):
            return is_print_call(a.body)
        return isinstance(a, ast.Call) and ast.unparse(a.func).split('.')[-1] == 'partial' and a.args and isinstance(a.args[0], ast.Name) and a.args[0].id == 'print'
    params = set(fn.params) | ({p_ for g_ in getattr(fn, 'nested', {}).values() for p_ in g_.params})
    if isinstance(stmt, ast.Expr) and is_print_call(stmt.value):
        return True
    if isinstance(stmt, ast.Expr) and isinstance(stmt.value, ast.Yield) and stmt.value.value is not None and deferred_print(stmt.value.value):
        return True         # a print handed to the caller as a deferred step
    if isinstance(stmt, ast.Expr) and isinstance(stmt.value, ast.Call) and isinstance(stmt.value.func, ast.Attribute) and isinstance(stmt.value.func.value, ast.Name):
        nm, meth = stmt.value.func.value.id, stmt.value.func.attr
        if meth == 'append' and len(stmt.value.args) == 1 and deferred_print(stmt.value.args[0]):
            return True
        if meth in ('update', 'append', 'extend', 'setdefault') and nm not in params and nm not in ('self', 'cls'):
            return not any(isinstance(x_, ast.Call) and not is_print_call(x_) and not (isinstance(x_.func, ast.Name) and x_.func.id in ('str', 'repr', 'format', 'round', 'len', 'dict', 'float', 'int'))
                           and x_ is not stmt.value for x_ in ast.walk(stmt))
    if isinstance(stmt, ast.Assign) and all(isinstance(t_, ast.Name) and t_.id not in params for t_ in stmt.targets):
        return not any(isinstance(x_, ast.Call) and not (isinstance(x_.func, ast.Name) and x_.func.id in ('str', 'repr', 'format', 'round', 'len', 'dict', 'float', 'int'))
                       and not (isinstance(x_.func, ast.Attribute) and x_.func.attr in ('strftime', 'format', 'upper', 'lower', 'join')) for x_ in ast.walk(stmt.value))
    return False


def _ctor_only(M, m, depth=0):
    """a private helper all of whose call sites are in the constructor of its class (or in such helpers)"""
    if depth > 4 or not m.name.startswith('_'):
        return False
    sites = M.call_sites(m.qn)
    if not sites:
        return False
    for fn, n in sites:
        if fn.cls is not m.cls:
            return False
        if fn.name != '__init__' and not _ctor_only(M, fn, depth + 1):
            return False
    return True


def _field_is_read(M, fld, skip=None):
    """some code loads <x>.<fld> for its value: not merely as the container being stored into (x.f[k] = v) or grown by a statement-level mutator call"""
    for fn in M.all_funcs():
        if fn.parent is not None or (skip is not None and fn.qn == skip.qn):
            continue
        pm = None
        for n in ast.walk(fn.node):
            if isinstance(n, ast.Attribute) and n.attr == fld and isinstance(n.ctx, ast.Load):
                if pm is None:
                    pm = parent_map(fn.node)
                top = n
                while isinstance(pm.get(top), ast.Subscript) and pm[top].value is top:
                    top = pm[top]
                par = pm.get(top)
                if isinstance(top, ast.Subscript) and isinstance(top.ctx, ast.Store) and isinstance(par, (ast.Assign, ast.AnnAssign)):
                    continue          # x.f[k] = v (not `+=`, which reads)
                if top is n and isinstance(par, ast.Subscript) and isinstance(par.ctx, ast.Store):
                    continue
                if isinstance(par, ast.Attribute) and par.attr in (MUTATORS | {'add', 'appendleft'}) and par.attr not in ('pop', 'popleft', 'popitem', 'get', 'setdefault') \
                        and isinstance(pm.get(par), ast.Call) and isinstance(pm.get(pm[par]), ast.Expr):
                    continue          # x.f.append(v) as a statement
                return True
    return False


def _is_local(fn, name):
    for n in ast.walk(fn.node):
        if isinstance(n, ast.Assign):
            for t in n.targets:
                if isinstance(t, ast.Name) and t.id == name:
                    return True
    return False


# ------------------------------------------------------------------------------------------------ memoisation
IMMUTABLE_EXT = {'INT', 'FLOAT', 'ROUND', 'STR', 'LEN', 'SUM', 'MAX', 'MIN', 'ABS', 'FLOOR', 'CEIL', 'TRUNC', 'SQRT', 'ISNAN', 'ISCLOSE', 'MISCLOSE', 'BOOL', 'ANY', 'ALL', 'TUPLE',
                 'builtins.frozenset', 'pandas.Timestamp', 'pandas.Timedelta', 'pandas.to_datetime', 'datetime.datetime', 'datetime.date', 'datetime.time', 'datetime.timedelta', 'NAN',
                 'COPYSIGN', 'EXP', 'LOG', 'MOD', 'FLOORDIV', 'REPR', 'HASH'}
MUTABLE_EXT = {'LIST', 'DICT', 'SET', 'SORTED', 'CONCAT', 'APPENDED', 'EXTENDED', 'UPDATED', 'SETITEM', 'collections.deque', 'collections.OrderedDict', 'collections.defaultdict',
               'pandas.DataFrame', 'pandas.Series', 'ARRAY', 'numpy.asarray', 'numpy.zeros', 'numpy.ones', 'numpy.empty', 'COPY', 'copy.deepcopy', 'DICT.fromkeys'}


_IMMUTABLE_RECORDS = set()


def _note_immutable_records(M):
    for c in M.classes.values():
        if any(b.split('.')[-1] == 'NamedTuple' for b in c.base_names) or any(
                isinstance(d, ast.Call) and ast.unparse(d.func).split('.')[-1] == 'dataclass' and any(k.arg == 'frozen' and isinstance(k.value, ast.Constant) and k.value.value is True
                                                                                                     for k in d.keywords) for d in c.node.decorator_list):
            _IMMUTABLE_RECORDS.add(c.name)


def _mutability(t):
    """'immutable' | 'flat' (a mutable container of immutable/opaque elements) | 'deep' (mutable objects inside a mutable container) | 'unknown'"""
    h = t[0]
    if h in ('num', 'str', 'const', 'fmt', 'cmp', 'not', 'and', 'or', 'rat', 'ext', 'fn', 'pow'):
        return 'immutable'
    if h == 'tuple':
        ks = {_mutability(x) for x in t[1]}
        return 'immutable' if ks <= {'immutable'} else ('unknown' if ks <= {'immutable', 'unknown'} else 'deep')
    if h in ('list', 'set'):
        ks = {_mutability(x) for x in t[1]}
        return 'flat' if ks <= {'immutable', 'unknown'} else 'deep'
    if h == 'dict':
        ks = {_mutability(v) for _, v in t[1]}
        return 'flat' if ks <= {'immutable', 'unknown'} else 'deep'
    if h == 'comp':
        elt = t[2]
        if t[1] == 'dict' and elt[0] == 'tuple' and len(elt[1]) == 2:
            elt = elt[1][1]
        k = _mutability(elt)
        return 'flat' if k in ('immutable', 'unknown') else 'deep'
    if h == 'accum':
        return 'flat'
    if h == 'new':
        if t[1] in _IMMUTABLE_RECORDS:
            # a NamedTuple / frozen dataclass: as immutable as what it holds
            ks = {_mutability(v) for _, v in t[2]}
            return 'immutable' if ks <= {'immutable'} else ('unknown' if ks <= {'immutable', 'unknown'} else 'deep')
        return 'deep'
    if h == 'ite':
        ks = {_mutability(t[2]), _mutability(t[3])}
        for k in ('deep', 'flat', 'unknown'):
            if k in ks:
                return k
        return 'immutable'
    if h == 'call' and t[1][0] == 'ext':
        if t[1][1] in IMMUTABLE_EXT:
            return 'immutable'
        if t[1][1] in MUTABLE_EXT:
            inner = {_mutability(a) for a in t[2]} | {_mutability(v) for _, v in t[3]}
            return 'deep' if (inner & {'flat', 'deep'}) and t[1][1] not in ('SORTED', 'LIST', 'SET') else 'flat'
        return 'unknown'
    if h in ('var', 'attr', 'sub', 'elem', 'bv'):
        return 'unknown'
    return 'unknown'


def new_memo(ctx, f):
    """A memoised function outside the table.  Answering from the cache equals recomputing when the body (a) has no effect, (b) reads nothing that can change
    between calls except its arguments, and (c) hands out a value no caller changes: an immutable value, or a container that every call site only reads."""
    from ..lib import all_terms_of
    from ..symex import Undecided
    M = ctx.M
    inst = 'memoised function %s gives the answer a fresh computation would give' % f.qn
    try:
        ps = summarise(ctx, f, policy=default_policy)
    except Undecided as u:
        ctx.undecided('C18.memo', inst, f.site(), 'body not summarised: %s' % str(u)[:120])
        return
    open_ = []
    for p in ps:
        ws = heap_writes(p)
        if ws:
            ctx.violation('C18.memo', '%s has no side effect (a cached call skips it)' % f.qn, ws[0].site, '%s %s' % (ws[0].how, fmt(ws[0].loc)[:80]), key='C18.memo|pure|%s' % f.qn)
            return
        for t in all_terms_of(p):
            for s in T.subterms(t):
                if s[0] == 'attr' and s[1] == V('self') and f.cls is not None and M.field_written_outside_init(f.cls, s[2]):
                    ctx.violation('C18.memo', '%s reads only its arguments and state fixed at construction' % f.qn, f.site(),
                                  'self.%s is rewritten after construction: a cached answer goes stale' % s[2], key='C18.memo|reads|%s' % f.qn)
                    return
                if s[0] == 'call' and s[1][0] == 'ext' and any(s[1][1].startswith(px) for px in RANDOM_PREFIXES):
                    ctx.violation('C18.memo', '%s reads only its arguments and state fixed at construction' % f.qn, f.site(), 'calls %s' % s[1][1], key='C18.memo|reads|%s' % f.qn)
                    return
                if s[0] == 'attr' and s[1][0] == 'mod' and s[1][1].split('.')[-1] == 'settings':
                    open_.append('reads settings.%s' % s[2])
    if f.cls is not None and not f.is_static and ('__eq__' in f.cls.methods or '__hash__' in f.cls.methods):
        ctx.violation('C18.memo', '%s is keyed by instance identity (the class defines no __eq__/__hash__)' % f.qn, f.site(),
                      'value-based equality lets two objects with different contents share cache entries', key='C18.memo|identity|%s' % f.qn)
        return
    vals = [p.value for p in ps if p.outcome == 'return' and p.value is not None]
    _note_immutable_records(M)
    kinds = {_mutability(v) for v in vals}
    if kinds <= {'immutable'}:
        if open_:
            ctx.undecided('C18.memo', inst, f.site(), '; '.join(sorted(set(open_))[:3]))
        else:
            ctx.holds('C18.memo', inst + ' (no effect, reads its arguments and construction-time state, returns an immutable value)', f.site())
        return
    _result_aliasing(ctx, f, inst, 'deep' in kinds, open_)


def _result_aliasing(ctx, f, inst, deep, open_):
    """the (memoised) object f hands out is the stored one: what do the call sites do with it?  A caller that returns it hands it on to its own callers."""
    from ..symex import Undecided
    M = ctx.M
    # the cached object is handed to every caller: what do the call sites do with it?  A caller that returns it hands it on to its own callers.
    verdict = []
    visited = set()

    def uses_of(src, depth):
        sites = M.call_sites(src.qn)
        if not sites:
            open_.append('no call site of %s was resolved' % src.qn)
            return

        def keep_call(caller, callee, depth_):
            return callee.qn != src.qn and default_policy(caller, callee, depth_)
        for caller, node in sites:
            host = caller
            while getattr(host, 'parent', None) is not None:
                host = host.parent
            if (src.qn, host.qn) in visited:
                continue
            visited.add((src.qn, host.qn))
            try:
                cps = summarise(ctx, host, policy=keep_call)
            except Undecided as u:
                open_.append('call site in %s not summarised' % host.qn)
                continue
            hands_on = False
            for p in cps:
                evs = list(p.flat_events())
                for e in evs:
                    if e.kind != 'call' or src.qn not in e.callee:
                        continue
                    R = e.result
                    for w in evs:
                        if w.kind != 'write':
                            continue
                        base = w.loc
                        while base[0] in ('sub', 'attr') and base != R:
                            base = base[1]
                        if base == R and (str(w.how).startswith('mut:') or w.loc != R):
                            verdict.append((w.site, '%s on the memoised result in %s: every later call with the same arguments sees the change' % (w.how, host.qn)))
                            return
                        if w.value is not None and not w.d.get('local') and any(s_ == R for s_ in T.subterms(w.value)):
                            shallow = w.value != R and all(_wrapped_by_copy(w.value, R))
                            if deep or not shallow:
                                verdict.append((w.site, 'the memoised %s is stored into %s in %s: objects built once are shared by every holder' % (
                                    'container of mutable objects' if deep else 'object', fmt(w.loc)[:60], host.qn)))
                                return
                    for c2 in evs:
                        if c2.kind == 'call' and c2 is not e and any(not q.startswith(('ext:', 'meth:')) for q in c2.callee) and \
                                any(R == a_ or (isinstance(a_, tuple) and any(s_ == R for s_ in T.subterms(a_))) for a_ in c2.args.values()):
                            open_.append('the memoised result is passed on to %s' % '|'.join(c2.callee)[:60])
                    if p.outcome == 'return' and p.value is not None and any(s_ == R for s_ in T.subterms(p.value)) and (deep or not all(_wrapped_by_copy(p.value, R))):
                        hands_on = True
            if hands_on:
                if depth >= 4:
                    open_.append('the memoised result is handed on through %s and further' % host.qn)
                else:
                    uses_of(host, depth + 1)
                    if verdict:
                        return
    uses_of(f, 0)
    if verdict:
        ctx.violation('C18.memo', 'the value %s hands out is never changed by a caller (it is the cached object itself)' % f.qn, verdict[0][0], verdict[0][1], key='C18.memo|aliased|%s' % f.qn)
    elif open_:
        ctx.undecided('C18.memo', inst, f.site(), '; '.join(sorted(set(open_))[:3]))
    else:
        ctx.holds('C18.memo', inst + ' (no effect; the mutable result is only read where it is used)', f.site())


def _wrapped_by_copy(t, R):
    """for every occurrence of R in t: is it under a copying constructor (list(R), sorted(R), a comprehension over R, dict(R), R.copy())?  -> iterable of bools"""
    out = []

    def walk(x, copied):
        if x == R:
            out.append(copied)
            return
        if not isinstance(x, tuple):
            return
        c2 = copied
        if x[0] == 'call' and x[1] in (('ext', 'LIST'), ('ext', 'SORTED'), ('ext', 'DICT'), ('ext', 'SET'), ('ext', 'TUPLE'), ('meth', 'copy'), ('ext', 'COPY'), ('ext', 'copy.deepcopy'),
                                       ('ext', 'OP_BitOr'), ('ext', 'OP_BitAnd'), ('ext', 'CONCAT')):
            c2 = True           # (a | b, a & b, a + b build a new dict / set / list from their operands)
        if x[0] == 'dict':
            for k_, v_ in x[1]:
                if k_ is None:
                    walk(v_, True)          # {**R, ...}: a new dict with R's entries
                else:
                    walk(k_, copied)
                    walk(v_, copied)
            return
        if x[0] == 'comp':
            for shape, src, conds in x[3]:
                walk(src, True)
                for c_ in conds:
                    walk(c_, copied)
            walk(x[2], copied)
            return
        for y in x[1:]:
            if isinstance(y, tuple):
                if y and isinstance(y[0], str):
                    walk(y, c2)
                else:
                    for z in y:
                        if isinstance(z, tuple):
                            if z and isinstance(z[0], str):
                                walk(z, c2)
                            else:
                                for q in z:
                                    if isinstance(q, tuple) and q and isinstance(q[0], str):
                                        walk(q, c2)
    walk(t, False)
    return out or [True]


STATELESS_CLASSES = ('CSVDailyBarDataSource', 'BacktestDataHandler', 'SingleSignalAlphaModel', 'FixedSignalsAlphaModel', 'StaticUniverse', 'DynamicUniverse',
                  'FixedWeightPortfolioOptimiser', 'EqualWeightPortfolioOptimiser', 'PercentFeeModel', 'ZeroFeeModel', 'SimulatedExchange',
                  'DollarWeightedCashBufferedOrderSizer', 'LongShortLeveragedOrderSizer', 'PortfolioConstructionModel', 'ExecutionHandler', 'QuantTradingSystem')


def _lazy_slot(ctx, c, m, fld):
    """`if self.F is None: self.F = f(self.a, self.b)` ... answer from self.F: a figure kept until one of its inputs is assigned again.  Sound when every method of the
    class (setters included) that assigns an input also sets self.F back to None.  -> (True, inputs) | (False, why) | None (not this idiom)"""
    from ..symex import Undecided
    # read off the syntax first: `if self.F is None: ... self.F = <value> ...` as the only non-None assignment of self.F in the class
    def is_slot(x):
        return isinstance(x, ast.Attribute) and x.attr == fld and isinstance(x.value, ast.Name) and x.value.id == 'self'
    fills, others = [], []
    for g in c.methods.values():
        for n_ in ast.walk(g.node):
            if isinstance(n_, ast.Assign) and any(is_slot(t_) for t_ in n_.targets):
                if isinstance(n_.value, ast.Constant) and n_.value.value is None:
                    continue
                (fills if g is m else others).append(n_)
    if fills and not others:
        guards = [k for k in ast.walk(m.node) if isinstance(k, ast.If) and isinstance(k.test, ast.Compare) and len(k.test.ops) == 1 and isinstance(k.test.ops[0], ast.Is)
                  and is_slot(k.test.left) and isinstance(k.test.comparators[0], ast.Constant) and k.test.comparators[0].value is None]
        if guards and all(any(f_ is x_ for g_ in guards for b_ in g_.body for x_ in ast.walk(b_)) for f_ in fills):
            def reads(node, depth=0, seen=None):
                seen = seen if seen is not None else set()
                out = set()
                for x_ in ast.walk(node):
                    if isinstance(x_, ast.Attribute) and isinstance(x_.value, ast.Name) and x_.value.id == 'self' and isinstance(x_.ctx, ast.Load):
                        h = c.lookup(x_.attr)
                        if h is None:
                            out.add(x_.attr)
                        elif depth < 3 and h.qn not in seen:
                            seen.add(h.qn)
                            out |= reads(h.node, depth + 1, seen)
                return out
            deps_ = set()
            for g_ in guards:
                for b_ in g_.body:
                    deps_ |= reads(b_)
            deps_.discard(fld)
            params_ = {p_ for p_ in m.params if p_ not in ('self', 'cls')}
            uses_param = any(isinstance(x_, ast.Name) and x_.id in params_ for g_ in guards for b_ in g_.body for x_ in ast.walk(b_))
            if deps_ and not uses_param:
                return _lazy_slot_writers(ctx, c, m, fld, deps_)
    try:
        ps = summarise(ctx, m, policy=default_policy)
    except Undecided:
        return None
    slot = A('self', fld)
    deps = set()
    nw = 0
    for p in ps:
        for w in heap_writes(p, into_loops=False):
            if w.loc == slot:
                if w.value is None or w.value == T.NONE:
                    continue
                guarded = any(v_ and c_[0] == 'cmp' and c_[1] in ('is', '==') and {c_[2], c_[3]} == {slot, T.NONE} for c_, v_, _ in p.conds)
                if not guarded:
                    return None
                nw += 1
                if any(s_[0] == 'var' and s_[1] in m.params and s_[1] != 'self' for s_ in T.subterms(w.value)):
                    return None         # depends on an argument: a memo, not a kept figure
                if any(s_[0] == 'call' and s_[1][0] in ('fn', 'meth') for s_ in T.subterms(w.value)):
                    return (False, 'it is computed by calls this rule does not follow (%s)' % fmt(w.value)[:60])
                deps |= {s_[2] for s_ in T.subterms(w.value) if s_[0] == 'attr' and s_[1] == V('self') and s_[2] != fld}
    if not nw or not deps:
        return None
    return _lazy_slot_writers(ctx, c, m, fld, deps)


def _lazy_slot_writers(ctx, c, m, fld, deps):
    def assigns(g, names):
        return any(isinstance(t_, ast.Attribute) and isinstance(t_.value, ast.Name) and t_.value.id == 'self' and t_.attr in names
                   for n_ in ast.walk(g.node) for t_ in ((n_.targets if isinstance(n_, ast.Assign) else [n_.target] if isinstance(n_, (ast.AugAssign, ast.AnnAssign)) else [])))
    proj = {ch_[0]: pn_ for ch_, (cn_, pn_) in ctx.M.projections().items() if len(ch_) == 1}
    names = set(deps) | {proj.get(d_, d_) for d_ in deps} | {k_ for k_, v_ in proj.items() if v_ in deps}
    bad = [g.qn for g in c.methods.values() if g.name != '__init__' and not _ctor_only(ctx.M, g) and g.qn != m.qn and assigns(g, names) and not assigns(g, {fld})]
    outside = [w for d_ in names for w in writers_of_attr(ctx.M, d_, owner=c.name) if w.fn.cls is None or w.fn.cls.name not in ctx.M.owner_family(c.name)]
    if bad:
        return (False, '%s assigns an input (%s) without dropping it' % (bad[0], ', '.join(sorted(deps))))
    if outside:
        return (False, 'an input (%s) is also assigned from outside the class (%s)' % (', '.join(sorted(deps)), outside[0].fn.qn))
    return (True, ', '.join(sorted(deps)))


def _revalidated(ctx, m, state_fields):
    """some path of m tests the question (a parameter) against the kept state and then re-seeds a kept field from the question alone"""
    from ..symex import Undecided
    try:
        ps = summarise(ctx, m, policy=default_policy)
    except Undecided:
        return None
    params = {p_ for p_ in m.params if p_ not in ('self', 'cls')}
    self_ = V('self')

    def state_reads(t):
        return {s_[2] for s_ in T.subterms(t) if s_[0] == 'attr' and s_[1] == self_ and s_[2] in state_fields}

    def param_reads(t):
        return {s_[1] for s_ in T.subterms(t) if s_[0] == 'var' and s_[1] in params}
    for p in ps:
        tested = [c_ for c_, _, _ in p.conds if c_[0] == 'cmp' and c_[1] in ('<', '<=', '==') and state_reads(c_) and param_reads(c_)]
        if not tested:
            continue
        for w in heap_writes(p, into_loops=False):
            if w.loc[0] == 'attr' and w.loc[1] == self_ and w.loc[2] in state_fields and w.value is not None and param_reads(w.value) and not state_reads(w.value):
                return 'on path [%s] it is compared with the question and self.%s is rebuilt from the question alone (%s)' % (fmt(tested[0])[:80], w.loc[2], fmt(w.value)[:60])
    return None


def _reset_only(m, fld):
    """the method never reads self.<fld> and assigns it nothing but None / an empty literal"""
    n_w = 0
    for n in ast.walk(m.node):
        if isinstance(n, ast.Attribute) and n.attr == fld and isinstance(n.value, ast.Name) and n.value.id == 'self':
            if not isinstance(n.ctx, ast.Store):
                return False
    for n in ast.walk(m.node):
        if isinstance(n, (ast.AugAssign, ast.AnnAssign)) and any(isinstance(x, ast.Attribute) and x.attr == fld for x in ast.walk(n.target)):
            return False
        if isinstance(n, ast.Assign) and any(isinstance(x, ast.Attribute) and x.attr == fld and isinstance(x.value, ast.Name) and x.value.id == 'self' for t in n.targets for x in ast.walk(t)):
            if not all(isinstance(t, ast.Attribute) for t in n.targets):
                return False
            v = n.value
            empty = (isinstance(v, ast.Constant) and v.value is None) or (isinstance(v, (ast.Dict, ast.List, ast.Set, ast.Tuple)) and not (getattr(v, 'keys', None) or getattr(v, 'elts', None))) or \
                (isinstance(v, ast.Call) and isinstance(v.func, ast.Name) and v.func.id in ('dict', 'list', 'set', 'tuple') and not v.args and not v.keywords)
            if not empty:
                return False
            n_w += 1
    return n_w > 0


def state_scan(ctx, cnames):
    """hand-rolled state in the given classes (see the comment below); also used by the checks of the properties those classes carry"""
    M = ctx.M
    # hand-rolled state: a field written outside __init__ in a class on the pricing/alpha path.  Harmless when nothing ever reads it back (a record), or
    # when it is a memo table whose key carries every argument the stored value depends on; otherwise later answers depend on earlier queries.
    from ..lib import memo_tables
    from ..symex import Undecided
    for cname in cnames:
        c = M.cls(cname)
        if c is None:
            continue
        for name, m in sorted(c.methods.items()):
            if name == '__init__' or _ctor_only(M, m):
                continue
            if any(isinstance(d_, ast.Attribute) and d_.attr in ('setter', 'deleter') for d_ in m.node.decorator_list):
                continue            # a property setter runs when the caller assigns the attribute: configuration by the owner, like any public field
            found = {}          # field -> (node, how)
            for n in ast.walk(m.node):
                tg = []
                if isinstance(n, ast.Assign):
                    tg = n.targets
                elif isinstance(n, (ast.AugAssign, ast.AnnAssign)):
                    tg = [n.target]
                for t in tg:
                    b = t
                    while isinstance(b, ast.Subscript):
                        b = b.value
                    if isinstance(b, ast.Attribute) and isinstance(b.value, ast.Name) and b.value.id == 'self':
                        found.setdefault(b.attr, (n, 'written'))
                # in-place growth of a container held in a field is the same thing (self._seen.append(x), self._cache.setdefault(k, v), ...)
                if isinstance(n, ast.Call) and isinstance(n.func, ast.Attribute) and n.func.attr in (MUTATORS | {'setdefault', 'add', 'discard', 'popitem', 'appendleft', 'sort', 'reverse'}):
                    b = n.func.value
                    while isinstance(b, ast.Subscript):
                        b = b.value
                    if isinstance(b, ast.Attribute) and isinstance(b.value, ast.Name) and b.value.id == 'self':
                        tys = M.expr_types(m, n.func.value, M.local_env(m))
                        repo_typed = any(M.cls(t_) is not None and M.cls(t_).lookup(n.func.attr) is not None for t_ in tys)
                        if not repo_typed:
                            found.setdefault(b.attr, (n, 'grown in place (.%s)' % n.func.attr))
            if not found:
                continue
            memos = None
            for fld, (n, how) in sorted(found.items()):
                if _reset_only(m, fld):
                    ctx.holds('C18.memo', '%s only ever empties self.%s (dropping what is kept cannot make a later answer depend on an earlier question)' % (m.qn, fld), m.site(n))
                    continue
                if not _field_is_read(M, fld):
                    ctx.holds('C18.memo', '%s records into self.%s, which nothing reads back' % (m.qn, fld), m.site(n))
                    continue
                if not _field_is_read(M, fld, skip=m):
                    # only this method reads the field: does any path read the value an EARLIER call left there (a read before the path's own write)?
                    try:
                        mps = summarise(ctx, m, policy=default_policy)
                        from ..lib import all_terms_of
                        def read_terms(p_):
                            for e_ in p_.flat_events():
                                if e_.kind == 'write' and e_.value is not None:
                                    yield e_.value
                                elif e_.kind == 'call':
                                    yield from (a_ for a_ in e_.args.values() if isinstance(a_, tuple))
                                    if e_.d.get('recv') is not None:
                                        yield e_.d['recv']
                            for c_, _, _ in p_.conds:
                                yield c_
                            if p_.value is not None:
                                yield p_.value
                        pre = any(s_ == A('self', fld) for p_ in mps for t_ in read_terms(p_) for s_ in T.subterms(t_))
                    except Undecided:
                        pre = True
                    if not pre:
                        ctx.holds('C18.memo', '%s re-initialises self.%s before using it in every call (nothing carries over, nothing else reads it)' % (m.qn, fld), m.site(n))
                        continue
                if memos is None:
                    try:
                        mps0 = summarise(ctx, m, policy=default_policy)
                        memos = memo_tables(ctx, m, mps0)
                        from ..lib import slot_memos, set_memos
                        slots_ = slot_memos(ctx, m, mps0)
                        setm_ = set_memos(ctx, m, mps0)
                    except Undecided:
                        memos, slots_, setm_ = {}, [], []
                slot = next((s_ for s_ in slots_ if any((l_[1] if l_[0] == 'sub' else l_)[2] == fld for l_ in s_.get('result_locs', []) ) or fld in s_['tag']), None)
                if slot is not None:
                    inst_ = 'stateless components keep no state between calls (%s)' % m.qn
                    if slot['verdict'][0] == 'sound':
                        ctx.holds('C18.memo', '%s: self.%s remembers the last question and its answer; the question is kept as a snapshot (%s)' % (m.qn, fld, fmt(slot['key'])[:60]), m.site(n))
                    elif slot['verdict'][0] == 'unsound':
                        ctx.violation('C18.memo', inst_, m.site(n), 'self.%s: %s' % (fld, slot['verdict'][1]), key='C18.memo|state|%s|%s' % (m.qn, fld))
                    else:
                        ctx.undecided('C18.memo', inst_, m.site(n), 'self.%s: %s' % (fld, slot['verdict'][1]))
                    continue
                if how.startswith('grown in place (.add)') and not any(f_ == fld for f_, *_ in setm_):
                    # a set of remembered facts, every one of which was established without reading anything but the key it is filed under (see lib.set_memos)
                    try:
                        consulted_ = any(c_[0] == 'cmp' and c_[1] == 'in' and c_[3][0] == 'attr' and c_[3][2] == fld for p_ in mps0 for e_, l_, cs_ in __import__('qsverif.lib', fromlist=['nested_events']).nested_events(p_) for c_, _, _ in cs_)
                    except Exception:
                        consulted_ = False
                    if consulted_:
                        ctx.holds('C18.memo', '%s: self.%s remembers facts about its keys that do not depend on the query (nothing but the key is read where they are established)' % (m.qn, fld), m.site(n))
                        continue
                mt = memos.get(fld)
                shared = any(fld in k.class_attrs for k in c.mro()) and not any(w.fn.name == '__init__' or _ctor_only(M, w.fn) for w in writers_of_attr(M, fld, owner=cname))
                if mt is not None and mt[0] == 'sound' and not shared:
                    ctx.holds('C18.memo', '%s: self.%s is a memo table keyed by every argument its entries depend on (%s)' % (m.qn, fld, fmt(mt[1])[:60]), m.site(n))
                    # ... and the remembered object itself, when it is a container and is handed out as it is (not a copy), must not be changed by whoever receives it
                    try:
                        mps_ = summarise(ctx, m, policy=default_policy)
                        stored_ = [w_.value for p_ in mps_ for w_ in heap_writes(p_) if w_.loc[0] == 'sub' and w_.loc[1][0] == 'attr' and w_.loc[1][2] == fld and w_.value is not None]
                        kinds_ = {_mutability(v_) for v_ in stored_}
                        handed = False
                        for p_ in mps_:
                            if p_.outcome != 'return' or p_.value is None:
                                continue
                            for R_ in stored_ + [s_ for s_ in T.subterms(p_.value) if s_[0] == 'sub' and s_[1][0] == 'attr' and s_[1][2] == fld]:
                                if any(s_ == R_ for s_ in T.subterms(p_.value)) and not all(_wrapped_by_copy(p_.value, R_)):
                                    handed = True
                        if stored_ and not kinds_ <= {'immutable'} and handed and m.name != '__init__':
                            _result_aliasing(ctx, m, 'the remembered %s entries of %s are only read by those who receive them' % (fld, m.qn), 'deep' in kinds_, [])
                    except Undecided:
                        pass
                    continue
                if mt is not None and mt[0] == 'sound' and shared:
                    ctx.violation('C18.memo', 'stateless components keep no state between calls (%s)' % m.qn, m.site(n),
                                  'the memo table %s is a class attribute never rebound per instance: every %s shares it, and its key %s does not identify the instance'
                                  % (fld, cname, fmt(mt[1])[:60]), key='C18.memo|state|%s|%s' % (m.qn, fld))
                    continue
                if mt is not None and mt[0] == 'unsound':
                    from ..lib import validated_against_question
                    try:
                        checked_ = validated_against_question(M, m, {fld}, depth=1)
                    except Exception:
                        checked_ = False
                    if checked_:
                        # not a memo answered by key alone: what is found under the key (a cursor, a stamped entry) is compared with the question before it is used
                        ctx.undecided('C18.memo', 'stateless components keep no state between calls (%s)' % m.qn, m.site(n),
                                      'self.%s is filed under %s, which leaves out %s, but what is found there is compared with the question before use: whether that check is '
                                      'sufficient is not decided here' % (fld, fmt(mt[1])[:60], ', '.join(mt[2])))
                        continue
                    ctx.violation('C18.memo', 'stateless components keep no state between calls (%s)' % m.qn, m.site(n),
                                  'self.%s memoises under the key %s, which leaves out %s: a later query is answered with an earlier one\'s value' % (fld, fmt(mt[1])[:60], ', '.join(mt[2])),
                                  key='C18.memo|state|%s|%s' % (m.qn, fld))
                    continue
                if mt is not None and mt[0] == 'other' and 'many-to-one' in mt[1]:
                    ctx.undecided('C18.memo', 'stateless components keep no state between calls (%s)' % m.qn, m.site(n), 'self.%s: %s' % (fld, mt[1]))
                    continue
                if mt is not None and mt[0] == 'other' and 'cursor' in mt[1]:
                    # a table of per-key cursors advanced in place: whether answers still equal a fresh lookup depends on how the code rewinds - not decided here
                    ctx.undecided('C18.memo', 'stateless components keep no state between calls (%s)' % m.qn, m.site(n), 'self.%s: %s' % (fld, mt[1]))
                    continue
                tables_ = {k_ for k_, v_ in memos.items() if v_[0] == 'sound' or (v_[0] == 'other' and 'cursor' in v_[1])}
                if tables_ and _only_guards_resets(c, fld, tables_):
                    # the field is consulted for one thing only: deciding when to empty the memo/cursor tables (the time of the last query, a generation count)
                    ctx.undecided('C18.memo', 'stateless components keep no state between calls (%s)' % m.qn, m.site(n),
                                  'self.%s only decides when self.%s is emptied: whether that is often enough is the open question about those tables' % (fld, '/'.join(sorted(tables_))))
                    continue
                lz_ = _lazy_slot(ctx, c, m, fld)
                if lz_ is not None:
                    ok_, why_ = lz_
                    if ok_:
                        ctx.holds('C18.memo', '%s: self.%s is filled on demand from %s and dropped by every method that assigns one of them' % (m.qn, fld, why_), m.site(n))
                    else:
                        ctx.undecided('C18.memo', 'stateless components keep no state between calls (%s)' % m.qn, m.site(n), 'self.%s is filled on demand; %s' % (fld, why_))
                    continue
                rv_ = _revalidated(ctx, m, set(found))
                if rv_:
                    # a cursor that is checked against the question before it is used and rebuilt from the question alone when it does not apply: meant not to depend
                    # on history; whether the check is sufficient (and the walk forward complete) is an argument about its values, not made here
                    ctx.undecided('C18.memo', 'stateless components keep no state between calls (%s)' % m.qn, m.site(n),
                                  'self.%s is kept between calls, but %s' % (fld, rv_))
                    continue
                from ..lib import validated_against_question
                chk_ = None
                for g_ in c.methods.values():
                    if g_.name == '__init__':
                        continue
                    try:
                        if validated_against_question(M, g_, {fld}, depth=0):
                            chk_ = '%s compares what self.%s holds with its own argument before using it' % (g_.qn, fld)
                            break
                    except Exception:
                        pass
                    for q_ in ast.walk(g_.node):
                        if isinstance(q_, ast.Compare) and len(q_.ops) == 1 and isinstance(q_.ops[0], (ast.Eq, ast.NotEq)):
                            sd_ = [q_.left, q_.comparators[0]]
                            if any(isinstance(x_, ast.Attribute) and x_.attr == fld and isinstance(x_.value, ast.Name) and x_.value.id == 'self' for x_ in sd_) and \
                                    any(isinstance(x_, ast.Attribute) and x_.attr != fld and isinstance(x_.value, ast.Name) and x_.value.id == 'self' for x_ in sd_):
                                chk_ = '%s compares the snapshot self.%s with the field it was taken from (`%s`) and rebuilds on a difference' % (g_.qn, fld, ast.unparse(q_)[:50])
                    if chk_:
                        break
                if chk_:
                    ctx.undecided('C18.memo', 'stateless components keep no state between calls (%s)' % m.qn, m.site(n),
                                  'self.%s is kept between calls, but %s: whether that check is sufficient is not decided here' % (fld, chk_))
                    continue
                ctx.violation('C18.memo', 'stateless components keep no state between calls (%s)' % m.qn, m.site(n),
                              'self.%s is %s outside the constructor and read back: results depend on the history of earlier queries' % (fld, how),
                              key='C18.memo|state|%s|%s' % (m.qn, fld))


def closure_memos(ctx):
    """Memoisation by a decorator of the package: `def deco(method): table = {}; def wrapper(self, x): ... table[k] = method(self, x) ... return table[k]`.  The table
    lives as long as the decorated function does and is shared by every instance; the object handed out is the stored one.  Judged like any other memoised function
    (new_memo), and in addition the key must tell instances apart whenever the method reads its instance."""
    M = ctx.M
    n = 0
    for f in list(M.all_funcs()):
        if f.parent is not None or not f.node.decorator_list:
            continue
        for d in f.node.decorator_list:
            head = d.func if isinstance(d, ast.Call) else d
            if not isinstance(head, ast.Name):
                continue
            D = M.resolve_name(f.mod, head.id)
            if D is None or not hasattr(D, 'node') or not isinstance(getattr(D, 'node', None), ast.FunctionDef):
                continue
            # tables bound in the decorator's own body (or in the decorator factory's inner function) to an empty dict
            for scope in [D.node] + [x for x in D.node.body if isinstance(x, ast.FunctionDef)]:
                tables = {t.id for s in scope.body if isinstance(s, ast.Assign) for t in s.targets if isinstance(t, ast.Name)
                          and ((isinstance(s.value, ast.Dict) and not s.value.keys) or (isinstance(s.value, ast.Call) and isinstance(s.value.func, ast.Name)
                                                                                        and s.value.func.id in ('dict', 'OrderedDict') and not s.value.args and not s.value.keywords))}
                if not tables:
                    continue
                for W in [x for x in scope.body if isinstance(x, ast.FunctionDef)]:
                    stores = [t for s in ast.walk(W) if isinstance(s, ast.Assign) for t in s.targets if isinstance(t, ast.Subscript) and isinstance(t.value, ast.Name) and t.value.id in tables]
                    rets = [r for r in ast.walk(W) if isinstance(r, ast.Return) and isinstance(r.value, ast.Subscript) and isinstance(r.value.value, ast.Name) and r.value.value.id in tables]
                    if not stores or not rets:
                        continue
                    n += 1
                    T_ = stores[0].value.id
                    def names_(e_):
                        # names an expression reads, not counting what only goes into type(...) / .__class__ (the class of an object says nothing of its content)
                        skip_ = set()
                        for x in ast.walk(e_):
                            if isinstance(x, ast.Call) and isinstance(x.func, ast.Name) and x.func.id == 'type' and len(x.args) == 1:
                                skip_ |= {id(y) for y in ast.walk(x.args[0])}
                            if isinstance(x, ast.Attribute) and x.attr == '__class__':
                                skip_ |= {id(y) for y in ast.walk(x.value)}
                        return {x.id for x in ast.walk(e_) if isinstance(x, ast.Name) and id(x) not in skip_}
                    key_names = names_(stores[0].slice)
                    for _ in range(3):
                        # (a key prepared in locals first: key = (type(self), rates, ...))
                        for s in ast.walk(W):
                            if isinstance(s, ast.Assign) and len(s.targets) == 1 and isinstance(s.targets[0], ast.Name) and s.targets[0].id in key_names:
                                key_names |= names_(s.value)
                    self_name = W.args.args[0].arg if W.args.args else None
                    reads_self = f.cls is not None and not f.is_static and any(isinstance(x, ast.Attribute) and isinstance(x.value, ast.Name) and x.value.id == 'self'
                                                                               for x in ast.walk(f.node))
                    inst = 'memoised function %s gives the answer a fresh computation would give' % f.qn
                    if reads_self and self_name not in key_names:
                        ctx.violation('C18.memo', inst, f.site(), 'READ: the decorator %s keeps one table (%s) for every instance and files the answers under %s, while %s reads its instance: '
                                      'another %s asking the same question is handed the first one\'s answer' % (D.qn, T_, ast.unparse(stores[0].slice)[:40], f.qn, f.cls.name),
                                      key='C18.memo|shared|%s' % f.qn)
                        continue
                    new_memo(ctx, f)
    ctx.holds('C18.memo', 'memoisation by decorators of the package (%d decorated functions examined)' % n, None)


def memoisation(ctx):
    M = ctx.M
    cached = [f for f in M.all_funcs() if f.is_cached]
    ctx.floor('C18.memo', 'memoised functions', len(cached), 0)
    for f in cached:
        if f.qn not in TABLED_CACHED:
            new_memo(ctx, f)
            continue
        ctx.holds('C18.memo', 'memoised function %s is tabled and discharged' % f.qn, f.site())
        ps = summarise(ctx, f, policy=default_policy)
        from ..lib import memo_tables, all_terms_of
        mts = memo_tables(ctx, f, ps)
        sound = {k for k, v in mts.items() if v[0] == 'sound'}
        cursors = {k for k, v in mts.items() if v[0] == 'other' and 'cursor' in v[1]}
        from ..lib import holder_chain
        field_of = lambda loc: (loc[1][2] if loc[0] == 'sub' and loc[1][0] == 'attr' and holder_chain(loc[1]) is not None else None)
        for p in ps:
            ws = [w for w in heap_writes(p) if field_of(w.loc) not in sound]
            if ws and all(any(s_[0] == 'attr' and s_[1] == V('self') and s_[2] in cursors for s_ in T.subterms(w.loc)) for w in ws):
                ctx.undecided('C18.memo', '%s has no side effect' % f.qn, ws[0].site, 'advances the per-key cursors in self.%s' % sorted(cursors))
            else:
                ctx.require(not ws, 'C18.memo', '%s has no side effect' % f.qn, ws[0].site if ws else None, key='C18.memo|pure|%s' % f.qn)
            reads = set()
            for t in all_terms_of(p):
                for s in T.subterms(t):
                    if s[0] == 'attr' and s[1] == V('self'):
                        reads.add(s[2])
            # state fixed at construction may be read freely; a sound memo table answers what a fresh computation would; cursors are left open above
            mutable = sorted(r for r in reads - sound - cursors if M.field_written_outside_init(f.cls, r))
            ctx.require(not mutable, 'C18.memo', '%s reads only its arguments and state fixed at construction' % f.qn, f.site(), mutable,
                        key='C18.memo|reads|%s' % f.qn)
        c = f.cls
        if c is not None:
            ctx.require('__eq__' not in c.methods and '__hash__' not in c.methods, 'C18.memo', '%s is keyed by instance identity (the class defines no __eq__/__hash__)' % f.qn,
                        (c.methods.get('__eq__') or c.methods.get('__hash__')).site() if ('__eq__' in c.methods or '__hash__' in c.methods) else None,
                        'value-based equality lets two data sources with different contents share cache entries', key='C18.memo|identity|%s' % f.qn)
    ws = writers_of_attr(M, 'asset_bid_ask_frames')
    if not ws:
        # the quotes are not kept in a field of that name any more: what the lookups read instead, and who writes it, is judged by the state scan below
        ctx.undecided('C18.memo', 'the memoised lookups depend on frames written once, in the constructor', None, 'no field asset_bid_ask_frames is written anywhere')
    else:
        ctx.require(len(ws) == 1 and ws[0].fn.qn == 'CSVDailyBarDataSource.__init__', 'C18.memo', 'the memoised lookups depend on frames written once, in the constructor',
                    ws[0].where if ws else None, [w.fn.qn for w in ws], key='C18.memo|frames')
    state_scan(ctx, STATELESS_CLASSES)
    ctx.holds('C18.memo', 'statelessness scan of pricing/alpha/sizing components', None)


def _only_guards_resets(c, fld, tables):
    """every read of self.<fld> in class c sits in the test of an `if` (without else) whose body does nothing but empty/rebind the given tables or set self.<fld>"""
    def is_self_attr(x, names=None):
        return isinstance(x, ast.Attribute) and isinstance(x.value, ast.Name) and x.value.id == 'self' and (names is None or x.attr in names)

    def maintenance(s):
        if isinstance(s, ast.Expr) and isinstance(s.value, ast.Call) and isinstance(s.value.func, ast.Attribute) and s.value.func.attr in ('clear', 'pop', 'popitem') \
                and is_self_attr(s.value.func.value, tables):
            return True
        if isinstance(s, ast.Assign) and all(is_self_attr(t, tables | {fld}) for t in s.targets):
            return not any(is_self_attr(x, {fld}) for x in ast.walk(s.value))
        if isinstance(s, ast.Delete):
            return all(is_self_attr(t.value if isinstance(t, ast.Subscript) else t, tables) for t in s.targets)
        return isinstance(s, ast.Pass)
    n_reads = 0
    for m in c.methods.values():
        guarded = set()
        for s in ast.walk(m.node):
            if isinstance(s, ast.If) and not s.orelse and all(maintenance(b) for b in s.body):
                guarded |= {id(x) for x in ast.walk(s.test)}
        for x in ast.walk(m.node):
            if is_self_attr(x, {fld}) and isinstance(x.ctx, ast.Load):
                n_reads += 1
                if id(x) not in guarded:
                    return False
    return n_reads > 0


# ------------------------------------------------------------------------------------------------ ordering operations
def ordering_ops(ctx):
    M = ctx.M
    n = 0
    for fn in M.all_funcs():
        for node in ast.walk(fn.node):
            if isinstance(node, ast.Call) and ((isinstance(node.func, ast.Name) and node.func.id == 'sorted') or (isinstance(node.func, ast.Attribute) and node.func.attr == 'sort')):
                n += 1
                key = [k.value for k in node.keywords if k.arg == 'key']
                txt = ast.unparse(key[0]) if key else ''
                bad = any(w in txt for w in ('order_id', 'id(', 'hash(', 'random', 'uuid', 'time('))
                ctx.require(not bad, 'C18.sort', 'sort key in %s does not depend on identity or randomness' % fn.qn, fn.site(node), txt, key='C18.sort|%s' % fn.qn)
    ctx.floor('C18.sort', 'sort sites', n, 2)
    # the fill batch: stable sort over FIFO queues drained in portfolio-creation order (C04-S3/S5 give the shape; here: the key is total up to ties only)
    from . import c04
    c04.s2_s3_update(ctx)
