"""C11 - long/short sizing respects gross leverage and the sign of every weight (DESIGN C11: S1..S3)."""
from .. import terms as T
from ..lib import at_construction, summarise, heap_writes, V, A, normal, raising, cond_str, no_inline, writers_of_attr
from ..symex import Valuation, default_policy
from ..terms import fmt, ZERO, num
from .sizers import sizing_paths, EQUITY, call_is, loop_asset_weight, is_empty_weights_path, require_fresh_target, is_nan_test_of

CN = 'LongShortLeveragedOrderSizer'


def gross_sum(t):
    """SUM(ABS(w) for w in weights.values())"""
    if call_is(t, 'SUM') and len(t[2]) == 1 and t[2][0][0] == 'comp':
        c = t[2][0]
        if len(c[3]) == 1 and fmt(c[3][0][1]) == 'weights.values()' and not c[3][0][2]:
            return c[2] == ('call', ('ext', 'ABS'), (c[3][0][0][0],), ())
    if call_is(t, 'SUM') and len(t[2]) == 1 and call_is(t[2][0], 'ABS'):      # np.abs(array of values).sum() style
        return 'weights' in fmt(t[2][0])
    return False


def check(ctx):
    from ..lib import discarded_results
    ctx.sub(discarded_results, 'C11.S2', ('qstrader/portcon/order_sizer/', 'qstrader/broker/fee_model/'), 'each asset is sized with its own allocation, fee estimate and price')
    from . import c18
    ctx.sub(c18.state_scan, (CN,))      # what the sizer keeps between calls must not change what it answers
    # ---- S1 scaling
    qn = CN + '._normalise_weights'
    fn = ctx.fn(qn)
    ps = summarise(ctx, qn, policy=default_policy)
    seen = set()
    from ..lib import slot_memos, uncopy
    slots = slot_memos(ctx, fn, ps)
    skip = []
    for sm in slots:
        what = '_normalise_weights hands out the remembered scaling (self.%s) only for the weights and leverage it was computed from' % sm['result']
        if sm['verdict'][0] == 'sound':
            ctx.holds('C11.S1', what + ' (the question is kept as the snapshot %s)' % fmt(sm['key'])[:60], fn.site())
        elif sm['verdict'][0] == 'unsound':
            ctx.violation('C11.S1', what, fn.site(), sm['verdict'][1], key='C11.S1|slot-memo|%s' % sm['result'])
        else:
            ctx.undecided('C11.S1', what, fn.site(), sm['verdict'][1])
        skip.extend(sm['hits'])
    for p in ps:
        if any(p is h_ for h_ in skip):
            continue        # the remembered answer equals the computing path that stored it when the slot is sound (judged above)
        if p.outcome != 'return':
            ctx.violation('C11.S1', '_normalise_weights never refuses signed weights', fn.site(), cond_str(p)[:100], key='C11.S1|raise')
            continue
        close = None
        for c, v, _ in p.conds:
            if call_is(c, 'ISCLOSE') and len(c[2]) == 2 and c[2][1] == ZERO:
                if gross_sum(c[2][0]) and c[3]:
                    ctx.violation('C11.S1', 'the "weights ~ 0" shortcut uses the default tolerance (only a genuinely zero vector is left unscaled)', fn.site(),
                                  'tolerance changed: %s' % fmt(c)[-60:], key='C11.S1|tolerance')
                    close = 'bad'
                elif gross_sum(c[2][0]):
                    close = v
                elif c[2][0][0] == 'num' or any(s_[0] == 'call' and s_[1][0] == 'ext' and s_[1][1].startswith('numpy.') for s_ in T.subterms(c[2][0])):
                    # what is tested was computed by array arithmetic (or folded away by the engine): not related to sum(|w|) by this rule
                    ctx.undecided('C11.S1', 'the "weights ~ 0" shortcut tests the gross exposure sum(|w|)', fn.site(), 'it tests %s' % fmt(c[2][0])[:120])
                    close = 'bad'
                else:
                    ctx.violation('C11.S1', 'the "weights ~ 0" shortcut tests the gross exposure sum(|w|)', fn.site(),
                                  'it tests %s: a dollar-neutral vector would come back unscaled' % fmt(c[2][0])[:120], key='C11.S1|guard')
                    close = 'bad'
        if close == 'bad':
            continue
        if close is None:
            from ..lib import read_marker
            unread_p = not read_marker(ctx, p) or any(s_[0] == 'call' and s_[1][0] == 'ext' and s_[1][1].startswith('numpy.') and s_[1][1] not in ('numpy.isclose', 'numpy.abs', 'numpy.absolute')
                                                      for t_ in [p.value or T.ZERO] + [c_ for c_, _, _ in p.conds] for s_ in T.subterms(t_))
            if unread_p:
                ctx.undecided('C11.S1', '_normalise_weights branches on whether the gross exposure is ~0', fn.site(), cond_str(p)[:200])
            # (a path that was read and simply does not test the exposure contributes no case: see 'both scaling cases exist')
            continue
        seen.add(close)
        if close:
            ctx.require(uncopy(p.value) == V('weights'), 'C11.S1', 'weights with ~0 gross exposure are returned unscaled', fn.site(), fmt(p.value)[:100], key='C11.S1|zero')
        else:
            v = uncopy(p.value)
            ok = v[0] == 'comp' and v[1] == 'dict' and len(v[3]) == 1 and fmt(v[3][0][1]) == 'weights.items()' and not v[3][0][2] and v[2][1][0] == v[3][0][0][0]
            if ok:
                wv = v[3][0][0][1]
                val = v[2][1][1]
                # w * L / sum|w| : recover the denominator as the SUM atom
                sums = [s for s in T.subterms(val) if gross_sum(s)]
                ok = len(set(sums)) == 1 and T.teq(val, T.t_div(T.t_mul(wv, A('self', 'gross_leverage')), sums[0]))
            ctx.require(ok, 'C11.S1', 'weights are scaled by leverage / sum(|w|)', fn.site(), fmt(v)[:200], key='C11.S1|scale')
    n_und = len([o_ for o_ in ctx.obligations if o_['verdict'] == 'UNDECIDED' and o_['rule'] == 'C11.S1'])
    if seen != {True, False} and n_und:
        ctx.undecided('C11.S1', 'both scaling cases exist', fn.site(), 'some paths of _normalise_weights were not read (see above)')
    else:
        ctx.require(seen == {True, False}, 'C11.S1', 'both scaling cases exist', fn.site(), sorted(map(str, seen)), key='C11.S1|cases')
    # ---- S2 truncation toward zero, formula
    ps, sp = sizing_paths(ctx, CN)
    ctx.floor('C11.S2', 'sizing paths of the long/short sizer', len(sp), 2)
    for s in sp:
        p, lp = s['path'], s['loop']
        asset, w, wsrc = loop_asset_weight(lp)
        alloc = T.t_mul(EQUITY, w)
        require_fresh_target(ctx, 'C11.S2', s, CN, 'C11.S2|fresh-target')
        kinds = {}
        table_verdict = None
        for b in s['bodies']:
            bp = b['path']
            if bp.outcome == 'raise':
                continue
            tag = cond_str(bp)[:50]
            q, fee, price = b['quantity'], b['fee'], b['price']
            if q is None or not fee or not price:
                ctx.undecided('C11.S2', 'each asset gets one quantity from one fee estimate and one price', lp.site,
                              '%s fee calls, %s price lookups on the sizing path' % (len(fee), len(price)))
                continue
            if not ctx.require(len(fee) == 1 and len(price) == 1, 'C11.S2', 'each asset gets one quantity from one fee estimate and one price', lp.site,
                               key='C11.S2|shape'):
                continue
            fe, pe = fee[0], price[0]
            ctx.require(T.teq(fe.args.get('consideration', ZERO), alloc), 'C11.S2', 'the fee is estimated on the asset\'s leverage-scaled allocation: equity x scaled weight', fe.site,
                        'fee estimated on %s' % fmt(fe.args.get('consideration', ZERO))[:160], key='C11.S2|fee-base')
            ok = 'BacktestDataHandler.get_asset_latest_ask_price' in pe.callee and pe.args.get('dt') == V('dt') and pe.args.get('asset_symbol') == asset
            ctx.require(ok, 'C11.S2', 'the sizing price is the latest ask of that asset at dt', pe.site, key='C11.S2|price')
            after = T.t_sub(alloc, fe.result)
            # sign domain of the after-cost dollars on this path: every test on them (x < 0, 0 <= x, x == 0, sign(x) == k) removes the signs it excludes
            signs = {'neg', 'zero', 'pos'}
            tested = False
            sgn = ('call', ('ext', 'SIGN'), (after,), ())
            for c, v, _ in bp.conds:
                if c[0] != 'cmp':
                    continue
                a_, b_ = c[2], c[3]
                sel = None
                if c[1] in ('<', '<=') and b_ != ZERO and a_ == ZERO and T.teq(b_, after):
                    sel = {'pos'} if c[1] == '<' else {'zero', 'pos'}             # 0 < x , 0 <= x
                elif c[1] in ('<', '<=') and b_ == ZERO and T.teq(a_, after):
                    sel = {'neg'} if c[1] == '<' else {'neg', 'zero'}             # x < 0 , x <= 0
                elif c[1] == '==' and ((b_ == ZERO and T.teq(a_, after)) or (a_ == ZERO and T.teq(b_, after))):
                    sel = {'zero'}
                elif c[1] == '==' and ((a_[0] == 'num' and T.teq(b_, sgn)) or (b_[0] == 'num' and T.teq(a_, sgn))):
                    k_ = a_[1] if a_[0] == 'num' else b_[1]
                    sel = {'pos'} if k_ == 1 else ({'neg'} if k_ == -1 else ({'zero'} if k_ == 0 else set()))
                elif c[1] in ('<', '<=') and ((a_[0] == 'num' and T.teq(b_, sgn)) or (b_[0] == 'num' and T.teq(a_, sgn))) and ZERO in (a_, b_):
                    if a_ == ZERO:
                        sel = {'pos'} if c[1] == '<' else {'zero', 'pos'}
                    else:
                        sel = {'neg'} if c[1] == '<' else {'neg', 'zero'}
                if sel is not None:
                    tested = True
                    signs &= sel if v else ({'neg', 'zero', 'pos'} - sel)
            sign = None
            if tested:
                sign = {frozenset({'pos'}): '>', frozenset({'zero', 'pos'}): '>=', frozenset({'neg'}): '<', frozenset({'neg', 'zero'}): '<=', frozenset({'zero'}): '=='}.get(frozenset(signs))
                if not signs:
                    continue            # no ordered number reaches this path (only an unordered NaN would): nothing to round
            ratio = q[2][0] if call_is(q, 'INT') and len(q[2]) == 1 else None
            found = None
            for cls in ('FLOOR', 'CEIL', 'TRUNC', 'ROUND'):
                if ratio is not None and T.teq(ratio, T.t_div(('call', ('ext', cls), (after,), ()), pe.result)):
                    found = cls
            if found is None and table_verdict is None:
                # not the shape the rule knows (signs carried separately, the magnitude sized and the sign put back, ...): the body as a decision table over
                # allocation (either sign, around zero), fee estimate (none, small, larger than the allocation) and price
                import math
                from fractions import Fraction as F_
                from .sizers import table_refute
                grid = [{'E': F_(1000), 'W': F_(a_) / 1000, 'FEE': F_(f_), 'P': F_(p_)} for a_ in ('-1000.7', '-250.3', '-0.4', '0', '0.4', '250.3', '1000.7')
                        for f_ in ('0', '0.25', '1.5', '300') for p_ in ('7.3', '100')]
                table_verdict = table_refute([b_ for b_ in s['bodies'] if b_['fee'] and b_['price'] and b_['fee'][0].result == fe.result and b_['price'][0].result == pe.result],
                                             {EQUITY: 'E', w: 'W', fe.result: 'FEE', pe.result: 'P'},
                                             lambda pt: F_(int(F_(math.trunc(pt['E'] * pt['W'] - pt['FEE'])) / pt['P'])), grid)
                what_ = 'quantity = int(trunc(after-cost dollars) / price): the dollar amount is truncated toward zero first'
                if table_verdict[0] == 'refuted':
                    ctx.violation('C11.S2', what_, fe.site, 'READ: at %s the path [%s] sizes %s where int(trunc(allocation - fee) / price) is %s' % (
                        table_verdict[1], table_verdict[4], float(table_verdict[2]), float(table_verdict[3])), key='C11.S2|formula')
                elif table_verdict[0] == 'agrees':
                    ctx.undecided('C11.S2', what_, fe.site, 'the quantity is written another way (%s); it equals the stated formula at all %d points of the sign/rounding table, which is '
                                  'not a proof of equality' % (fmt(q)[:100], table_verdict[1]))
                else:
                    ctx.undecided('C11.S2', what_, fe.site, 'the quantity is written another way (%s) and the table could not be evaluated: %s' % (fmt(q)[:100], table_verdict[1]))
                kinds.setdefault('table', set()).add(table_verdict[0])
                continue
            if found is None and table_verdict is not None:
                continue
            if not call_is(q, 'INT') or len(q[2]) != 1:
                ctx.violation('C11.S2', 'the quantity is a whole number (int)', fe.site, fmt(q)[:80], key='C11.S2|int')
                continue
            if found is None:
                ctx.violation('C11.S2', 'quantity = int(trunc(after-cost dollars) / price): the dollar amount is truncated toward zero first', fe.site,
                              'quantity is %s' % fmt(q)[:240], key='C11.S2|formula')
                continue
            for s_ in (signs if tested else ('neg', 'zero', 'pos')):
                kinds.setdefault(s_, set()).add(found)
            if found == 'TRUNC':
                continue
            okk = tested and ((found == 'FLOOR' and signs <= {'zero', 'pos'}) or (found == 'CEIL' and signs <= {'neg', 'zero'}))
            ctx.require(okk, 'C11.S2', 'after-cost dollars are truncated toward zero: floor when >= 0, ceil when < 0 [%s]' % tag, fe.site,
                        '%s applied when after-cost dollars %s 0' % (found, sign if sign else 'of either sign (no sign test on this path)'), key='C11.S2|toward-zero')
        ok = bool(kinds.get('pos')) and kinds.get('pos') <= {'FLOOR', 'TRUNC'} and bool(kinds.get('neg')) and kinds.get('neg') <= {'CEIL', 'TRUNC'}
        if 'table' in kinds:
            pass        # judged as a table above
        elif not kinds:
            ctx.undecided('C11.S2', 'both signs are covered: >= 0 floors, < 0 ceils', lp.site, 'no sizing path was read')
        else:
            ctx.require(ok, 'C11.S2', 'both signs are covered: >= 0 floors, < 0 ceils', lp.site, str(kinds), key='C11.S2|both-signs')
        ctx.sample({'rule': 'C11.S2', 'path': cond_str(p)[:80], 'truncation': {str(k): v for k, v in kinds.items()}})
        # NaN guard
        seen_raise = False
        if not any(b['price'] for b in s['bodies']):
            # no price lookup was read on any body path (the price arrives by a route this rule does not follow): nothing to place the NaN check against
            ctx.undecided('C11.S3', 'an unavailable (NaN) price is rejected with ValueError', lp.site, 'no price lookup was read on the sizing paths')
            continue
        for b in s['bodies']:
            bp = b['path']
            nan = None
            for c, v, _ in bp.conds:
                if b['price'] and is_nan_test_of(c, b['price'][0].result):
                    nan = v
            if bp.outcome == 'raise':
                seen_raise = seen_raise or (nan is True and bp.state.exc[1] == 'ValueError')
            else:
                ctx.require(nan is False, 'C11.S3', 'the division by the price happens only after the NaN check passed', lp.site, cond_str(bp)[:120], key='C11.S3|nan-dominates')
        ctx.require(seen_raise, 'C11.S3', 'an unavailable (NaN) price is rejected with ValueError', lp.site, key='C11.S3|nan-raise')
        wsrc = uncopy(wsrc)
        if wsrc is None or fmt(wsrc) == 'None' or any(s_[0] == 'call' and s_[1][0] == 'ext' and (s_[1][1].startswith('numpy.') or s_[1][1] in ('ZIP', 'DIVZERO')) for s_ in T.subterms(wsrc)):
            ctx.undecided('C11.S1', 'the sizing loop runs over the scaled weights', lp.site, 'what the loop iterates is computed by array arithmetic / was not traced: %s' % fmt(wsrc)[:80])
            continue
        ok = wsrc == V('weights') or (wsrc[0] == 'comp' and wsrc[1] == 'dict') or any(wsrc in sm.get('result_locs', ()) for sm in slots)
        ctx.require(ok, 'C11.S1', 'the sizing loop runs over the scaled weights', lp.site, fmt(wsrc)[:100], key='C11.S1|loop-source')
    for p in ps:
        if p.outcome == 'return' and p.value == ('dict', ()) and not any(e.kind == 'loop' for e in p.events):
            ok = is_empty_weights_path(p) and len(p.conds) == 1
            ctx.require(ok, 'C11.S2', 'an empty target is returned only for an empty weight dict', ctx.fn(CN + '.__call__').site(), cond_str(p)[:120], key='C11.S2|empty-only')
    # ---- S3 leverage guard
    from .sizers import ctor_guard_table
    ctor_guard_table(ctx, 'C11.S3', CN, 'gross_leverage', 'gross_leverage', ((-1, False), (0, False), (0.5, True), (1, True), (3, True)), 'a gross leverage', 'C11.S3|leverage')
    from . import c05, c06, c08
    ctx.sub(c05.s4_fee_models)
    ctx.sub(c08.sizer_selection)       # the sizer is built with the caller's leverage, unmodified
    ctx.sub(c06.converter)             # an unavailable price stays NaN (no back-fill), so it can be rejected
    ctx.sub(c06.accessors)             # ... and "no bar at or before dt" is answered NaN by the data source (not the last bar's price)
    ctx.sub(c06.handler)               # ... which the data handler hands to the sizer unchanged
    ws = [w for w in writers_of_attr(ctx.M, 'gross_leverage', owner=CN) if w.fn.cls is not None and w.fn.cls.name == CN]
    ctx.require(all(at_construction(ctx.M, w, 'gross_leverage') for w in ws) and ws, 'C11.S3', 'the leverage is set only by the constructor', ws[0].where if ws else None, key='C11.S3|writer')
