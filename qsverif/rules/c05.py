"""C05 - fills use the current quote and charge exactly the fee model's commission (DESIGN C05: S1..S4)."""
import ast

from .. import terms as T
from ..lib import (summarise, heap_writes, same, V, A, normal, raising, cond_str, loc_attr, nested_events, props_only, no_inline, calls_named)
from ..symex import Undecided, default_policy
from ..terms import fmt, ZERO, num

QUOTE = 'BacktestDataHandler.get_asset_latest_bid_ask_price'


def check(ctx):
    from .c16 import late_bound_loop_lambdas
    for site_, names_, src_ in late_bound_loop_lambdas(ctx, {'SimulatedBroker.update', 'SimulatedBroker._execute_order'}):
        ctx.violation('C05.S2', 'each fill is priced and costed with its own order', site_,
                      'the deferred step `%s` reads the loop variable%s %s when it is finally called (after the loop has moved on)' % (src_[:60], 's' if len(names_) > 1 else '', ', '.join(names_)),
                      key='C05.S2|late-binding')
    from ..lib import discarded_results
    ctx.sub(discarded_results, 'C05.S3', ('qstrader/broker/',), 'quotes, fee models and fills are the objects the code actually updated')
    ctx.sub(s1_s2_s3_execute)
    ctx.sub(s2_handler)
    ctx.sub(s4_fee_models)
    from . import c18
    ctx.sub(c18.closure_memos)      # a fee remembered by a decorator must be filed under everything it was computed from (the rates of THIS fee model)
    from . import c01, c08
    ctx.sub(c08.funding)            # 'the configured fee model': a backtest session hands its fee model to the broker it builds
    ctx.sub(c01.s2_deltas)          # what the portfolio is debited is price x quantity plus that commission, unmodified (never negated for a sell)


def s1_s2_s3_execute(ctx):
    qn = 'SimulatedBroker._execute_order'
    fn = ctx.fn(qn)
    ps = summarise(ctx, qn, policy=default_policy)
    order = V('order')
    n = 0
    # a quote remembered on the broker between fills: sound only if filed under everything it depends on - the asset AND the time (the broker's clock moves on)
    from ..lib import without_sound_memo_hits
    ps, _quote_memos = without_sound_memo_hits(ctx, 'C05.S1', fn, ps, 'C05.S1|%s' % qn)
    for p in normal(ps):
        cs = [e for e in p.flat_events() if e.kind == 'call' and 'Portfolio.transact_asset' in e.callee]
        if len(cs) != 1:
            ctx.violation('C05.S1', 'an executed order produces exactly one fill [%s]' % cond_str(p), fn.site(), __import__('qsverif.lib', fromlist=['read_marker']).read_marker(ctx, p) + '%d fills' % len(cs), key='C05.S1|one-fill')
            continue
        txn = cs[0].args.get('txn')
        if not (txn is not None and txn[0] == 'new'):
            ctx.undecided('C05.S1', 'the fill is a freshly built Transaction', cs[0].site, fmt(txn) if txn else None)
            continue
        n += 1
        f = dict(txn[2])
        quotes = [e for e in p.flat_events() if e.kind == 'call' and QUOTE in e.callee]
        extra_params = [q_ for q_ in fn.params if q_ not in ('self', 'dt', 'portfolio_id', 'order')]
        price_t = f.get('price', ZERO)
        if not quotes and any(s_ == V(q_) for q_ in extra_params for s_ in T.subterms(price_t)):
            # the price comes out of something the CALLER handed over (a per-update quote memo): what is in it is decided where it is filled, not here
            ctx.undecided('C05.S1', 'the quote is looked up once, for the ordered asset, at the update time [%s]' % cond_str(p)[:80], cs[0].site,
                          'the price is read from the argument(s) %s' % [q_ for q_ in extra_params if any(s_ == V(q_) for s_ in T.subterms(price_t))])
            continue
        ok = len(quotes) == 1 and quotes[0].args.get('dt') == V('dt') and quotes[0].args.get('asset_symbol') == A(order, 'asset')
        ctx.require(ok, 'C05.S1', 'the quote is looked up once, for the ordered asset, at the update time [%s]' % cond_str(p), quotes[0].site if quotes else fn.site(),
                    [str(q)[:120] for q in quotes], key='C05.S1|lookup')
        ctx.require(f.get('dt') == A('self', 'current_dt'), 'C05.S1', 'the fill is stamped with the broker\'s update time', cs[0].site,
                    'dt=%s' % fmt(f.get('dt', ZERO)), key='C05.S1|stamp')
        if len(quotes) != 1:
            continue
        q = quotes[0].result
        side = None
        for c, v, _ in p.conds:
            if fmt(c) == 'order.direction <= 0':
                side = not v
            elif fmt(c) == '0 < order.direction':
                side = v
            elif fmt(c) == 'order.quantity <= 0':
                side = not v
            elif fmt(c) == '0 < order.quantity':
                side = v
        if side is None:
            ctx.undecided('C05.S2', 'the side of the quote is chosen by the sign of the order', fn.site(), cond_str(p))
            continue
        exp_price = ('sub', q, num(1 if side else 0))
        ctx.require(T.teq(f.get('price', ZERO), exp_price), 'C05.S2', '%s fills at the %s of the current quote' % ('a buy' if side else 'a sell', 'ask' if side else 'bid'),
                    cs[0].site, 'price=%s' % fmt(f.get('price', ZERO))[:160], key='C05.S2|side|%s' % ('buy' if side else 'sell'))
        from .sizers import _named_fee
        fee = [_named_fee(e) for e in p.flat_events() if e.kind == 'call' and any(c.endswith('.calc_total_cost') or c == 'meth:calc_total_cost' for c in e.callee)]
        if not ctx.require(len(fee) == 1, 'C05.S3', 'the fee model is consulted exactly once per fill', fee[0].site if fee else fn.site(), '%d' % len(fee), key='C05.S3|fee-once'):
            continue
        fe = fee[0]
        cons = ('call', ('ext', 'ROUND'), (T.t_mul(exp_price, A(order, 'quantity')),), ())
        from ..lib import unread_calls
        got_cons = fe.args.get('consideration', ZERO)
        if not T.teq(got_cons, cons) and [u_ for u_ in unread_calls(got_cons) if 'get_asset_latest' not in u_[1][1]]:
            ctx.undecided('C05.S3', 'consideration = round(price x quantity) to the whole currency unit', fe.site,
                          'computed by %s, which was not read through' % fmt(unread_calls(got_cons)[0][1])[:80])
        else:
            from ..lib import read_marker
            ctx.require(T.teq(got_cons, cons), 'C05.S3', 'consideration = round(price x quantity) to the whole currency unit', fe.site,
                        '%sthe fee is charged on %s [%s]' % (read_marker(ctx, p), fmt(got_cons)[:160], cond_str(p)[:80]), key='C05.S3|consideration')
        ok = fe.args.get('asset') == A(order, 'asset') and fe.args.get('quantity') == A(order, 'quantity') and fe.args.get('broker') == V('self')
        ctx.require(ok, 'C05.S3', 'the fee model receives (asset, quantity, consideration, broker) in the interface\'s order', fe.site,
                    {k: fmt(v)[:50] for k, v in fe.args.items()}, key='C05.S3|fee-args')
        ctx.require(fe.d.get('recv') == A('self', 'fee_model'), 'C05.S3', 'the fee model consulted is the broker\'s configured one', fe.site, key='C05.S3|fee-recv')
        ctx.require(T.teq(f.get('commission', ZERO), fe.result), 'C05.S3', 'the commission debited is the fee model\'s result, unmodified', cs[0].site,
                    'commission=%s' % fmt(f.get('commission', ZERO))[:160], key='C05.S3|commission')
        ctx.sample({'rule': 'C05', 'path': cond_str(p)[:100], 'price': fmt(f.get('price', ZERO))[:100], 'consideration': fmt(fe.args.get('consideration', ZERO))[:120]})
    ctx.floor('C05.S1', 'filling paths of _execute_order', n, 2)
    # Transaction keeps what it is given; portfolio debits txn.price/commission (C01.S2)
    ps = summarise(ctx, 'Transaction.__init__', policy=default_policy)
    for p in normal(ps):
        for fld in ('price', 'commission', 'dt'):
            ws = heap_writes(p, fld)
            ctx.require(len(ws) == 1 and ws[0].value == V(fld), 'C05.S1', 'Transaction.%s is the constructor argument' % fld, ws[0].site if ws else None)
    # update passes its own dt and sets the clock first (shared with C04.S2)
    def steps_of_update(caller, callee, depth):
        # the private steps update is made of (a clock step, a revaluation step, ...) belong to it; the execution of one order stays a call
        return default_policy(caller, callee, depth) and callee.qn != 'SimulatedBroker._execute_order'
    ps = summarise(ctx, 'SimulatedBroker.update', policy=steps_of_update)
    for p in normal(ps):
        flat = list(p.flat_events())
        first_exec = None
        for e, loops, conds in nested_events(p):
            if e.kind == 'call' and 'SimulatedBroker._execute_order' in e.callee:
                first_exec = first_exec or e
                ctx.require(e.args.get('dt') == V('dt'), 'C05.S1', 'update executes orders at its own time argument', e.site, fmt(e.args.get('dt', ZERO)), key='C05.S1|update-dt')
        cw = [w for w in heap_writes(p, 'current_dt') if w.loc == A('self', 'current_dt')]
        before_fill = first_exec is None or (cw and cw[0] in flat and first_exec in flat and flat.index(cw[0]) < flat.index(first_exec))
        ctx.require(len(cw) == 1 and cw[0].value == V('dt') and before_fill, 'C05.S1', 'the broker clock equals the update time while orders are filled',
                    cw[0].site if cw else None, key='C05.S1|clock')


def s2_handler(ctx):
    qn = QUOTE
    fn = ctx.fn(qn)
    ps = summarise(ctx, qn, policy=no_inline)
    nps = normal(ps)
    if not ctx.require(len(nps) == 1 if len(nps) == 1 else None, 'C05.S2', 'get_asset_latest_bid_ask_price is straight-line', fn.site(), [cond_str(p) for p in nps]):
        return
    v = nps[0].value
    if not (v[0] == 'tuple' and len(v[1]) == 2):
        ctx.undecided('C05.S2', 'the quote is a (bid, ask) pair', fn.site(), fmt(v))
        return
    bid, ask = v[1]

    def is_getter(t, name):
        return t[0] == 'call' and t[1] == ('fn', 'BacktestDataHandler.' + name) and t[2][1:] == (V('dt'), V('asset_symbol'))
    ctx.require(is_getter(bid, 'get_asset_latest_bid_price'), 'C05.S2', 'the first component of the quote is the latest bid at (dt, asset)', fn.site(), fmt(bid), key='C05.S2|bid')
    if is_getter(ask, 'get_asset_latest_ask_price'):
        ctx.holds('C05.S2', 'the second component of the quote is the latest ask at (dt, asset)', fn.site())
    elif is_getter(ask, 'get_asset_latest_bid_price'):
        # documented shortcut: (bid, bid) is the ask only while every data source constructs Ask == Bid
        same_col = ask_equals_bid_by_construction(ctx)
        if same_col is None:
            ctx.undecided('C05.S2', 'the quote returns (bid, bid): sound only while the data source builds Ask identical to Bid', fn.site(),
                          'the converter builds its columns in a way this rule does not read')
        else:
            ctx.require(same_col, 'C05.S2', 'the quote returns (bid, bid): sound only while the data source builds Ask identical to Bid', fn.site(),
                    'the data source no longer builds Ask as a copy of the same price as Bid - buys would be priced at the bid', key='C05.S2|ask-shortcut')
    else:
        ctx.violation('C05.S2', 'the second component of the quote is the latest ask at (dt, asset)', fn.site(), fmt(ask), key='C05.S2|ask')
    # mid = (bid + ask) / 2 of the same quote
    ps = summarise(ctx, 'BacktestDataHandler.get_asset_latest_mid_price', policy=no_inline)
    good = False
    for p in normal(ps):
        if p.value is None or p.value[0] == 'ext':
            continue
        q = ('call', ('fn', QUOTE), (V('self'), V('dt'), V('asset_symbol')), ())
        exp = T.t_div(T.t_add(('sub', q, num(0)), ('sub', q, num(1))), num(2))
        if T.teq(p.value, exp):
            good = True
        elif not any(c[0][0] == 'exc' for c in p.conds):
            ctx.violation('C05.S2', 'mid price = (bid + ask) / 2 of the current quote', ctx.fn('BacktestDataHandler.get_asset_latest_mid_price').site(),
                          fmt(p.value), key='C05.S2|mid')
    ctx.require(good, 'C05.S2', 'mid price = (bid + ask) / 2 of the current quote', ctx.fn('BacktestDataHandler.get_asset_latest_mid_price').site(), key='C05.S2|mid')


def ask_equals_bid_by_construction(ctx):
    """C06-S5 fact: on every path of the converter the 'Bid' and 'Ask' columns are the same expression."""
    from .c06 import bid_ask_columns
    cols = bid_ask_columns(ctx)
    if cols and all(not c for c in cols):
        return None          # the columns are not built by column assignment: not read by this rule
    return bool(cols) and all(set(c) == {'Bid', 'Ask'} and c['Bid'] == c['Ask'] for c in cols)


def s4_fee_models(ctx):
    cons = V('consideration')
    # percentage model
    qn = 'PercentFeeModel.calc_total_cost'
    # decided on a freshly constructed model, in terms of the constructor's rates: how the object remembers them (fields, a table, properties) is immaterial
    from ..lib import fresh_object_summaries
    ip, ps = fresh_object_summaries(ctx, 'PercentFeeModel', 'calc_total_cost')
    nps = normal(ps)
    exp = T.t_mul(T.t_add(V('commission_pct'), V('tax_pct')), ('call', ('ext', 'ABS'), (cons,), ()))
    ok = len(ps) == 1 and len(nps) == 1 and T.teq(nps[0].value, exp)
    unread_ = [s_ for p_ in nps for s_ in T.subterms(p_.value or ZERO) if (s_[0] == 'call' and (s_[1][0] == 'fn' or s_[1] == ('ext', 'APPLY') or s_[1][0] == 'meth')) or s_[0] in ('havoc', 'lc')]
    if not ok and unread_:
        # the total is put together from calls the engine did not read to the end (hooks looked up by name, methods of records that carry the rates)
        ctx.undecided('C05.S4', 'percentage model: (commission rate + tax rate) x |consideration| on every path', ctx.fn(qn).site(), 'computed through %s' % fmt(unread_[0])[:120])
    else:
      ctx.require(ok, 'C05.S4', 'percentage model: (commission rate + tax rate) x |consideration| on every path', ctx.fn(qn).site(),
                '; '.join('%s -> %s' % (cond_str(p), fmt(p.value) if p.value else p.outcome) for p in ps)[:300], key='C05.S4|percent')
    qn = 'ZeroFeeModel.calc_total_cost'
    ps = summarise(ctx, qn, policy=default_policy)
    ok = len(ps) == 1 and ps[0].outcome == 'return' and T.teq(ps[0].value, ZERO)
    ctx.require(ok, 'C05.S4', 'zero-fee model: 0 on every path', ctx.fn(qn).site(), '; '.join('%s -> %s' % (cond_str(p), fmt(p.value) if p.value else p.outcome) for p in ps)[:300],
                key='C05.S4|zero')
    # the rates live on the instance: nothing at class level is written by the constructor or the fee methods (two models with different rates stay apart)
    c_ = ctx.cls('PercentFeeModel')
    shared = [k for k, v in c_.class_attrs.items() if isinstance(v, (ast.Dict, ast.List, ast.Set)) or (isinstance(v, ast.Call) and ast.unparse(v.func) in ('dict', 'list', 'set'))]
    for name in shared:
        wr = [m for m in c_.methods.values() for n in ast.walk(m.node)
              if isinstance(n, (ast.Assign, ast.AugAssign)) and any(isinstance(t_, ast.Subscript) and isinstance(t_.value, ast.Attribute) and t_.value.attr == name
                                                                   for t_ in (n.targets if isinstance(n, ast.Assign) else [n.target]))
              and not any(isinstance(a_, ast.Assign) and any(isinstance(t2, ast.Attribute) and t2.attr == name and isinstance(t2.value, ast.Name) and t2.value.id == 'self'
                                                             for t2 in a_.targets) for a_ in ast.walk(c_.methods['__init__'].node) if '__init__' in c_.methods)]
        ctx.require(not wr, 'C05.S4', 'the rates of a fee model belong to that instance (class-level table %s is not written through self)' % name,
                    wr[0].site() if wr else None, 'a mutable class attribute written in %s is shared by every model in the process' % (wr[0].qn if wr else ''),
                    key='C05.S4|shared|%s' % name)
    for fld in ('commission_pct', 'tax_pct'):
        from ..lib import writers_of_attr
        ws = [w for w in writers_of_attr(ctx.M, fld) if not (w.fn.cls is not None and w.fn.cls.name == 'PercentFeeModel' and (w.fn.name == '__init__' or 'setter' in ' '.join(w.fn.decorators)))]
        ctx.require(not ws, 'C05.S4', 'the %s rate is set only by the constructor (or the model\'s own setter)' % fld,
                    ws[0].where if ws else None, key='C05.S4|rate-writer|%s' % fld)
    # sibling signatures
    sigs = {}
    for c in ('FeeModel', 'ZeroFeeModel', 'PercentFeeModel'):
        for m in ('_calc_commission', '_calc_tax', 'calc_total_cost'):
            f = ctx.fn('%s.%s' % (c, m))
            sigs.setdefault(m, set()).add(tuple(f.params))
    for m, ss in sigs.items():
        ctx.require(len(ss) == 1, 'C05.S4', 'the three fee models agree on the signature of %s' % m, None, sorted(ss), key='C05.S4|sig|%s' % m)
