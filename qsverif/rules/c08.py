"""C08 - a fixed-weight backtest reproduces the documented trading rules: wiring and data-source conformance (DESIGN C08).
The property itself (numerical agreement with an independent re-implementation) is not decided; each slot below is a necessary condition of
one documented rule."""
from .. import terms as T
from ..lib import summarise, heap_writes, V, A, normal, raising, cond_str, no_inline, nested_events, calls_named, writers_of_attr
from ..symex import Valuation, default_policy
from ..terms import fmt, ZERO, num
from . import c04, c05, c09, c10, c11, c12, c13, c14, c02


def check(ctx):
    from ..lib import discarded_results
    ctx.sub(discarded_results, 'C08.sizing', ('qstrader/portcon/', 'qstrader/broker/', 'qstrader/data/'), 'each asset is sized, filled and priced with its own figures')
    ctx.sub(sizing_inputs)
    ctx.sub(sizer_selection)
    ctx.sub(execution)
    ctx.sub(funding)
    # documented rules checked by their own properties' rules (each a necessary condition of C08 as well)
    ctx.sub(c10.s1_formula)                     # long-only: floor of the buffered, fee-reduced allocation over the price
    ctx.sub(c11.check)                          # long/short: leverage-scaled allocation truncated toward zero
    ctx.sub(c09.s4_order_diff)                  # order = target - current, sorted, non-zero
    ctx.sub(c09.s2_s3_call)
    ctx.sub(c04.s4_in_full)                     # filled in full
    ctx.sub(c04.s6_hours)                       # 14:30 open is in hours, 21:00 close is not: orders sized at the close fill at the next open
    ctx.sub(c05.s1_s2_s3_execute)               # at the quote of the fill time, commission from the fee model
    ctx.sub(c04.s2_s3_update)                   # sells first
    ctx.sub(c04.s5_whole_batch)                 # ... across the whole batch
    from . import c01
    ctx.sub(c01.s2_deltas)                      # final cash: each fill moves cash by -(price x quantity + commission)
    ctx.sub(c14.s1_loop_table)                  # rebalance at scheduled closes, equity sampled at each close after the broker update
    ctx.sub(c14.s5_outputs)
    ctx.sub(c02.mark_loop, 'C08.equity')        # equity = cash + holdings at that close's price
    ctx.sub(c12.clock_range_rule, 'C08.clock')
    ctx.sub(c13.schedules)                      # 'at each scheduled close': the schedules hold the documented instants and meet clock events
    ctx.sub(open_row_is_exchange_open)
    from . import c18
    ctx.sub(c18.shared_state)                   # "reproduces": no state shared between sessions / instances (class-level tables, module globals)
    ctx.sub(c18.memoisation)


def sizing_inputs(ctx):
    for cname in ('DollarWeightedCashBufferedOrderSizer', 'LongShortLeveragedOrderSizer'):
        # anchored on the sizer's public entry: every sizing path asks the broker for the total equity of the session portfolio, and for nothing else
        qn = cname + '.__call__'
        from ..symex import default_policy as _dp
        ps = summarise(ctx, qn, policy=_dp)
        from .sizers import is_empty_weights_path
        sized = [p for p in ps if p.outcome == 'return' and any(e.kind == 'loop' for e in p.events)]
        if not sized:
            # no statement-level sizing loop (vectorised / comprehension form): every returning path that is not the empty-weights shortcut
            sized = [p for p in ps if p.outcome == 'return' and not is_empty_weights_path(p)]
        ok = bool(sized)
        seen = []
        for p in sized:
            eq = [e for e in p.flat_events() if e.kind == 'call' and any(c.startswith('SimulatedBroker.get_') for c in e.callee)]
            seen = [(e.callee, {k: fmt(v) for k, v in e.args.items()}) for e in eq]
            ok = ok and len(eq) >= 1 and all(e.callee == ['SimulatedBroker.get_portfolio_total_equity'] and e.args.get('portfolio_id') == A('self', 'broker_portfolio_id')
                                             and e.d.get('recv') == A('self', 'broker') for e in eq)
        ctx.require(ok, 'C08.sizing', '%s sizes from the total equity of the session portfolio (not its cash)' % cname, ctx.fn(qn).site(),
                    str(seen)[:200], key='C08.sizing|equity|%s' % cname)
    qn = 'SimulatedBroker.get_portfolio_total_equity'
    _f = ctx.fn(qn)
    ps = summarise(ctx, qn, policy=lambda a, b, d: d <= 4 and b.path == _f.path and b.name.startswith('_') and not b.name.startswith('__') and not b.is_property)
    for p in normal(ps):
        v = p.value
        ok = v in (('attr', ('sub', A('self', 'portfolios'), V('portfolio_id')), 'total_equity'),) or \
            (v[0] == 'call' and v[1] == ('fn', 'Portfolio.total_equity'))
        ctx.require(ok, 'C08.sizing', 'the broker reports the portfolio\'s total equity', ctx.fn(qn).site(), fmt(v)[:120], key='C08.sizing|broker-equity')


def sizer_selection(ctx):
    qn = 'QuantTradingSystem._create_order_sizer'
    fn = ctx.fn(qn)
    for long_only, cls, kwname in ((True, 'DollarWeightedCashBufferedOrderSizer', 'cash_buffer_percentage'), (False, 'LongShortLeveragedOrderSizer', 'gross_leverage')):
        val = Valuation(facts={'self.long_only': long_only}, member={("'%s'" % kwname, 'kwargs'): True})
        ps = summarise(ctx, fn, policy=no_inline, oracle=val)
        nps = normal(ps)
        ok = len(nps) == 1
        if ok:
            cs = [e for e in nps[0].flat_events() if e.kind == 'call' and e.callee == [cls + '.__init__']]
            ok = len(cs) == 1 and cs[0].args.get('broker') == A('self', 'broker') and cs[0].args.get('broker_portfolio_id') == A('self', 'broker_portfolio_id') and \
                cs[0].args.get('data_handler') == A('self', 'data_handler') and cs[0].args.get(kwname) == ('sub', V('kwargs'), ('str', kwname))
            ok = ok and nps[0].value is not None and nps[0].value[0] == 'call' and nps[0].value[1] == ('fn', cls)
        ctx.require(ok, 'C08.wiring', 'long_only=%s selects %s with the caller\'s %s' % (long_only, cls, kwname), fn.site(),
                    [fmt(p.value)[:100] if p.value else p.outcome for p in ps], key='C08.wiring|sizer|%s' % long_only)
    # the session forwards its mode and parameter
    qn = 'BacktestTradingSession._create_quant_trading_system'
    fn = ctx.fn(qn)
    for long_only, kwname in ((True, 'cash_buffer_percentage'), (False, 'gross_leverage')):
        val = Valuation(facts={'self.long_only': long_only}, member={("'%s'" % kwname, 'kwargs'): True})
        ps = summarise(ctx, fn, policy=no_inline, oracle=val)
        nps = normal(ps)
        ok = len(nps) == 1
        if ok:
            cs = [e for e in nps[0].flat_events() if e.kind == 'call' and e.callee == ['QuantTradingSystem.__init__']]
            ok = len(cs) == 1
            if ok:
                a = cs[0].args
                ok = a.get('universe') == A('self', 'universe') and a.get('broker') == A('self', 'broker') and a.get('broker_portfolio_id') == A('self', 'portfolio_id') and \
                    a.get('data_handler') == A('self', 'data_handler') and a.get('alpha_model') == A('self', 'alpha_model') and a.get('long_only') == A('self', 'long_only') and \
                    a.get('submit_orders') == T.TRUE and a.get(kwname) == ('sub', V('kwargs'), ('str', kwname))
        ctx.require(ok, 'C08.wiring', 'the session builds its trading system on its own broker/portfolio/universe/alpha model, long_only=%s with %s, submitting orders' % (long_only, kwname),
                    fn.site(), key='C08.wiring|session-qts|%s' % long_only)
    # models: fixed-weight optimiser, pass-through execution algorithm, the session's alpha model
    qn = 'QuantTradingSystem._initialise_models'
    ps = summarise(ctx, qn, policy=no_inline)
    for p in normal(ps):
        pcm = [e for e in p.flat_events() if e.kind == 'call' and e.callee == ['PortfolioConstructionModel.__init__']]
        eh = [e for e in p.flat_events() if e.kind == 'call' and e.callee == ['ExecutionHandler.__init__']]
        ok = len(pcm) == 1 and len(eh) == 1
        if ok:
            a = pcm[0].args
            ok = a.get('broker') == A('self', 'broker') and a.get('broker_portfolio_id') == A('self', 'broker_portfolio_id') and a.get('universe') == A('self', 'universe') and \
                a.get('alpha_model') == A('self', 'alpha_model') and a.get('optimiser') is not None and a['optimiser'][0] == 'call' and a['optimiser'][1] == ('fn', 'FixedWeightPortfolioOptimiser') and \
                a.get('order_sizer') is not None and a['order_sizer'][0] == 'call' and 'QuantTradingSystem._create_order_sizer' in fmt(a['order_sizer'])
            b = eh[0].args
            ok = ok and b.get('broker') == A('self', 'broker') and b.get('broker_portfolio_id') == A('self', 'broker_portfolio_id') and b.get('submit_orders') == A('self', 'submit_orders') and \
                b.get('execution_algo') is not None and b['execution_algo'][0] == 'call' and b['execution_algo'][1] == ('fn', 'MarketOrderExecutionAlgorithm')
        if not ok and len(pcm) == 1 and len(eh) == 1:
            # which argument deviates?  One that is produced by something the rule does not read (a factory looked up by name, a partial, a registry) is left open
            opt_ = pcm[0].args.get('optimiser')
            parts_ = [t_ for t_ in (opt_, pcm[0].args.get('order_sizer'), eh[0].args.get('execution_algo')) if t_ is not None]
            unread_ = [t_ for t_ in parts_ if any(s_[0] in ('havoc', 'lc') or (s_[0] == 'call' and (s_[1] == ('ext', 'APPLY') or (s_[1][0] == 'ext' and s_[1][1] == 'functools.partial')
                                                                                                  or (s_[1][0] == 'fn' and s_[1][1] not in ('FixedWeightPortfolioOptimiser', 'MarketOrderExecutionAlgorithm')
                                                                                                      and 'QuantTradingSystem._create_order_sizer' not in s_[1][1])))
                                                  for s_ in T.subterms(t_))]
            if unread_:
                ctx.undecided('C08.wiring', 'construction model = (session broker, portfolio, universe, alpha model, selected sizer, fixed-weight optimiser); execution = market orders',
                              ctx.fn(qn).site(), 'a component is produced by %s, which the rule does not read' % fmt(unread_[0])[:100])
                continue
        ctx.require(ok, 'C08.wiring', 'construction model = (session broker, portfolio, universe, alpha model, selected sizer, fixed-weight optimiser); execution = market orders', ctx.fn(qn).site(),
                    key='C08.wiring|models')
    ps = summarise(ctx, 'MarketOrderExecutionAlgorithm.__call__', policy=no_inline)
    ok = len(ps) == 1 and ps[0].outcome == 'return' and ps[0].value == V('initial_orders')
    ctx.require(ok, 'C08.wiring', 'the market-order execution algorithm returns the orders unchanged', ctx.fn('MarketOrderExecutionAlgorithm.__call__').site(), key='C08.wiring|exec-algo')
    ps = summarise(ctx, 'QuantTradingSystem.__init__', policy=no_inline)
    for p in normal(ps):
        for fld in ('universe', 'broker', 'broker_portfolio_id', 'data_handler', 'alpha_model', 'long_only', 'submit_orders'):
            from ..lib import ctor_keeps_argument
            ctor_keeps_argument(ctx, 'C08.wiring', 'QuantTradingSystem', p, fld, 'QuantTradingSystem.%s is the constructor argument' % fld, 'C08.wiring|qts-field|%s' % fld)


def execution(ctx):
    qn = 'ExecutionHandler.__call__'
    fn = ctx.fn(qn)
    for submit in (True, False):
        ps = summarise(ctx, fn, policy=default_policy, oracle=Valuation(facts={'self.submit_orders': submit}))
        for p in ps:
            subs = [(e, l, c) for e, l, c in nested_events(p) if e.kind == 'call' and 'SimulatedBroker.submit_order' in e.callee]
            if not submit:
                ctx.require(not subs and p.outcome != 'raise', 'C08.exec', 'nothing is submitted when submission is off', fn.site(), key='C08.exec|off')
                continue
            if not ctx.require(len(subs) == 1 and p.outcome == 'fall', 'C08.exec', 'one submission site', subs[0][0].site if subs else fn.site(), len(subs), key='C08.exec|site'):
                continue
            e, loops, conds = subs[0]
            algo = [x for x in p.flat_events() if x.kind == 'call' and any('ExecutionAlgorithm.__call__' in c for c in x.callee)]
            ok = len(loops) == 1 and len(algo) == 1 and loops[0][0].iter == algo[0].result and algo[0].args.get('initial_orders') == V('rebalance_orders') and algo[0].args.get('dt') == V('dt')
            ctx.require(ok, 'C08.exec', 'the orders submitted are the execution algorithm\'s output for the rebalance orders', e.site, fmt(loops[0][0].iter)[:100] if loops else None,
                        key='C08.exec|source')
            if loops:
                lp = loops[0][0]
                ok = e.args.get('order') == ('elem', lp.iter, lp.id) and e.args.get('portfolio_id') == A('self', 'broker_portfolio_id') and e.d.get('recv') == A('self', 'broker')
                ctx.require(ok, 'C08.exec', 'each final order is submitted to the session portfolio at the session broker', e.site, {k: fmt(v)[:40] for k, v in e.args.items()}, key='C08.exec|args')
                okb = all(b.outcome == 'fall' and not b.conds and len([x for x in b.flat_events() if x.kind == 'call' and 'SimulatedBroker.submit_order' in x.callee]) == 1 for b in lp.paths)
                ctx.require(okb, 'C08.exec', 'every final order is submitted exactly once (no skip, no break)', lp.site, [b.describe()[:80] for b in lp.paths], key='C08.exec|every')
    for f2, n in calls_named(ctx.M, '_apply_execution_algo_to_rebalances'):
        ctx.require(f2.qn == qn, 'C08.exec', 'the execution algorithm is applied by the handler only', f2.site(n))


def funding(ctx):
    qn = 'BacktestTradingSession._create_broker'
    fn = ctx.fn(qn)

    def own_helpers(caller, callee, depth, _p=fn.path):
        # helpers of the session module (a split-off 'create the default portfolio' step, a module-level broker factory) are read through
        return depth <= 4 and callee.path == _p and callee.name != '__init__' and (callee.cls is None or callee.name.startswith('_'))
    ps = summarise(ctx, qn, policy=own_helpers)
    detail = None
    for p in normal(ps):
        if any(v_ and c_[0] == 'cmp' and c_[1] in ('is', '==') and A('self', 'fee_model') in (c_[2], c_[3]) and T.NONE in (c_[2], c_[3]) for c_, v_, _ in p.conds):
            continue        # no fee model configured at all: outside the property's quantifier
        bk = [e for e in p.flat_events() if e.kind == 'call' and e.callee == ['SimulatedBroker.__init__']]
        cp = [e for e in p.flat_events() if e.kind == 'call' and 'SimulatedBroker.create_portfolio' in e.callee]
        sf = [e for e in p.flat_events() if e.kind == 'call' and 'SimulatedBroker.subscribe_funds_to_portfolio' in e.callee]
        ok = len(bk) == 1 and len(cp) == 1 and len(sf) == 1
        if ok:
            a = bk[0].args
            ok = a.get('start_dt') == A('self', 'start_dt') and a.get('exchange') == A('self', 'exchange') and a.get('data_handler') == A('self', 'data_handler') and \
                a.get('initial_funds') == A('self', 'initial_cash') and a.get('fee_model') == A('self', 'fee_model')
            ok = ok and cp[0].args.get('portfolio_id') == A('self', 'portfolio_id') and sf[0].args.get('portfolio_id') == A('self', 'portfolio_id') and \
                sf[0].args.get('amount') == A('self', 'initial_cash')
            if not ok:
                detail = {k: fmt(v)[:40] for k, v in a.items()}
            evs = list(p.flat_events())
            ok = ok and evs.index(bk[0]) < evs.index(cp[0]) < evs.index(sf[0])
        ctx.require(ok, 'C08.funding', 'the session creates its broker with the configured fee model and funds its one portfolio with the whole initial cash', fn.site(),
                    'broker constructed with %s' % (detail if not ok and len(bk) == 1 else '%d broker / %d portfolio / %d funding calls' % (len(bk), len(cp), len(sf))),
                    key='C08.funding|broker')
    ps = summarise(ctx, 'BacktestTradingSession.__init__', policy=no_inline)
    for p in normal(ps)[:1]:
        for fld in ('start_dt', 'end_dt', 'universe', 'alpha_model', 'initial_cash', 'portfolio_id', 'long_only', 'fee_model', 'burn_in_dt', 'rebalance'):
            from ..lib import ctor_keeps_argument
            ctor_keeps_argument(ctx, 'C08.funding', 'BacktestTradingSession', p, fld, 'BacktestTradingSession.%s is the constructor argument' % fld, 'C08.funding|field|%s' % fld)
    ps = summarise(ctx, 'BacktestTradingSession._create_exchange', policy=no_inline)
    ok = len(ps) == 1 and ps[0].value is not None and ps[0].value[0] == 'call' and ps[0].value[1] == ('fn', 'SimulatedExchange')
    ctx.require(ok, 'C08.funding', 'the session trades on the simulated exchange (14:30-21:00)', ctx.fn('BacktestTradingSession._create_exchange').site(), key='C08.funding|exchange')


def open_row_is_exchange_open(ctx):
    """14:30 is both the exchange's opening instant and the time stamp of a bar's Open row; 21:00 both the close and the Close row (C06-S4, C04-S6)."""
    from ..lib import time_of_day, loc_attr
    ps = summarise(ctx, 'CSVDailyBarDataSource._convert_bar_frame_into_bid_ask_df', policy=default_policy)
    from .c06 import row_offsets
    offs = {}
    for p in normal(ps):
        offs.update(row_offsets(p))
    ps = summarise(ctx, 'SimulatedExchange.__init__', policy=default_policy)
    ex = {}
    for p in normal(ps):
        for w in heap_writes(p):
            if loc_attr(w.loc) in ('open_dt', 'close_dt'):
                ex[loc_attr(w.loc)] = time_of_day(w.value)
    ok = offs.get('Open') == ex.get('open_dt') == (14, 30) and offs.get('Close') == ex.get('close_dt') == (21, 0)
    if not offs and ex.get('open_dt') == (14, 30) and ex.get('close_dt') == (21, 0):
        ctx.undecided('C08.times', 'a bar\'s open price is quoted from the exchange\'s opening instant and its close price from the closing instant', None,
                      'the converter stamps its rows in a way this rule does not read')
    else:
        ctx.require(ok, 'C08.times', 'a bar\'s open price is quoted from the exchange\'s opening instant and its close price from the closing instant', None,
                'bar rows %s, exchange %s' % (offs, ex), key='C08.times')
