"""C13 - rebalance schedules hold exactly the intended dates and meet a clock event (DESIGN C13: S1..S4)."""
import ast

from .. import terms as T
from ..lib import summarise, heap_writes, V, A, normal, raising, cond_str, writers_of_attr, time_of_day, no_inline, calls_named
from ..symex import Valuation, SymEx, default_policy
from ..terms import fmt, ZERO, num
from . import c12

UTC = (('str', 'UTC'), ('ext', 'pytz.utc'), ('ext', 'pytz.UTC'), ('ext', 'datetime.timezone.utc'))


def stamped(ctx, rule, cname, fn, v, dates_ok, market_field):
    """v = [pd.Timestamp('%s %s' % (date, self.<market_time>), tz=utc) for date in <dates>]"""
    if not (v is not None and v[0] == 'comp' and v[1] == 'list' and len(v[3]) == 1):
        ctx.undecided(rule, '%s builds its instants by one comprehension over the dates' % cname, fn.site(), fmt(v)[:160] if v else None)
        return None
    gen = v[3][0]
    ctx.require(not gen[2], rule, '%s keeps every date of the range (no filter)' % cname, fn.site(), [fmt(c) for c in gen[2]], key='%s|%s|filter' % (rule, cname))
    bv = gen[0][0]
    elt = v[2]
    ok = elt[0] == 'call' and elt[1] == ('ext', 'pandas.Timestamp') and len(elt[2]) == 1 and dict(elt[3]).get('tz') in UTC and \
        elt[2][0] == ('fmt', ('str', '%s %s'), ('tuple', (bv, A('self', market_field))))
    ctx.require(ok, rule, '%s stamps each date with its market time, in UTC' % cname, fn.site(), fmt(elt)[:160], key='%s|%s|stamp' % (rule, cname))
    return gen[1]


def fold_fmt(t):
    """string formatting with constant string arguments folded into the template: '%s %s' % (d, '21:00:00') == '%s 21:00:00' % d"""
    if t[0] == 'str':
        return ('fmt', ('str', t[1].replace('%', '%%')), ('tuple', ()))
    if not (t[0] == 'fmt' and t[1][0] == 'str' and len(t) > 2 and t[2][0] == 'tuple'):
        return t
    parts = t[1][1].split('%s')
    args = list(t[2][1])
    if len(parts) != len(args) + 1:
        return t
    tmpl, rest = parts[0], []
    for a, nxt in zip(args, parts[1:]):
        a = fold_fmt(a) if a[0] == 'fmt' else a
        if a[0] == 'str':
            tmpl += a[1].replace('%', '%%') + nxt
        elif a[0] == 'fmt' and a[1][0] == 'str' and a[2][0] == 'tuple':
            tmpl += a[1][1] + nxt
            rest.extend(a[2][1])
        else:
            tmpl += '%s' + nxt
            rest.append(a)
    return ('fmt', ('str', tmpl), ('tuple', tuple(rest)))


def market_time(ctx, qn):
    """decision table of _set_market_time: pre_market -> '14:30:00', else '21:00:00'"""
    fn = ctx.fn(qn)
    res = {}
    for pre in (True, False):
        ps = summarise(ctx, fn, policy=default_policy, oracle=Valuation(facts={'pre_market': pre}))
        vals = {fmt(p.value) for p in ps if p.outcome == 'return'}
        res[pre] = vals
    ok = res == {True: {"'14:30:00'"}, False: {"'21:00:00'"}}
    ctx.require(ok, 'C13.S3', '%s maps pre_market to 14:30:00 and otherwise 21:00:00' % qn, fn.site(), str(res), key='C13.S3|%s' % qn)


def check(ctx):
    from ..lib import discarded_results
    ctx.sub(discarded_results, 'C13.S4', ('qstrader/system/rebalance/', 'qstrader/trading/'), 'schedules are the lists the code actually sorted and filtered')
    from . import c14
    ctx.sub(c14.s1_loop_table)       # a scheduled instant that meets a clock event fires (not before burn-in, inclusive)
    schedules(ctx)
    from . import c18
    ctx.sub(c18.shared_state)        # a schedule remembered for the whole process must be filed under everything it was generated from


def first_weekday_on_or_after(a0, start, wd_name, path):
    """a0 == start + <days offset D>, D = I - W (+7 on some paths) with W = start.weekday() and I the number of the wanted weekday: the first such weekday on or
    after the start iff D lies in 0..6 on every path.  -> ('ok', text) | ('bad', why) | None (not of this form).  Interval arithmetic over the path's own tests on
    I - W; the numbers of the weekdays are those of a literal (MON, TUE, ...) table in calendar order, or unknown within 0..6."""
    offs = [s_ for s_ in T.subterms(a0) if s_[0] == 'call' and s_[1][0] == 'ext' and s_[1][1].split('.')[-1] in ('Timedelta', 'DateOffset', 'timedelta')]
    if len(offs) != 1:
        return None
    off = offs[0]
    try:
        base = T.t_sub(a0, off)
    except Exception:
        return None
    ts_start = ('call', ('ext', 'pandas.Timestamp'), (start,), ())
    if base not in (start, ts_start):
        return None
    D = dict(off[3]).get('days', off[2][0] if (off[2] and not off[3]) else None)
    if D is None or set(dict(off[3])) - {'days'}:
        return None
    W = [s_ for s_ in T.subterms(D) if (s_[0] == 'call' and s_[1] in (('meth', 'weekday'),) and s_[2] and s_[2][0] in (start, ts_start)) or
         (s_[0] == 'attr' and s_[1] in (start, ts_start) and s_[2] in ('dayofweek', 'day_of_week', 'weekday'))]
    if not W:
        return None
    W = W[0]
    names = ['MON', 'TUE', 'WED', 'THU', 'FRI', 'SAT', 'SUN']
    I, imax = None, 6
    for s_ in T.subterms(D):
        if s_[0] == 'call' and s_[1] == ('meth', 'index') and len(s_[2]) == 2 and s_[2][0][0] in ('tuple', 'list') and s_[2][1] == wd_name:
            tbl = [x_[1] if x_[0] == 'str' else None for x_ in s_[2][0][1]]
            if tbl != names[:len(tbl)]:
                return ('bad', 'the weekday numbers are taken from the table %s, which is not in calendar order (Monday = 0)' % tbl)
            I, imax = s_, len(tbl) - 1
    if I is None:
        cands = [s_ for s_ in T.subterms(D) if s_[0] in ('attr', 'sub', 'call') and s_ != W and not any(x_ == W for x_ in T.subterms(s_)) and
                 any(x_ == wd_name or x_ == ('var', 'weekday') for x_ in T.subterms(s_))]
        cands = [c_ for c_ in cands if not any(c_ != o_ and any(x_ == c_ for x_ in T.subterms(o_)) for o_ in cands)]
        if not cands:
            # the number of the wanted weekday is a constant on this path (the member of an enumeration found by name): D = n - W with the constant inside n
            I, imax = ZERO, 0
        elif len(cands) != 1:
            return None
        else:
            I = cands[0]
    X = T.t_sub(I, W)
    try:
        c = T.t_sub(D, X)
    except Exception:
        return None
    if c[0] != 'num' or c[1].denominator != 1:
        return None
    lo, hi = -6, imax
    for cnd, val, _ in path.conds:
        if cnd[0] != 'cmp' or cnd[1] not in ('<', '<=', '==', '!='):
            continue
        try:
            d_ = T.t_sub(cnd[2], cnd[3])
        except Exception:
            continue
        for sign, dd in ((1, d_), (-1, T.t_neg(d_))):
            try:
                k_ = T.t_sub(dd, X)
            except Exception:
                continue
            if k_[0] != 'num' or k_[1].denominator != 1:
                continue
            k_ = int(k_[1])
            # the test reads  sign*(X + k) <op> 0  (dd = X + k when sign = 1, i.e. lhs - rhs;  dd = -(lhs - rhs) otherwise)
            op = cnd[1]
            if sign == 1:
                # X + k < 0  /  X + k <= 0
                if op == '<':
                    lo, hi = (lo, min(hi, -k_ - 1)) if val else (max(lo, -k_), hi)
                elif op == '<=':
                    lo, hi = (lo, min(hi, -k_)) if val else (max(lo, -k_ + 1), hi)
            else:
                # -(lhs - rhs) = X + k  ->  lhs - rhs = -(X + k):  -(X + k) < 0  <=>  X + k > 0
                if op == '<':
                    lo, hi = (max(lo, -k_ + 1), hi) if val else (lo, min(hi, -k_))
                elif op == '<=':
                    lo, hi = (max(lo, -k_), hi) if val else (lo, min(hi, -k_ - 1))
            break
    dlo, dhi = lo + int(c[1]), hi + int(c[1])
    if lo > hi:
        return ('ok', 'path not taken')
    if dlo >= 0 and dhi <= 6:
        return ('ok', 'the start is moved ahead by %d..%d days on path [%s]' % (dlo, dhi, cond_str(path)[:60]))
    return ('bad', 'on path [%s] the start is moved by %d..%d days: %s' % (
        cond_str(path)[:80], dlo, dhi, 'a start that already falls on the weekday is pushed a whole week ahead' if dhi == 7 else
        ('the first date can precede the start' if dlo < 0 else 'the first such weekday on or after the start is 0..6 days ahead')))


def schedules(ctx):
    M = ctx.M
    from ..lib import one_shot_state
    for cn_ in ('DailyBusinessDaySimulationEngine', 'WeeklyRebalance', 'DailyRebalance', 'EndOfMonthRebalance', 'BuyAndHoldRebalance'):
        ctx.sub(one_shot_state, 'C13.S4', cn_)      # a schedule / clock that is exhausted by its first reader skips every later rebalance
    # ---- weekly / daily / end of month: decided on the constructor (what ends up in self.rebalances), for both settings of pre_market
    pkg = ctx.fn('WeeklyRebalance.__init__').path.rsplit('/', 1)[0]

    def pol(caller, callee, depth):
        return depth <= 6 and (default_policy(caller, callee, depth) or callee.path.startswith(pkg))
    for c, params in (('WeeklyRebalance', ('start_date', 'end_date')), ('DailyRebalance', ('start_date', 'end_date')), ('EndOfMonthRebalance', ('start_dt', 'end_dt'))):
        fn = ctx.fn(c + '.__init__')
        st_, en_ = V(params[0]), V(params[1])
        for pre in (True, False):
            ps = normal(summarise(ctx, fn, policy=pol, oracle=Valuation(facts={'pre_market': pre})))
            if not ctx.require(1 <= len(ps) <= 40 if 1 <= len(ps) <= 40 else None, 'C13.S1', '%s has an accepting construction path (pre_market=%s)' % (c, pre), fn.site(),
                               [cond_str(p)[:80] for p in ps][:4]):
                continue
            for p0 in ps:
                v = p0.heap.get(A('self', 'rebalances'))
                if v is not None and v[0] == 'call' and v[1] == ('ext', 'LIST') and len(v[2]) == 1 and v[2][0][0] == 'comp':
                    v = ('comp', 'list') + v[2][0][2:]
                if not (v is not None and v[0] == 'comp' and v[1] == 'list' and len(v[3]) == 1 and len(v[3][0][0]) == 1):
                    ctx.undecided('C13.S1', '%s builds its instants by one comprehension over the dates' % c, fn.site(), fmt(v)[:200] if v else None)
                    continue
                (bv,), dates, ifs = v[3][0]
                ctx.require(not ifs, 'C13.S1', '%s keeps every date of the range (no filter)' % c, fn.site(), [fmt(x) for x in ifs], key='C13.S1|%s|filter' % c)
                elt = v[2]
                tm = '14:30:00' if pre else '21:00:00'
                ok = elt[0] == 'call' and elt[1] == ('ext', 'pandas.Timestamp') and len(elt[2]) == 1 and dict(elt[3]).get('tz') in UTC and set(dict(elt[3])) == {'tz'} and \
                    fold_fmt(elt[2][0]) == ('fmt', ('str', '%s ' + tm), ('tuple', (bv,)))
                ctx.require(ok, 'C13.S1', '%s stamps each date with %s UTC when pre_market=%s' % (c, tm[:5], pre), fn.site(), fmt(elt)[:160], key='C13.S1|%s|stamp|%s' % (c, pre))
                k = dict(dates[3]) if dates[0] == 'call' else {}
                args = dates[2] if dates[0] == 'call' else ()
                a0 = k.get('start', args[0] if args else None)
                a1 = k.get('end', args[1] if len(args) > 1 else None)
                if c == 'WeeklyRebalance':
                    wdv = p0.heap.get(A('self', 'weekday'))
                    up = ('call', ('meth', 'upper'), (V('weekday'),), ())
                    unread_wd = wdv is not None and wdv != up and any((s_[0] == 'sub' and s_[1][0] == 'var' and s_[1][1].startswith('class:')) or (s_[0] == 'call' and s_[1][0] == 'fn') or s_[0] == 'havoc'
                                                                      for s_ in T.subterms(wdv))
                    same_on_path = wdv is not None and wdv[0] == 'str' and any(v_ and x_[0] == 'cmp' and x_[1] == '==' and {x_[2], x_[3]} == {up, wdv} for x_, v_, _ in p0.conds)
                    if same_on_path:
                        # looked up by its upper-cased name and found: on this path the name kept IS the upper-cased keyword
                        ctx.holds('C13.S2', 'the weekday used is the validated (upper-cased) one [%s]' % fmt(wdv), fn.site())
                    elif unread_wd:
                        # the name goes through a lookup this rule does not evaluate (an enumeration member found by name, and a field of it handed back)
                        ctx.undecided('C13.S2', 'the weekday used is the validated (upper-cased) one', fn.site(), fmt(wdv)[:120])
                    else:
                        ctx.require(wdv == up, 'C13.S2', 'the weekday used is the validated (upper-cased) one', fn.site(), fmt(wdv) if wdv else None, key='C13.S2|validated')
                    fr = k.get('freq') or ZERO
                    fr_ok = fold_fmt(fr) == ('fmt', ('str', 'W-%s'), ('tuple', (up,)))
                    # the weekday this path was taken for, when the code dispatched on it (a table of frequencies / offsets per weekday)
                    known = [x_[3][1] if x_[2] == up else x_[2][1] for x_, v_, _ in p0.conds if v_ and x_[0] == 'cmp' and x_[1] == '==' and up in (x_[2], x_[3])
                             and (x_[3] if x_[2] == up else x_[2])[0] == 'str']
                    names = ['MON', 'TUE', 'WED', 'THU', 'FRI', 'SAT', 'SUN']
                    if not fr_ok and fr[0] == 'call' and fr[1][0] == 'ext' and fr[1][1].endswith('offsets.Week') and not fr[2]:
                        # a Week offset anchored on a weekday NUMBER: right iff the number is that of the weekday this path was taken for
                        n_ = dict(fr[3]).get('weekday')
                        fr_ok = len(known) == 1 and known[0] in names and n_ == num(names.index(known[0])) and set(dict(fr[3])) == {'weekday'}
                    elif not fr_ok and fr[0] == 'str' and len(known) == 1:
                        # a literal frequency string chosen per weekday: right iff it names that weekday
                        fr_ok = fr[1] == 'W-' + known[0]
                    ok = dates[0] == 'call' and dates[1] == ('ext', 'pandas.date_range') and a0 == st_ and a1 == en_ and fr_ok and not (set(k) - {'start', 'end', 'freq'})
                    stepped = fr[0] == 'str' and fr[1].upper() in ('7D', 'W', '1W', '168H') or (fr[0] == 'call' and fr[1][0] == 'ext' and fr[1][1].endswith('Timedelta')) \
                        or (fr[0] == 'call' and fr[1][0] == 'ext' and fr[1][1].split('.')[-1] in ('DateOffset', 'Week', 'timedelta') and
                            (dict(fr[3]) in ({'weeks': num(1)}, {'days': num(7)}) or (not fr[3] and fr[1][1].endswith('Week') and fr[2] in ((), (num(1),)))))
                    if not ok and dates[0] == 'call' and dates[1] == ('ext', 'pandas.date_range') and a1 == en_ and a0 is not None and a0 != st_ and stepped \
                            and not (set(k) - {'start', 'end', 'freq'}):
                        verdict = first_weekday_on_or_after(a0, st_, up, p0)
                        if verdict is not None:
                            if verdict[0] == 'ok':
                                ctx.holds('C13.S1', "weekly dates = every 7 days from the first <weekday> on or after the start (%s)" % verdict[1], fn.site())
                            else:
                                ctx.violation('C13.S1', "weekly dates = pd.date_range(start, end, freq='W-<weekday>') over the unmodified range", fn.site(), 'READ: ' + verdict[1],
                                              key='C13.S1|weekly|range')
                            continue
                    if not ok and dates[0] == 'call' and dates[1] == ('ext', 'pandas.date_range') and a1 == en_ and a0 is not None and a0 != st_ \
                            and any(s_ == st_ for s_ in T.subterms(a0)) and stepped:
                        # stepping a week at a time from a first date computed out of the start (the first such weekday on or after it): the calendar arithmetic
                        # that finds that first date is not evaluated here
                        ctx.undecided('C13.S1', "weekly dates = pd.date_range(start, end, freq='W-<weekday>') over the unmodified range", fn.site(),
                                      'weekly steps from a computed first date: %s' % fmt(a0)[:140])
                        continue
                    ctx.require(ok, 'C13.S1', "weekly dates = pd.date_range(start, end, freq='W-<weekday>') over the unmodified range", fn.site(), fmt(dates)[:200], key='C13.S1|weekly|range')
                elif c == 'DailyRebalance':
                    ok, why = c12.is_business_daily_range(dates, st_, en_, normalized=True)
                    ctx.require(ok, 'C13.S1', 'daily dates = the business days of the unmodified range', fn.site(), '%s (%s)' % (fmt(dates)[:160], why), key='C13.S1|daily|range')
                else:
                    fr = k.get('freq')
                    ok = dates[0] == 'call' and dates[1] == ('ext', 'pandas.date_range') and a0 == st_ and a1 == en_ and not (set(k) - {'start', 'end', 'freq'})
                    ctx.require(ok, 'C13.S1', 'end-of-month dates come from pd.date_range over the unmodified range', fn.site(), fmt(dates)[:200], key='C13.S1|eom|range')
                    ctx.require(fr in (('str', 'BME'), ('str', 'BM')), 'C13.S1', "end-of-month frequency is the business month end ('BME')", fn.site(),
                                'freq=%s' % (fmt(fr) if fr else None), key='C13.S1|eom|freq')
                ctx.sample({'rule': 'C13.S1', 'class': c, 'pre_market': pre, 'instants': fmt(v)[:200]})
    # weekday guard (S2): decision table of the constructor over weekday names
    fn = ctx.fn('WeeklyRebalance.__init__')
    for wd in ('MON', 'TUE', 'WED', 'THU', 'FRI', 'SAT', 'SUN', 'XYZ', '', 'MONDAY', 'WEEKDAY'):
        val = Valuation(strs={'weekday.upper()': wd}, facts={'pre_market': False})
        ps = summarise(ctx, fn, policy=pol, oracle=val)
        outs = {('raise:' + p.state.exc[1]) if p.outcome == 'raise' else 'ok' for p in ps}
        valid = wd in ('MON', 'TUE', 'WED', 'THU', 'FRI')
        if len(outs) > 1:
            ctx.undecided('C13.S2', 'the weekday guard is a membership test against a literal set of names', fn.site(), "'%s' -> %s (depends on %s)" % (wd, sorted(outs), sorted(set(val.unknown))[:2]))
            break
        ctx.require(outs == ({'ok'} if valid else {'raise:ValueError'}), 'C13.S2', "weekday '%s' is %s" % (wd, 'accepted' if valid else 'rejected with ValueError'), fn.site(), sorted(outs),
                    key='C13.S2|weekday|%s' % wd)
    # ---- buy and hold
    c = 'BuyAndHoldRebalance'
    fn = ctx.fn(c + '._generate_rebalances')
    # the calendar arithmetic may live in plain functions of the schedule package
    ps = summarise(ctx, fn, policy=lambda caller, callee, depth: default_policy(caller, callee, depth) or
                   (depth <= 6 and callee.cls is None and callee.path.startswith('qstrader/system/rebalance/')))
    sd = A('self', 'start_dt')
    isb = ('call', ('ext', 'BOOL'), (('call', ('ext', 'LEN'), (('call', ('ext', 'pandas.bdate_range'), (sd, sd), ()),), ()),), ())
    for p in ps:
        biz = None
        from ..lib import as_len_test
        for cnd, v, _ in p.conds:
            t = as_len_test(cnd, v)
            if t is not None and t[0] == ('call', ('ext', 'pandas.bdate_range'), (sd, sd), ()):
                biz = t[1] == 'nonempty'
        if biz is None and p.conds and p.outcome == 'return':
            # not the tabled bdate_range idiom: evaluate the test as a table over the weekday of the start
            verdicts = set()
            for wd in range(7):
                nxt_ = {0: 1, 1: 1, 2: 1, 3: 1, 4: 3, 5: 2, 6: 1}[wd]
                nv = Valuation(nums={'self.start_dt.weekday()': wd, 'self.start_dt.isoweekday()': wd + 1, 'self.start_dt.dayofweek': wd, 'self.start_dt.day_of_week': wd,
                                     # instants as day numbers relative to the start; one business day after a day of this weekday
                                     'self.start_dt': 0, 'pandas.tseries.offsets.BusinessDay()': nxt_, 'pandas.tseries.offsets.BDay()': nxt_,
                                     'pandas.tseries.offsets.BusinessDay(1)': nxt_, 'pandas.tseries.offsets.BDay(1)': nxt_,
                                     'pandas.tseries.offsets.BusinessDay(n=1)': nxt_, 'pandas.tseries.offsets.BDay(n=1)': nxt_})
                got = [nv.evalbool(cnd) for cnd, v, _ in p.conds]
                if None in got:
                    verdicts.add(None)
                    break
                taken = all(g == v for g, (cnd, v, _) in zip(got, p.conds))
                if taken:
                    is_start = T.teq(p.value, ('list', (sd,)))
                    is_next = any(T.teq(p.value, ('list', (T.t_add(sd, ('call', ('ext', nm), (), ())),))) for nm in
                                  ('pandas.tseries.offsets.BusinessDay', 'pandas.tseries.offsets.BDay'))
                    okw = (is_start and wd <= 4) or (is_next and wd >= 5)
                    if not is_start and not is_next:
                        # some other way of writing the instant: as an offset in days from the start, for a start on this weekday
                        off_ = nv.value(p.value[1][0]) if p.value is not None and p.value[0] == 'list' and len(p.value[1]) == 1 else None
                        if off_ is None:
                            verdicts.add(None)
                            break
                        okw = off_ == (0 if wd <= 4 else 7 - wd)
                    verdicts.add(okw)
                    if not okw:
                        ctx.violation('C13.S1', 'buy-and-hold: the instant is the start if it is a business day, else the next business day', fn.site(),
                                      'READ: a start on weekday %d (0=Mon) gives %s' % (wd, fmt(p.value)[:80]), key='C13.S1|bah|weekday-table')
                        break
            if None in verdicts:
                ctx.undecided('C13.S1', 'buy-and-hold: the instant is the start if it is a business day, else the next business day', fn.site(),
                              'the schedule %s on path [%s] is not evaluated as an offset from the start' % (fmt(p.value)[:80], cond_str(p)[:80]))
                continue
            if None not in verdicts:
                if verdicts and all(verdicts):
                    ctx.holds('C13.S1', 'buy-and-hold weekday table [%s]' % cond_str(p)[:60], fn.site())
                continue
        if p.outcome == 'return' and biz is None and not p.conds:
            ctx.violation('C13.S1', 'buy-and-hold: the instant is the start if it is a business day, else the next business day', fn.site(),
                          'the schedule is %s on every path - it never tests whether the start is a business day' % fmt(p.value)[:100], key='C13.S1|bah|no-test')
            continue
        if biz is None or p.outcome != 'return':
            ctx.undecided('C13.S1', 'buy-and-hold branches on whether the start is a business day', fn.site(), cond_str(p)[:160])
            continue
        if biz:
            exp = ('list', (sd,))
        else:
            exp = ('list', (T.t_add(sd, ('call', ('ext', 'pandas.tseries.offsets.BusinessDay'), (), ())),))
        alt = ('list', (T.t_add(sd, ('call', ('ext', 'pandas.tseries.offsets.BDay'), (), ())),))
        ctx.require(T.teq(p.value, exp) or (not biz and T.teq(p.value, alt)), 'C13.S1', 'buy-and-hold: the single instant is the start%s' % ('' if biz else ' + one business day'),
                    fn.site(), fmt(p.value), key='C13.S1|bah|%s' % biz)
    # ---- S4: every instant meets a clock event
    table, facts = c12.clock_events(ctx)
    uncond = None
    for (pre, post), seqs in table.items():
        times = {b for s, _ in seqs for a, b, c in s}
        uncond = times if uncond is None else (uncond & times)
    seen_any = any(s for seqs in table.values() for s, _ in seqs)
    unread = any(b is None or a == '?' for seqs in table.values() for s, _ in seqs for a, b, c in s)
    inexact = [(a, b[1]) for seqs in table.values() for s, _ in seqs for a, b, c in s if isinstance(b, tuple) and b and b[0] == 'inexact']
    if inexact:
        ctx.violation('C13.S4', 'the schedule times 14:30 and 21:00 are events the clock emits unconditionally', None,
                      'the clock\'s %s event is not exactly on its time of day (%s): no schedule instant, stamped HH:MM:00, ever equals it' % inexact[0], key='C13.S4|times')
    elif not seen_any or unread:
        # the clock generates its events in a way the event table does not read (streams zipped per event type, ...): not claimed either way
        ctx.undecided('C13.S4', 'the schedule times 14:30 and 21:00 are events the clock emits unconditionally', None, 'no event of the clock was recognised')
    else:
        ctx.require(uncond is not None and {(14, 30), (21, 0)} <= uncond, 'C13.S4', 'the schedule times 14:30 and 21:00 are events the clock emits unconditionally', None,
                    sorted(uncond or []), key='C13.S4|times')
    # the clock enumerates the business days of the same, unmodified range
    ps = summarise(ctx, 'DailyBusinessDaySimulationEngine.__init__', policy=default_policy)
    for p in normal(ps):
        w = heap_writes(p, 'business_days')
        if len(w) == 1:
            ok, why = c12.is_business_daily_range(w[0].value, V('starting_day'), V('ending_day'))
            ctx.require(ok, 'C13.S4', 'the clock covers every business day of the unmodified (start, end) range', w[0].site, why, key='C13.S4|clock-range')
    # the session builds clock and schedule from the same (start_dt, end_dt)
    ps = summarise(ctx, 'BacktestTradingSession._create_simulation_engine', policy=no_inline)
    for p in ps:
        v = p.value
        ok = p.outcome == 'return' and v is not None and v[0] == 'call' and v[1] == ('fn', 'DailyBusinessDaySimulationEngine') and v[2][:2] == (A('self', 'start_dt'), A('self', 'end_dt'))
        ctx.require(ok, 'C13.S4', 'the session\'s clock runs over (start_dt, end_dt)', ctx.fn('BacktestTradingSession._create_simulation_engine').site(), fmt(v)[:120] if v else None,
                    key='C13.S4|session-clock')
    fn = ctx.fn('BacktestTradingSession._create_rebalance_event_times')
    rows = {'buy_and_hold': ('BuyAndHoldRebalance', (A('self', 'start_dt'),)), 'daily': ('DailyRebalance', (A('self', 'start_dt'), A('self', 'end_dt'))),
            'weekly': ('WeeklyRebalance', (A('self', 'start_dt'), A('self', 'end_dt'), A('self', 'rebalance_weekday'))),
            'end_of_month': ('EndOfMonthRebalance', (A('self', 'start_dt'), A('self', 'end_dt')))}
    def same_module(caller, callee, depth):
        # factories of a dispatch table live next to the session; the Rebalance classes themselves stay opaque constructor calls
        return depth <= 4 and callee.path == fn.path and callee.name != '__init__'
    for name in list(rows) + ['fortnightly']:
        val = Valuation(strs={'self.rebalance': name})
        ps = summarise(ctx, fn, policy=same_module, oracle=val)
        from ..lib import without_sound_memo_hits
        n_unk_ = len(val.unknown)
        ps, _memos = without_sound_memo_hits(ctx, 'C13.S4', fn, ps, 'C13.S4|%s' % name)
        if _memos:
            # (whether a sound memo already holds the entry is not something the outcome depends on)
            val.unknown[:] = [u_ for u_ in val.unknown if not any(m_ in str(u_) for m_ in _memos)]
        if name not in rows:
            if not all(p.outcome == 'raise' and p.state.exc[1] == 'ValueError' for p in ps) and val.unknown:
                # the frequency is looked up somewhere the valuation does not decide (a registry filled when the schedule classes are defined): what the look-up
                # answers for an unknown keyword is not read here
                ctx.undecided('C13.S4', 'an unknown rebalance frequency is rejected', fn.site(), 'depends on %s' % sorted(set(val.unknown))[:2])
                continue
            ctx.require(all(p.outcome == 'raise' and p.state.exc[1] == 'ValueError' for p in ps), 'C13.S4', 'an unknown rebalance frequency is rejected', fn.site(), key='C13.S4|unknown')
            continue
        cls, args = rows[name]
        ok = len(ps) == 1 and ps[0].outcome == 'return'
        if ok:
            def plain(t):
                # getattr(self, 'field', default) reads self.field; list(schedule) is the same instants in the same order
                def f(z):
                    if z[0] == 'call' and z[1] == ('ext', 'builtins.getattr') and len(z[2]) == 3 and z[2][1][0] == 'str' and not z[3]:
                        return ('attr', z[2][0], z[2][1][1])
                    return None
                t = T.replace(t, f)
                while t[0] == 'call' and t[1] in (('ext', 'LIST'), ('ext', 'TUPLE')) and len(t[2]) == 1 and not t[3]:
                    t = t[2][0]
                return t
            v = plain(ps[0].value)
            cs = [e for e in ps[0].flat_events() if e.kind == 'call' and e.callee == [cls + '.__init__']]
            ok = len(cs) == 1 and tuple(plain(a_) for a_ in cs[0].args.values()) == args and v == ('attr', ('call', ('fn', cls), args, ()), 'rebalances')
        ctx.require(ok, 'C13.S4', "rebalance='%s' builds %s over the session's own range and uses its schedule" % (name, cls), fn.site(),
                    [fmt(p.value)[:100] if p.value else p.outcome for p in ps], key='C13.S4|row|%s' % name)
